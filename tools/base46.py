#!/usr/bin/env python3
"""tools/base46.py <junit.xml>: print 'base46: N/46 pass [missing ...]' - which of the pinned baseline tests
(/root/.vp/BASELINE.json stable_pass) pass in a junit report."""
import json, sys, xml.etree.ElementTree as ET
b = json.load(open('/root/.vp/BASELINE.json'))['stable_pass']
ok = set()
for tc in ET.parse(sys.argv[1]).iter('testcase'):
  if not any(c.tag in ('failure', 'error', 'skipped') for c in tc):
    ok.add('%s::%s' % (tc.get('classname'), tc.get('name')))
miss = [x for x in b if x not in ok]
print("base46: %d/%d pass%s" % (len(b) - len(miss), len(b), (" missing " + ",".join(miss)) if miss else ""))
