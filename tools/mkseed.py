#!/usr/bin/env python3
"""tools/mkseed.py <seed-name> <file> <old-file> <new-file> [...]: make /verif/seeded/<seed-name>/patch.diff by replacing
the text in <old-file> with <new-file> inside <file> of a scratch worktree of /repo's HEAD (never touches /repo's working
tree).  Several (file, old, new) triples may be given."""
import subprocess, sys, os, shutil
name = sys.argv[1]; triples = sys.argv[2:]
W = "/tmp/mkseed_%d" % os.getpid()
subprocess.check_call(['git', '-C', '/repo', 'worktree', 'add', '--detach', '-f', W, 'HEAD'], stdout=subprocess.DEVNULL, stderr=subprocess.DEVNULL)
try:
  for i in range(0, len(triples), 3):
    f, o, n = triples[i:i+3]
    p = os.path.join(W, f); s = open(p).read(); old = open(o).read(); new = open(n).read()
    assert s.count(old) == 1, (f, s.count(old))
    open(p, 'w').write(s.replace(old, new))
  d = subprocess.run(['git', '-C', W, 'diff'], capture_output=True, text=True).stdout
  os.makedirs('/verif/seeded/' + name, exist_ok=True)
  open('/verif/seeded/%s/patch.diff' % name, 'w').write(d)
  print(d)
finally:
  subprocess.call(['git', '-C', '/repo', 'worktree', 'remove', '--force', W], stdout=subprocess.DEVNULL, stderr=subprocess.DEVNULL)
  shutil.rmtree(W, ignore_errors=True)
