#!/bin/bash
# tools/run_all.sh [tier] : run every claimed check sequentially, print one summary line each
cd "$(dirname "$(dirname "$(realpath "$0")")")"
TIER=${1:-quick}
for id in $(python3 -c "import json; print(' '.join(c['property_id'] for c in json.load(open('MANIFEST.json'))['checks']))"); do
  s=$(date +%s)
  out=$(timeout 3000 ./check $id --tier $TIER 2>&1)
  rc=$?
  echo "$id rc=$rc $(echo "$out" | grep -c '^VIOLATION') violations, $(echo "$out" | grep -c '^KNOWN-FINDING') known; $(echo "$out" | tail -1 | cut -c1-160)"
done
