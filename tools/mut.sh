#!/bin/bash
# tools/mut.sh <patch.diff> <ID> [demo.py] [extra check args] : apply a seeded change to /repo, run the
# baseline tests, the demo and the quick check, then undo it.  Never commits.
P="$(realpath "$1")"; ID="$2"; DEMO="$3"; [ -n "$DEMO" ] && DEMO="$(realpath "$DEMO")"; shift 3
cd /repo || exit 2
if ! git diff --quiet; then echo "repo dirty"; exit 2; fi
git apply "$P" || { echo "PATCH-DOES-NOT-APPLY"; exit 3; }
trap 'git -C /repo checkout -- .' EXIT
T=$(/venv/bin/python -m pytest -q -p no:cacheprovider --timeout=900 --continue-on-collection-errors 2>&1 | tail -1)
echo "tests: $T"
if [ -n "$DEMO" ] && [ -f "$DEMO" ]; then /venv/bin/python "$DEMO" /repo >/tmp/demo.out 2>&1; echo "demo exit=$? ($(tail -1 /tmp/demo.out | cut -c1-150))"; fi
cd /verif && ./check "$ID" --no-evidence "$@" 2>&1 | grep -v "^KNOWN-FINDING\|^note:" | tail -6
echo "check exit=${PIPESTATUS[0]}"
