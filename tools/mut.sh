#!/bin/bash
# tools/mut.sh <patch.diff> <ID> [demo.py] [extra check args]
# Apply a seeded change to a scratch worktree of /repo's HEAD (outside /repo and /verif), run the baseline
# tests, the demo and the quick check against it (POX_SRC), then remove the worktree.  Never touches /repo's
# working tree, so it is safe while other checks run.
P="$(realpath "$1")"; ID="$2"; DEMO="$3"; [ -n "$DEMO" ] && DEMO="$(realpath "$DEMO")"; shift 3
W=/tmp/mut_$$
git -C /repo worktree add --detach -f "$W" HEAD >/dev/null 2>&1 || { echo "cannot create worktree"; exit 2; }
trap 'git -C /repo worktree remove --force "$W" >/dev/null 2>&1; rm -rf "$W"' EXIT
cd "$W" || exit 2
git apply "$P" || { echo "PATCH-DOES-NOT-APPLY"; exit 3; }
T=$(/venv/bin/python -m pytest -q -p no:cacheprovider --timeout=900 --continue-on-collection-errors --junitxml=/tmp/junit_$$.xml 2>&1 | tail -1)
echo "tests: $T"
python3 /verif/tools/base46.py /tmp/junit_$$.xml; rm -f /tmp/junit_$$.xml
if [ -n "$DEMO" ] && [ -f "$DEMO" ]; then /venv/bin/python "$DEMO" "$W" >/tmp/demo_$$.out 2>&1; echo "demo exit=$? ($(tail -1 /tmp/demo_$$.out | cut -c1-150))"; rm -f /tmp/demo_$$.out; fi
cd /verif && POX_SRC="$W" ./check "$ID" --no-evidence "$@" 2>&1 | grep -v "^KNOWN-FINDING\|^note:" | tail -6
echo "check exit=${PIPESTATUS[0]}"
