#!/bin/bash
# tools/remake.sh <seed-name>: try to re-make a seeded patch that no longer applies against /repo HEAD using
# fuzzy matching (patch -F3) in a scratch worktree; on success overwrite seeded/<name>/patch.diff and mark it adapted.
N="$1"; D=/verif/seeded/$N; W=/tmp/remake_$$
git -C /repo worktree add --detach -f "$W" HEAD >/dev/null 2>&1 || exit 2
trap 'git -C /repo worktree remove --force "$W" >/dev/null 2>&1; rm -rf "$W"' EXIT
cd "$W" && if patch -p1 -F3 --no-backup-if-mismatch < "$D/patch.diff" >/tmp/remake_$$.log 2>&1 && ! grep -q "FAILED\|rejects" /tmp/remake_$$.log; then
  find . -name "*.orig" -o -name "*.rej" | xargs -r rm -f
  /venv/bin/python -m compileall -q pox >/dev/null || { echo "$N: does not compile after fuzzy apply"; exit 1; }
  git diff > "$D/patch.diff.new" && mv "$D/patch.diff.new" "$D/patch.diff"
  python3 - "$D/meta.json" <<'PY'
import json,sys
m=json.load(open(sys.argv[1])); m["adapted"]=True; json.dump(m,open(sys.argv[1],"w"),indent=1)
PY
  echo "$N: re-made"
else
  cat /tmp/remake_$$.log | tail -5; echo "$N: fuzzy apply FAILED"
fi
rm -f /tmp/remake_$$.log
