#!/usr/bin/env python3
"""Regenerates the generated tables of DESIGN.md (between the GENERATED markers): open findings, fixed
defects, seeded changes and which check catches them.  Sources: known_findings.json, seeded/*/meta.json."""
import json, os, re
HERE = os.path.dirname(os.path.dirname(os.path.abspath(__file__)))

def main ():
  k = json.load(open(os.path.join(HERE, "known_findings.json")))
  out = []
  out.append("### 9.3 Open findings (genuine defects recorded, not repaired)\n")
  out.append("| property | key | what fails | where | why not repaired |")
  out.append("|---|---|---|---|---|")
  for f in k["findings"]:
    out.append("| %s | `%s` | %s | %s | %s |" % (f["property"], f["key"], f["what"], f.get("where", ""), f.get("why_not_fixed", "")))
  out.append("")
  out.append("### 9.4 Repaired defects (`fix:` commits in /repo; each was first reported by the named property's check)\n")
  out.append("| property | commit | what failed |")
  out.append("|---|---|---|")
  for line in k["fixed"]:
    m = re.match(r"fixed: property=(\S+) (\S+) (.*)", line)
    if m: out.append("| %s | %s | %s |" % m.groups())
  out.append("")
  out.append("### 9.5 Seeded property-breaking changes and the checks that catch them\n")
  out.append("Every change below was produced by a fresh sub-agent that saw only the property text and a scratch worktree, keeps the "
             "46 baseline tests passing, and was confirmed by the lead with `tools/mut.sh` (scratch worktree of /repo HEAD + patch: "
             "baseline tests, the agent's demonstration, the property's quick check).  `adapted` = the agent's patch no longer applied "
             "after fix commits and was re-made against the current tree with the same mechanism.  The last column is the /repo commit the row was "
             "last confirmed against: rows confirmed at an older commit that say NO were, in most cases, caught after a later strengthening round "
             "(section 9.2b says which) but not re-run through the recording tool; the keys shown are the last three in sort order that `tools/mut.sh` "
             "prints, not necessarily the most specific ones.\n")
  out.append("| seed | what was changed / what it needs to manifest | baseline tests | demo fails | caught by quick check (violation keys) | confirmed at /repo |")
  out.append("|---|---|---|---|---|---|")
  sd = os.path.join(HERE, "seeded")
  for n in sorted(os.listdir(sd)):
    mp = os.path.join(sd, n, "meta.json")
    if not os.path.exists(mp): continue
    m = json.load(open(mp))
    c = m.get("confirmed", {})
    summ = (m.get("summary", "") + " — needs: " + m.get("needs_to_manifest", "")).replace("|", "/").replace("\n", " ")
    if len(summ) > 420: summ = summ[:417] + "..."
    keys = ", ".join("`%s`" % x for x in c.get("violation_keys", [])[:3])
    out.append("| %s%s | %s | %s | %s | %s | %s |" % (n, " (adapted)" if m.get("adapted") else (" (patch stale, re-made by hand)" if m.get("stale_patch") else ""), summ,
               "ok" if c.get("baseline_46_still_pass") else "?", {0: "no", None: "?"}.get(c.get("demo_exit_with_patch"), "yes"),
               ("**yes** " + keys) if c.get("detected") else ("**NO**" if c.get("baseline_tests", "?") != "?" else "not re-run (patch no longer applies; last result at an older head)"),
               c.get("against_repo_head", "")))
  out.append("")
  out.append("### 9.6 What the committed quick-tier evidence files measured\n")
  out.append("| property | level | evaluations | states | transitions | distinct outcomes | exhaustive within bound | known findings reproduced | wall s |")
  out.append("|---|---|---|---|---|---|---|---|---|")
  ed = os.path.join(HERE, "evidence")
  for n in sorted(os.listdir(ed)):
    e = json.load(open(os.path.join(ed, n))); c = e["coverage"]
    out.append("| %s | %s | %s | %s | %s | %s | %s | %d | %s |" % (e["property_id"], e["level"], c.get("evaluations"), c.get("states"),
               c.get("transitions"), c.get("distinct_nontrivial"), c.get("exhaustive"), len(c.get("known_findings_reproduced", [])), e["wall_s"]))
  text = "\n".join(out) + "\n"
  p = os.path.join(HERE, "DESIGN.md")
  s = open(p).read()
  b, e = "<!-- BEGIN GENERATED -->", "<!-- END GENERATED -->"
  if b in s:
    s = s[:s.index(b) + len(b)] + "\n" + text + s[s.index(e):]
  else:
    s += "\n" + b + "\n" + text + e + "\n"
  open(p, "w").write(s)
  print("DESIGN.md tables regenerated: %d findings, %d fixed, seeds listed" % (len(k["findings"]), len(k["fixed"])))

if __name__ == "__main__":
  main()
