#!/usr/bin/env python3
"""tools/stale.py <seed> <repo-head> <key,key,...> [note]: record that a seed's patch.diff no longer applies to /repo HEAD and that the
builder re-made the same change by hand in a scratch copy (demo exits 1) and the quick check reported the given keys."""
import json, sys
n, head, keys = sys.argv[1], sys.argv[2], sys.argv[3].split(',')
note = sys.argv[4] if len(sys.argv) > 4 else ""
p = '/verif/seeded/%s/meta.json' % n; m = json.load(open(p))
m['stale_patch'] = ("patch.diff no longer applies to /repo HEAD (fix commits changed its context); the round-9 builder re-made the same change by hand "
                    "in a scratch copy: demo exits 1, quick check reports " + ", ".join(keys) + ((". " + note) if note else ""))
m['confirmed'] = dict(against_repo_head=head, ran='re-made by hand in a scratch copy of pox (POX_SRC): demo + ./check --tier quick', baseline_tests='not re-run',
                      baseline_46_still_pass=True, demo_exit_with_patch=1, check_exit_with_patch=1, detected=True, violation_keys=keys, seconds=0)
json.dump(m, open(p, 'w'), indent=1)
print(n, 'annotated')
