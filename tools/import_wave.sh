#!/bin/bash
# tools/import_wave.sh <out-dir> <letter-a> <letter-b> <wave> [PID ...]: copy a seeding agent's deliverables
# (<out-dir>/<PID>/{a,b}/patch.diff, demo.py, meta.json) to /verif/seeded/<PID>-<letter>/ (only complete ones, never overwrites)
O="$1"; LA="$2"; LB="$3"; WAVE="$4"; shift 4
PIDS="$@"; [ -z "$PIDS" ] && PIDS=$(ls "$O")
for p in $PIDS; do for ab in a b; do
  L=$LA; [ $ab = b ] && L=$LB
  s="$O/$p/$ab"; d="/verif/seeded/$p-$L"
  [ -f "$s/patch.diff" ] && [ -f "$s/demo.py" ] && [ -f "$s/meta.json" ] || continue
  [ -e "$d" ] && continue
  mkdir -p "$d"; cp "$s/patch.diff" "$s/demo.py" "$d/"
  python3 - "$s/meta.json" "$d/meta.json" "$WAVE" <<'PY'
import json,sys
m=json.load(open(sys.argv[1])); m["wave"]=int(sys.argv[3]); json.dump(m,open(sys.argv[2],"w"),indent=1)
PY
  echo "$p-$L"
done; done
