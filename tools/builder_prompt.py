#!/usr/bin/env python3
"""tools/builder_prompt.py <PID> [seed-letter ...]: print the prompt for one builder (strengthening round): the seeds to look
at (default: the four newest letters) and the leads about the unchanged tree from tools/leads_wave9.json."""
import json, os, sys
pid = sys.argv[1]; letters = sys.argv[2:] or ["o", "p", "q", "r"]
HERE = os.path.dirname(os.path.dirname(os.path.abspath(__file__)))
leads = json.load(open(os.path.join(HERE, "tools", "leads_wave9.json"))).get(pid, [])
seeds = []
for l in letters:
  n = "%s-%s" % (pid, l); d = os.path.join(HERE, "seeded", n)
  try: m = json.load(open(os.path.join(d, "meta.json")))
  except Exception: continue
  c = m.get("confirmed") or {}
  st = "not yet run against the current check" if not c else ("DETECTED by the current quick check (keys %s)" % ", ".join(c.get("violation_keys", [])[:3]) if c.get("detected") else "MISSED by the quick check when last run (at /repo %s)" % c.get("against_repo_head"))
  seeds.append("  * /verif/seeded/%s/  - %s" % (n, st))
low = pid.lower()
print("""You are strengthening ONE model-checking harness of the verification framework in /verif for the project in /repo
(noxrepo/pox, pure Python).  Your property is %(pid)s; your file is /verif/mc/props/%(low)s.py (plus NEW files under
/verif/mc/refs/ and NEW helpers - additive only - in mc/env.py / mc/netsim.py / mc/thr.py if you need them).

Read first: the %(pid)s line of /verif/properties.jsonl (fixed text, never edit), /verif/tools/BUILDER.md (interface, technique
constraint, violation keys, what to do when the unchanged tree violates the property, how to run), the section
"### %(pid)s" of /verif/DESIGN.md and the %(pid)s rows of its section 9.2b (what earlier rounds added and why), and then your
harness.  NOTE: the harness may contain the unfinished work of an earlier builder who was interrupted in the middle of
exactly this task (look for recently added parts); finish, correct or simplify it as you see fit.

THE TASK.  Independent agents (who never saw /verif) made realistic property-breaking changes to pox that keep its test
suite passing.  Each is in a directory with patch.diff, demo.py (exits 1 with the change, 0 without) and meta.json (what was
changed, what it needs to manifest).  For your property look at:
%(seeds)s
Run each one that is not marked DETECTED:   cd /verif && tools/mut.sh seeded/<name>/patch.diff %(pid)s seeded/<name>/demo.py
(applies it to a scratch worktree of /repo HEAD, runs the pinned tests, the demo and `./check %(pid)s --tier quick`; "check
exit=1" + "violated: <key>" lines mean the check catches it; "PATCH-DOES-NOT-APPLY" means /repo moved on - then re-make the
same change by hand in a scratch copy (cp -r /repo/pox /tmp/%(low)s_scratch/pox; POX_SRC=/tmp/%(low)s_scratch ./check ...) and say so).
For every seed the quick check MISSES: work out what the harness lacks - which part of the property's quantifier (inputs,
histories, interleavings, faults, configurations, API forms, prior states) its alphabet does not reach, or which observable
its oracle does not compare - and extend the harness GENERALLY: add the whole family of cases of which the seed's trigger is
one member (e.g. not "128.0.0.0" but every address field x {0, 1, 2^31-1, 2^31, 2^32-1, each single bit}; not "this one
listener" but every listener kind x every fault kind at every event).  Never special-case a seed, never read seeded/ from the
harness, never look at what the patch edits to decide what to check: the point is that the next, unseen change of that kind
is caught too.  The oracle must only demand what the property statement says (see BUILDER.md); exhaustive enumeration only -
no sampling.  Then confirm with tools/mut.sh that the seed is now caught with a specific, stable key.

LEADS ABOUT THE UNCHANGED TREE.  The seeding agents also reported behaviour of the unchanged tree that may already violate
the property and that the check does not flag.  For each: decide whether it is inside the property's statement; if so, make
sure the alphabet contains the case (a check that cannot see it also cannot see a regression there), run it, and if the
check then reports a violation on the unchanged tree, classify it exactly as BUILDER.md says (genuine defect -> keep the
oracle, give it its own specific key, and report: key, minimal failing case, file:function, proposed minimal fix as a diff a
maintainer would accept - do NOT edit /repo or known_findings.json; the lead does that) or (oracle over-demands -> fix the
harness).  If it is outside the statement, say why in one line and move on.
%(leads)s

CONSTRAINTS.
 * The unchanged tree must stay silent except for genuine defects you report to the lead; `./check %(pid)s --tier quick
   --no-evidence` must exit 0 or list only violations you report (each with its own key).  Deterministic: same counts with
   VERIF_SEED=0,1,2.  No harness errors (exit 2).
 * Budget: the machine (16 cores) is shared with other builders right now, so wall times are inflated.  Use `--workers 4`
   while developing.  Measure cost as CPU time (`time ./check ...`: user+sys).  The quick tier must stay under about 900
   CPU-seconds (user+sys) and should not grow by more than ~30%% over what it costs now - put the expensive part of a new
   family into the thorough tier (cfg.quick / cfg.pick) and keep a representative boundary subset in quick.
 * All earlier seeds of your property must still be caught: when you are done, run the final confirmation of the new seeds
   AND of the eight most recent earlier ones with   python3 tools/confirm_seeds.py %(pid)s-o %(pid)s-p %(pid)s-q %(pid)s-r %(pid)s-g ... %(pid)s-n
   (it wraps tools/mut.sh and records each outcome in the seed's meta.json - the only way you may write under seeded/);
   fix regressions.  Run at most ONE check / mut.sh / confirm_seeds at a time (never several in parallel) and give long
   commands a generous timeout (30 min): the machine is shared.
 * Edit only your own harness file and new files as said above; do not commit (the lead commits); do not touch
   MANIFEST.json, DESIGN.md, known_findings.json, evidence/, seeded/, /repo.  Remove scratch copies under /tmp when done.
 * /repo has fix commits newer than some seeds; `git -C /repo log --oneline | head` shows them.

FINAL REPORT (<= 350 words): per seed: caught before / caught now, with which key, and what family you added (one line each,
written so it can go into DESIGN.md's table "missed seed | what the check lacked | what was added"); per lead: inside/outside the
statement, covered now?, verdict; violations on the unchanged tree with classification + proposed fix diff; quick-tier CPU
seconds before and after; anything you could not do.""" % dict(pid=pid, low=low, seeds="\n".join(seeds) or "  (none)",
  leads="\n".join("  - " + l for l in leads) or "  (none reported)"))
