#!/usr/bin/env python3
"""tools/confirm_seeds.py [name ...]: for every /verif/seeded/<PID>-<x>/ run tools/mut.sh (scratch worktree of /repo HEAD +
patch: baseline tests, demo, quick check) and record the outcome in its meta.json under "confirmed"."""
import json, os, re, subprocess, sys, time
HERE = os.path.dirname(os.path.dirname(os.path.abspath(__file__)))
names = sys.argv[1:] or sorted(os.listdir(os.path.join(HERE, "seeded")))
for n in names:
  d = os.path.join(HERE, "seeded", n)
  if not os.path.isfile(os.path.join(d, "patch.diff")): continue
  pid = n.split("-")[0]
  demo = os.path.join(d, "demo.py")
  t0 = time.time()
  r = subprocess.run([os.path.join(HERE, "tools", "mut.sh"), os.path.join(d, "patch.diff"), pid, demo if os.path.exists(demo) else ""],
                     capture_output=True, text=True, timeout=3600)
  out = r.stdout + r.stderr
  tests = re.search(r"tests: (.*)", out); demo_m = re.search(r"demo exit=(\d+)", out); chk = re.search(r"check exit=(\d+)", out)
  keys = re.findall(r"violated: (\S+)", out)
  try: meta = json.load(open(os.path.join(d, "meta.json")))
  except Exception: meta = {}
  meta.setdefault("property", pid)
  passed = re.search(r"(\d+) passed", tests.group(1)) if tests else None
  b46 = re.search(r"base46: (\d+)/(\d+) pass", out)
  meta["confirmed"] = dict(
    against_repo_head = subprocess.run(["git", "-C", "/repo", "rev-parse", "--short", "HEAD"], capture_output=True, text=True).stdout.strip(),
    ran = "tools/mut.sh seeded/%s/patch.diff %s seeded/%s/demo.py  (scratch worktree of /repo HEAD + patch: baseline pytest, demo, ./check %s --tier quick)" % (n, pid, n, pid),
    baseline_tests = tests.group(1) if tests else "?",
    baseline_46_still_pass = bool(b46 and b46.group(1) == b46.group(2)),
    demo_exit_with_patch = int(demo_m.group(1)) if demo_m else None,
    check_exit_with_patch = int(chk.group(1)) if chk else None,
    detected = bool(chk and chk.group(1) == "1"),
    violation_keys = sorted(set(keys))[:8],
    seconds = round(time.time() - t0),
  )
  json.dump(meta, open(os.path.join(d, "meta.json"), "w"), indent=1)
  print(n, "detected" if meta["confirmed"]["detected"] else "MISSED", meta["confirmed"]["baseline_tests"], "demo", meta["confirmed"]["demo_exit_with_patch"], flush=True)
