#!/usr/bin/env python3
"""Generates /verif/MANIFEST.json from the table below (kept in one place so the manifest
stays valid while checks are added)."""
import json, os, sys

HERE = os.path.dirname(os.path.dirname(os.path.abspath(__file__)))

MC = "model_checking"
EX = "exploration"
FE = "fault_enumeration"

# id -> (category, technique, level text, level note, design ref)
CHECKS = {
 "C05": (MC, "stateless exhaustive exploration of operation histories x handler behaviours on the real EventMixin (E-seq, deviation-bounded), reference-model oracle",
         "Every history of <=3 (quick) / <=4 (thorough) subscribe/unsubscribe/raise/drop operations with <=2 non-default handler behaviours (incl. re-entrant subscribe/unsubscribe/raise) is executed on the real revent code and compared online with a reference model of subscriptions; a coverage statement over that bound, not a sample.",
         "Trusts the reference model in mc/props/c05.py; handler identities treated as interchangeable; single-threaded.", "DESIGN.md 4 C05"),
 "C13": (MC, "exhaustive enumeration of request histories sent as bytes through the real switch stack, replies decoded by an independent wire decoder and compared with a reference model",
         "All sequences of <=3 (quick) / <=4 (thorough) requests over 36 controller-to-switch messages (every message and stats type, valid and invalid arguments), each history run message-by-message and as one read, plus a covering history with every ordered pair; every reply is checked for count, xid, order, type/code and state-dependent data.",
         "Trusts mc/refs/ofwire.py (spec transcription) and the 20-line state model; error codes asserted only where the specification names one; error data compared on header+length only.", "DESIGN.md 4 C13"),
 "C18": (MC, "explicit-state breadth-first search with state matching over operation histories on the real switch (replay-based), reference dict of outstanding buffers",
         "Every reachable state within <=6 (quick) / <=8 (thorough) operations {miss, send-to-controller flows with 3 max_len values, packet_out/flow_mod with live, stale and bogus buffer ids, set_config} for pool sizes 0..3 / 0..4 is expanded once; uniqueness, content, release-once, capacity and packet-in length rules are checked on every transition.",
         "State key = whole buffer pool + config + model, so merging is sound; frames use an opaque ethertype; trusts mc/refs/ofwire.py.", "DESIGN.md 4 C18"),
 "C04": (MC, "explicit-state breadth-first search with state matching over FLOW_MOD / traffic / clock / sweep histories on the real switch, table read back over the wire after every step and compared with a reference state machine",
         "Every table state reachable within <=3 (quick) / <=4 (thorough) operations from the empty table, and one operation less from two populated tables, over 60+ operations (all five commands, CHECK_OVERLAP, SEND_FLOW_REM with idle/hard timeouts, EMERG, out_port filters, two frames, virtual clock, sweep) is expanded once; installed entries, counters, durations, emitted flow-removed/error/packet-in messages and table order are compared with mc/refs/reftable.py on every transition.",
         "Trusts the reference state machine (written from OpenFlow 1.0 sections 3.4/4.6) and the wire decoder; clock steps avoid exact timeout boundaries; equal-priority overlapping lookups may return either entry.", "DESIGN.md 4 C04"),
 "C07": (MC, "stateless exploration of thread interleavings of the real recoco scheduler under a controlled scheduler (baton-passing real threads, line/bytecode scheduling points, deviation/preemption bounding); cooperative Lock by exhaustive program x waiter-choice enumeration",
         "Every schedule within 2 deviations (3 thorough) from the default schedule at line granularity in the hand-off functions, and within 1 (2 thorough) deviation with every line of recoco.py as a scheduling point, for four closed scenarios (callLater from 2 threads, a task woken from 2 threads and a sibling, synchronized() incl. nesting, idle/wake-up handshake) under both select-hub modes; lost wake-ups are detected because polling timeouts are never fired while work is pending. Lock: all 2-4 task programs over acquire/try/release/yield scripts with every waiter-pop choice.",
         "Modelled primitives (Lock, Event, Queue, select, pinger) in mc/thr.py; GIL atomicity of container operations; no partial-order reduction.", "DESIGN.md 4 C07"),
 "C16": (EX, "exhaustive enumeration of boundary lattices of addresses, prefixes, textual forms and comparison tuples against the standard library's ipaddress module and integer arithmetic",
         "Every IPv4 address with octets in a boundary set x all 33 prefix lengths x all network-membership / CIDR / netmask call forms; every IPv6 zero-run pattern x group values x 129 masks; a grammar-generated set of well-formed and malformed IPv6/IPv4/Ethernet/dpid texts; all ordered pairs and triples of a 40-element set per type for the comparison laws; 65,536 dpids. Exhaustive over that stated finite set (about 7 million evaluations quick, 97 million thorough).",
         "Oracle = Python's ipaddress module + mc/refs/addr_ref.py; forms inet_aton accepts by tradition and '::' compressing a single group are not judged; cross-type equality excluded.", "DESIGN.md 4 C16"),
 "C14": (EX, "exhaustive enumeration of a boundary lattice of header stacks x field values x payload lengths through pack -> parse -> pack of the real packet library, lengths and checksums verified from raw offsets by an independent RFC 1071 implementation",
         "Every header stack the library can parse back (Ethernet/VLAN/LLC-SNAP/ARP/IPv4+options/IPv6+extension headers/ICMP/ICMPv6/TCP+options/UDP/DHCP/DNS/LLDP/MPLS/GRE/VXLAN/IGMP/RIP/EAPOL) x one-deviation boundary field vectors x payload lengths (every length 0..1500 for UDP/TCP/ICMP echo in thorough), plus checksum() itself on every buffer length/pattern of a stated set; first failing clause per case is reported.",
         "Trusts mc/refs/rfc1071.py and the builder table mc/refs/pktcorpus.py; ICMPv6/IGMP/GRE checksums checked by round trip only.", "DESIGN.md 4 C14"),
 "C12": (MC, "exhaustive enumeration of frames x action lists x port-config combinations through the real switch over the wire, emissions compared byte-for-byte with an independent byte-level rewriter",
         "All action lists of length <=3 (quick) / <=4 (thorough) over 17 actions incl. virtual ports, as flow entry and as packet-out, on a corpus of tagged/untagged TCP/UDP/ICMP/ARP/other frames (incl. padded, fragments, options); all port-config bit combinations (boundary pairs quick, full 64x64 thorough) set via real port-mod messages; port counters read back with port-stats requests and compared with what was actually emitted.",
         "Trusts mc/refs/refpkt.py (own offset arithmetic and RFC 1071) and mc/refs/ofwire.py; counters not asserted for OFPP_TABLE resubmission.", "DESIGN.md 4 C12"),
 "C09": (MC, "exhaustive enumeration of handshake interleavings and loss points plus explicit-state BFS with state matching over open/deliver/close/send-error histories of 3 connections on 2 datapath ids, on real Connection/Nexus objects fed spec-encoded bytes by a scripted switch",
         "(a) the handshake script with up to 2 (quick) / 3 (thorough) asynchronous messages inserted at every position, (b) connection loss after every prefix, (c) every registry/life-cycle state reachable within depth 9 / 12 of {open, deliver-next, close, send-error} on three connections; ConnectionUp/Down counts and order, deferred port-status order, registry contents and sendToDPID target are compared with a reference life-cycle after every step.",
         "Reference life-cycle in mc/refs/c09_lifecycle.py; port-status before the features reply and ConnectionDown for never-announced connections are not constrained (DESIGN.md).", "DESIGN.md 4 C09"),
 "C01": (EX, "exhaustive enumeration of a boundary lattice of every OpenFlow 1.0 / Nicira codec object (field values within k deviations of a fingerprint base vector, action and entry lists, every payload length) against an independent transcription of the specification's layouts",
         "For 95 codec kinds (22 messages, actions, stats request/reply bodies, phy_port, queues, match, nx_* messages/actions, NXM entries with and without mask): header length == bytes == len(obj); bytes == reference encoding field by field; unpack_new and the dispatch table consume exactly the length (also before trailing garbage) and return an equal object; re-encoding reproduces the bytes. Exhaustive over the stated finite lattice.",
         "Trusts mc/refs/ofspec.py (written from the OpenFlow 1.0 specification and nicira-ext.h, sizes checked against OFP_ASSERT values); matches restricted to prerequisite-consistent ones; output.max_len normalisation and all-ones NXM masks treated as documented.", "DESIGN.md 4 C01"),
 "C17": (MC, "explicit-state BFS to closure over port-status histories on a real Connection (every reachable (_ports,_masks) state expanded once) plus exhaustive enumeration of multipart compositions and interleavings, all fed as spec-encoded bytes through Connection.read()",
         "Port view: the reachable state set over 4 port numbers x 3-4 descriptions closes, so the result holds for histories of any length; in every state len/keys/iteration/values/items/in/[]/get by every number, name and hardware address of the universe and original_ports are compared with a plain dict. Multipart: FLOW/TABLE/PORT/QUEUE bodies of <=3 (quick) / <=4 entries in every composition of <=6 parts, coalesced reads, interleaved with other messages at every position and with a second request's reply before, after and in the middle; the aggregated event must fire once, after the final part, with exactly the reply's entries in order.",
         "Reference = dict / list models in mc/props/c17.py; stats encoders in mc/refs/ofwire_stats.py; replies sharing xid and type are not distinguishable and not judged.", "DESIGN.md 4 C17"),
 "C11": (MC, "explicit-state BFS with state matching over host-stimulus histories on a closed system of real switches, real controller connections and the real l2_learning component talking real OpenFlow bytes (netsim)",
         "All sequences of <=5 (quick) / <=7 (thorough) stimuli {frames between 3 hosts + a hub-segment host, unknown unicast, broadcast, multicast, STP and LLDP destinations, host move, idle/hard timeout gaps with sweep} on 1-switch and 2-switch (thorough: 3-switch) topologies with buffering on and off; every frame arrival at every switch is judged against an ideal learning bridge (flood set, known-destination port, most-recent port when the controller handled the frame, no ingress echo, no duplicates, filtered frames dropped, no buffer left occupied).",
         "Synchronous controller (single-threaded FIFO pump); arrivals absorbed by a still-installed flow do not count as 'most recently seen' (the property's escape clause).", "DESIGN.md 4 C11"),
 "C03": (MC, "exhaustive enumeration of wildcard-bit combinations x prefix lengths x equal/differing field values x a frame corpus, and of all small flow tables x insertion orders x frames, through the real switch over the wire, against an independent field extractor and match relation",
         "Matches travel as flow-mod bytes (including raw matches whose wildcarded fields carry garbage) into a real SoftwareSwitch; all 2^10 wildcard-bit combinations x nw prefix lengths x <=1 (quick) / <=2 differing fields x 19 frames (VLAN, ARP, ICMP, fragments, options, LLC/SNAP, IPv6, other); lookup: all tables of <=3 (quick) / <=4 entries from an alphabet of overlapping matches incl. wire-exact non-TCP ones x priorities x insertion orders x frames. The observable is the output port / packet-in.",
         "Trusts mc/refs/refmatch.py (field extraction per OpenFlow 1.0 Table 3, prerequisite rule, prefix compare); among equal-priority matching entries either may win.", "DESIGN.md 4 C03"),
 "C02": (MC, "exhaustive enumeration of message streams x segmentations (every 1-cut, every 2-cut over header/boundary positions, fixed read sizes incl. 1-byte dribble and the 2048-byte boundary) through the real controller and switch receive paths",
         "Streams of <=2 (quick) / <=3 (thorough) messages from 8 (controller side) / 7 (switch side) well-formed messages of 8 to 2500 bytes, each stream fed through Connection.read() (real recv(2048) splitting) and through the switch's IOWorker._do_recv -> OFConnection.read in every listed segmentation; after every read the delivered messages must be exactly those completely contained in the bytes fed so far, in order, once, each re-packing to its slice; residual buffer empty at the end.",
         "Stream encoders mc/refs/ofwire.py, ofwire_s2c.py (spec transcriptions); receivers are reused only when verifiably back in their initial state.", "DESIGN.md 4 C02"),
 "C19": (MC, "exhaustive enumeration of multigraphs through the real spanning-tree code with a flood-simulation oracle; exhaustive enumeration of link/switch event histories on a closed system of real switches, real LLDP discovery and the real FLOOD action (netsim); exhaustive probe codec lattice",
         "G: every multigraph on 2-4 switches (thorough 5) over a 7-element per-pair alphabet (none, one-way either way, bidirectional, parallel, mixed), dpids in and against sorted order. H: every sequence of <=3 (quick) / <=4 events on a triangle and <=2 / <=3 on a square with a diagonal, events = a link going down / up / one-way in either direction, switch disconnect / connect; after each event and settling under the virtual clock: adjacency == physical directed links, LinkEvents alternate, a frame really flooded from every switch reaches every switch of its component exactly once and is delivered on host-facing ports. P: probe encode/decode for 4^6 (thorough 4^8) dpids x 8 port numbers.",
         "Settling = three send cycles 4 s apart + expiry + one more cycle; a disconnected switch is treated as gone; reconnecting switches come back with default port configuration; no self-loops.", "DESIGN.md 4 C19"),
 "C10": (MC, "exhaustive single-field (and version+length double) corruption and truncation of a valid instance of every message type, injected into the real controller I/O loop (OpenFlow_01_Task.run) and the real switch I/O loop (RecocoIOLoop.run), both driven by hand as generators with a hostile connection between two benign ones, under an execution budget",
         "For 36 valid message instances (all 22 types, stats variants, carriers with embedded messages): every header length 0..len+8, every type byte, version values, every embedded action/queue/stats length over a boundary set, every truncation point followed by EOF or by valid traffic, a bad version combined with an overstated length; placed first / before / between / after valid traffic, glued into one read or not. Oracle: the step terminates within the budget, the loop generator stays alive and keeps selecting on the siblings, siblings receive exactly their messages, on the hostile connection every delivered message is a unit of the reference framing (never built from two messages or from bytes inside another message), malformed units are answered with an error or the connection is closed, nothing is delivered after close.",
         "Reference framing and structural validator mc/refs/ofwire_c10.py; non-termination decided by a sys.monitoring line budget; fake socket / listener objects.", "DESIGN.md 4 C10"),
 "C15": (EX, "exhaustive truncation and byte-corruption of a corpus of valid frames covering every parser path, each mutant parsed directly and through a PacketIn event, walked, packed, printed and dumped under a non-termination budget",
         "For 73 corpus frames (mc/refs/pktcorpus.py): every truncation length; every byte position x {0x00, 0xff, b^1, b^0x80, b+1} (quick) / all 255 alternatives for the first 64 bytes (thorough); truncation x corruption of every position below the cut (thorough); checksum-repaired variants for ICMPv6. Oracle: ethernet(raw=...) and PacketIn.parsed return; walking .next terminates in bytes/None; a layer that failed has parsed == False and kept its raw input; pack(), str(), dump() return. Violations are keyed by phase and raising site, so a new site is a new violation.",
         "Backward-jump budget via sys.monitoring decides non-termination; corpus built without importing pox.", "DESIGN.md 4 C15"),
 "C08": (MC, "breadth-first exploration over canonical states of a real POXCore (choice-sequence explorer with deviation-bounded callback behaviours, reference rendezvous model), exhaustive name-collision lattice, and controlled-thread exploration of two concurrent quit() calls",
         "Every history of <=5 (quick) / <=6 (thorough) operations {register incl. re-registration, call_when_ready with every dependency subset and argument form, listen_to_dependencies with six sink shapes, goUp with deferral-taking handlers released inside / later in every order, release, quit} with <=2 non-default callback behaviours (raise, chained register, chained waiter) per history, one representative per distinct state; plus component names colliding with core attributes x declaration form x order; plus every schedule within 2 (3) deviations of two threads calling quit() concurrently at line granularity in core.py.",
         "Reference model mc/refs/c08_model.py; scheduler thread neutralised, virtual sleep; the core's real locks are replaced by controlled ones in the thread scenario.", "DESIGN.md 4 C08"),
 "C06": (MC, "exhaustive enumeration of small task programs over the yield vocabulary x environment choices on the real Scheduler.run() with an inline select hub under a virtual clock (E-seq), controlled-thread exploration of representative programs with the threaded hub (E-thr), and EpollSelect vs select.select on real sockets",
         "Part 1: every ordered pair (thorough: triple) of task scripts over {reschedule, sleep, block+wake by sibling, Select with/without timeout, sub-task call in four shapes, Exit, raise, timers one-shot/recurring/cancelled/self-stopping} with fd readiness instants, the scheduler's priority coin and per-step virtual time as explored choices; invariants on the recorded (task, step, time) trace incl. a differential twin without the raising task. Part 2: ten programs under the threaded hub, every schedule within 2 deviations.",
         "Virtual select ends the run at an explicit horizon; modelled primitives of mc/thr.py; GIL atomicity.", "DESIGN.md 4 C06"),
 "C20": (MC, "E-seq exploration of per-call socket outcomes on the switch-side worker inside a hand-driven RecocoIOLoop, and controlled-thread exploration (E-thr) of the controller's real Connection.send against the real DeferredSender.run loop with socket outcomes as explored choices",
         "Part 1: three messages queued with send / send_fast in every interleaving with loop iterations, every script of socket outcomes {accept all, 1, n-1, EAGAIN, EPIPE} within 2 (3) deviations, with and without a final close. Part 2: cooperative thread sending m1..m3 on one or two connections while the deferred sender thread flushes, optional EOF/close by the I/O loop; every thread schedule and socket script within separately bounded deviations at line granularity in of_01.py. Oracle: bytes accepted == prefix of the concatenation in order, complete at quiescence unless a fatal error occurred; no send after a fatal error; close / ConnectionDown exactly once; no thread dies.",
         "Modelled primitives of mc/thr.py; fake sockets always writable; bytecode granularity not used (CPython 3.12.1 crashes under per-instruction tracing across threads).", "DESIGN.md 4 C20"),
}

PENDING_REASON = "check under construction in this round (design in DESIGN.md section 4); not claimed until its harness is committed and silent on the unchanged tree"
NOT_APPLICABLE = {}

def main ():
  props = [json.loads(l)["id"] for l in open(os.path.join(HERE, "properties.jsonl"))]
  checks = []
  for pid in props:
    if pid not in CHECKS: continue
    cat, tech, text, note, ref = CHECKS[pid]
    checks.append(dict(
      property_id = pid,
      quick_cmd = "./check %s --tier quick" % pid,
      thorough_cmd = "./check %s --tier thorough" % pid,
      evidence_file = "/verif/evidence/%s.json" % pid,
      replay_cmd_template = "./check %s --replay {path}" % pid,
      engine = "mc",
      level_claimed = dict(category=cat, text=text, design_ref=ref),
      level_note = note + "  The alphabet and oracle extensions added in the strengthening rounds (waves 1-9 of seeded changes) are tabulated per property in DESIGN.md 9.2b; the counts each tier actually covered are in the evidence file.",
      technique = tech,
    ))
  na = [dict(property_id=p, reason=NOT_APPLICABLE.get(p, PENDING_REASON)) for p in props if p not in CHECKS]
  man = dict(
    version = 1,
    setup_cmd = "/venv/bin/python -m compileall -q /verif/mc >/dev/null 2>&1; test -x /verif/check",
    hooks = dict(
      guard = "NOXREPO_POX_VERIF",
      enable = "no source hooks are needed: checks import pox from /repo's working tree and rebind module globals (time, select, socket, threading) from outside; the guard name is reserved and exported by ./check",
      baseline_off_cmd = "cd /repo && /venv/bin/python -m pytest -ra -q -p no:cacheprovider --timeout=900 --continue-on-collection-errors",
      source_commits = [],
      add_only = True,
    ),
    engines = [
      dict(name="mc", path="/verif/mc", serves_properties=sorted(CHECKS),
           kind_free_text="hand-written explicit-state / stateless explorers for Python driving the real POX code: "
                          "E-seq choice-sequence explorer with deviation bounding and replay (mc/engine.py), "
                          "controlled-thread explorer with preemption bounding (mc/thr.py), exhaustive input-lattice "
                          "enumeration against independent reference models (mc/refs)"),
    ],
    checks = checks,
    notes = "All checks run the implementation in /repo's working tree (POX_SRC overrides) under /venv/bin/python; "
            "exit 0 held / only listed known findings, 1 VIOLATION, 2 harness error. known_findings.json lists open and fixed defects.",
    not_applicable = na,
  )
  with open(os.path.join(HERE, "MANIFEST.json"), "w") as f:
    json.dump(man, f, indent=1)
    f.write("\n")
  print("claimed:", len(checks), "unclaimed:", len(na))

if __name__ == "__main__":
  main()
