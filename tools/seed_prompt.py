#!/usr/bin/env python3
"""tools/seed_prompt.py <PID> <wave>: print the prompt for one seeding agent.  The agent gets the property record, a
scratch worktree and a list of one-line descriptions of changes earlier agents already made (so that it does something
else) - nothing about the checks in /verif."""
import json, os, sys
pid, wave = sys.argv[1], sys.argv[2]
HERE = os.path.dirname(os.path.dirname(os.path.abspath(__file__)))
prop = next(json.loads(l) for l in open(os.path.join(HERE, "properties.jsonl")) if json.loads(l)["id"] == pid)
prev = []
for n in sorted(os.listdir(os.path.join(HERE, "seeded"))):
  if not n.startswith(pid + "-"): continue
  try: m = json.load(open(os.path.join(HERE, "seeded", n, "meta.json")))
  except Exception: continue
  s = (m.get("summary") or "").replace("\n", " ")
  prev.append("- " + s[:260])
W = "/tmp/wt%s/%s" % (wave, pid); O = "/tmp/seed_out%s/%s" % (wave, pid)
print("""You are helping to evaluate a verification effort for noxrepo/pox (a pure-Python OpenFlow 1.0 controller and software
switch).  You have your own scratch git worktree of the project at %(W)s (Python: /venv/bin/python, 3.12; nothing can be
installed, there is no network).  Work ONLY inside %(W)s and your output directory %(O)s.  Do not read, list or
modify /repo or /verif - they are off limits for this task, and nothing there would help you.

The project is supposed to have this semantic property (JSON record, anchors name the code it lives in):

%(prop)s

YOUR TASK: produce TWO independent changes to the project's source (call them a and b), each of which BREAKS this property
while
 * still importing/compiling, and
 * keeping the project's pinned test suite passing:  cd %(W)s && /venv/bin/python -m pytest -q -p no:cacheprovider
   --timeout=900 --continue-on-collection-errors   (on the unchanged tree this prints "15 failed, 48 passed, 1 xfailed, 2 errors":
   those failures are old rot; what matters is that every test named in /root/.vp/BASELINE.json "stable_pass" (46 names)
   still passes with your change - check by name, e.g. with --junitxml or -rp),
 * and looking like something a maintainer could plausibly commit (a refactoring, optimisation, clean-up, small feature,
   'modernisation', bug fix for something else) - not sabotage, no dead giveaway comments.

The changes must need something SPECIFIC to manifest - a particular interleaving of threads/tasks/messages, a fault or
crash at a particular point, a multi-step sequence of operations starting from a non-initial state, an unusual-but-legal
input or boundary value, a rarely used API form or configuration - NOT something ordinary use or a smoke test would
expose at once.  Change a: a single-site defect of that kind.  Change b: preferably two cooperating edits (possibly in
different modules, possibly one of them outside the anchored files) that are each harmless alone, or an edit that is
harmless by itself and only breaks the property through its interaction with an existing, untouched piece of code.
Aim for variety: the two changes should hit different mechanisms / different parts of the anchored code.

Earlier rounds already produced the changes summarised below.  Do NOT repeat them or close variants of them (same site
and same mechanism); look for parts of the property's surface they have not touched:

%(prev)s

DELIVERABLES, for x in {a, b}, in %(O)s/x/ :
 * patch.diff  - `git diff` of the change against the worktree's HEAD; must apply with `git apply` to a clean checkout.
 * demo.py     - a small self-contained program: `/venv/bin/python demo.py <path-to-pox-tree>` puts that path first on
                 sys.path, exercises the real code, prints what it saw, and exits 0 on the UNCHANGED tree and 1 with your
                 change applied.  Deterministic (force the interleaving / fault by construction: fake sockets, hooks, stepping
                 generators by hand - no sleeping and hoping), no real network, < 60 s.  The demo should judge by the
                 property's observable behaviour, not by looking at your edit.
 * meta.json   - {"property": "%(pid)s", "summary": "...what was changed, why it looks innocent, what goes wrong...",
                 "needs_to_manifest": "...the specific schedule / fault / history / input needed...",
                 "files": [...], "sites": [...], "ran": ["each command you ran to confirm, with its result"]}
Confirm everything yourself before writing meta.json: with change applied -> 46 pinned tests pass, demo exits 1; on the clean
tree -> demo exits 0 (run it 2-3 times).  Then leave the worktree clean (git -C %(W)s checkout -- . ; no untracked files).

If, while reading the code, you notice behaviour of the UNCHANGED tree that already violates the property, mention it in
your final answer (input/history + what happens) - do not spend long on it.

Final answer (<= 250 words): for a and b, one paragraph each (what, where, what it needs), the confirmation results, and any
side remarks about the unchanged tree.""" % dict(W=W, O=O, pid=pid, prop=json.dumps(prop, indent=1), prev="\n".join(prev)))
