"""Virtual environment for running real POX components single-threaded and deterministically.

Nothing in /repo is modified: module globals (time, socket, Timer ...) are rebound from outside.
"""
import logging, struct, sys, types


class VClock (object):
  """Stands in for the `time` module inside POX modules."""
  def __init__ (self, now=1000.0):
    self.now = float(now)
    self.slept = 0.0
  def time (self): return self.now
  def sleep (self, s):
    self.now += s; self.slept += s
  def advance (self, s): self.now += s
  # a few passthroughs some modules use
  def strftime (self, *a, **k):
    import time as _t; return _t.strftime(*a, **k)
  def __getattr__ (self, name):
    import time as _t
    return getattr(_t, name)


_booted = False

def boot (clock=None):
  """Import POX with a core object but no OS threads, silence logging.  Idempotent."""
  global _booted
  import pox.lib.recoco.recoco as recoco
  if not _booted:
    assert 'unittest' not in sys.modules, "unittest imported before pox.core: core would start a thread"
    recoco.Scheduler._orig_runThreaded = recoco.Scheduler.runThreaded
    recoco.Scheduler.runThreaded = lambda self, daemon=False: None
    import pox.core
    if pox.core.core is None:
      import io
      old = sys.stdout; sys.stdout = io.StringIO()      # the version banner
      try:
        pox.core.initialize(threaded_selecthub=False, handle_signals=False)
      finally:
        sys.stdout = old
    root = logging.getLogger()
    root.addHandler(logging.NullHandler())
    logging.disable(logging.CRITICAL)
    _booted = True
  import pox.core
  return pox.core.core


def set_clock (clock, *modnames):
  """Rebind `time` in the named POX modules to the virtual clock."""
  import importlib
  for m in modnames:
    mod = importlib.import_module(m)
    mod.time = clock


class FakePinger (object):
  def __init__ (self): self.pings = 0
  def ping (self): self.pings += 1
  def pongAll (self): self.pings = 0
  def pong (self): self.pings = max(0, self.pings - 1)
  def fileno (self): return -1


class FakeSock (object):
  """Minimal socket for the switch-side IOWorker: records what is written."""
  def __init__ (self, name=("controller", 6633)):
    self.name = name
    self.sent = b""
    self.closed = False
    self.shut = []
  def getpeername (self): return self.name
  def fileno (self): return 99
  def send (self, data, flags=0):
    self.sent += bytes(data); return len(data)
  def recv (self, n, flags=0): return b""
  def shutdown (self, how): self.shut.append(how)
  def close (self): self.closed = True
  def setblocking (self, b): pass


def split_messages (buf):
  """Reference framing: split a byte string into OpenFlow messages by the header length
  field (independent of libopenflow).  Returns (list of bytes, residual)."""
  out = []
  off = 0
  while len(buf) - off >= 8:
    ver, typ, ln, xid = struct.unpack_from("!BBHL", buf, off)
    if ln < 8 or off + ln > len(buf): break
    out.append(buf[off:off+ln]); off += ln
  return out, buf[off:]


class SwitchStack (object):
  """A real SoftwareSwitch behind a real OFConnection + RecocoIOWorker; bytes in, bytes out.
  Controller->switch bytes go in through the worker's receive path (what RecocoIOLoop calls
  after recv); switch->controller bytes are taken from the worker's send buffer."""
  def __init__ (self, dpid=1, ports=4, clock=None, **kw):
    boot()
    import pox.datapaths.switch as sw
    import pox.openflow.flow_table as ft
    from pox.lib.ioworker import RecocoIOWorker
    self.swmod = sw
    self.clock = clock
    if clock is not None:
      sw.time = clock; ft.time = clock
    self.sock = FakeSock()
    self.worker = RecocoIOWorker(self.sock)
    self.worker.pinger = FakePinger()
    self.closed = []
    self.worker.on_close = lambda w: self.closed.append(w)
    self.conn = sw.OFConnection(self.worker)
    self.sw = sw.SoftwareSwitch(dpid, ports=ports, **kw)
    self.sw.set_connection(self.conn)
    self.out = []                # (port_no, frame bytes) in emission order
    self.sw.addListener(sw.DpPacketOut, self._on_out)
    self.drain()

  def _on_out (self, e):
    # serialise at event time: the switch mutates the packet object afterwards
    self.out.append((e.port.port_no, e.packet.pack()))

  def feed (self, data):
    """Deliver controller bytes to the switch (may raise whatever escapes the switch)."""
    self.worker._push_receive_data(bytes(data))

  def drain (self):
    d = self.worker.send_buf
    self.worker.send_buf = b""
    return d

  def take_out (self):
    o = self.out; self.out = []
    return o

  def rx (self, frame, in_port):
    """Inject a dataplane frame (bytes) on a port."""
    from pox.lib.packet.ethernet import ethernet
    p = ethernet(raw=frame)
    self.sw.rx_packet(p, in_port, packet_data=frame)

  def sweep (self):
    self.sw.table.remove_expired_entries()


# ---------------------------------------------------------------------------
# controller side
# ---------------------------------------------------------------------------
class ScriptSock (object):
  """Fake socket under a real of_01.Connection.  `rx` is the list of byte chunks the next recv()
  calls hand out (a chunk longer than the recv size is handed out in pieces, like TCP would);
  `tx` records what the controller wrote.  `send_script` optionally lists per-call outcomes:
  int k = accept k bytes, "all", "eagain", "epipe"."""
  def __init__ (self, name=("switch", 1)):
    self.name = name
    self.rx = []
    self.tx = b""
    self.sends = []          # (len offered, outcome) per send call
    self.send_script = []
    self.closed = False
    self.shut = False
    self.eof = False
  def getpeername (self): return self.name
  def fileno (self): return 77
  def setblocking (self, b): pass
  def recv (self, n, flags=0):
    if not self.rx:
      if self.eof: return b""
      import socket, errno
      raise socket.error(errno.EAGAIN, "would block")
    c = self.rx.pop(0)
    if len(c) > n:
      self.rx.insert(0, c[n:]); c = c[:n]
    return c
  def send (self, data, flags=0):
    import socket, errno
    if self.closed or self.shut:
      self.sends.append((len(data), "after-close"))
      raise socket.error(errno.EBADF, "send on closed socket")
    o = self.send_script.pop(0) if self.send_script else "all"
    self.sends.append((len(data), o))
    if o == "all": k = len(data)
    elif o == "eagain": raise socket.error(errno.EAGAIN, "would block")
    elif o == "epipe": raise socket.error(errno.EPIPE, "broken pipe")
    else: k = min(int(o), len(data))
    self.tx += bytes(data[:k])
    return k
  def shutdown (self, how): self.shut = True
  def close (self): self.closed = True


class StubDeferredSender (object):
  """Inert stand-in for of_01.deferredSender (the real one is a thread; C20 drives the real one)."""
  def __init__ (self):
    self.sending = False
    self.queued = []
  def send (self, con, data): self.queued.append((con, data))
  def kill (self, con): pass


class ControllerStack (object):
  """Fresh real OpenFlowNexus + arbiter on the (singleton) core, real of_01.Connection objects on
  ScriptSocks.  Events raised on the nexus are recorded in self.events as (name, con index, detail)."""
  NEXUS_EVENTS = ("ConnectionUp", "ConnectionDown", "PortStatus", "PacketIn", "ErrorIn", "BarrierIn",
                  "FlowStatsReceived", "TableStatsReceived", "PortStatsReceived", "QueueStatsReceived",
                  "AggregateFlowStatsReceived", "SwitchDescReceived", "FlowRemoved", "FeaturesReceived",
                  "ConnectionHandshakeComplete", "RawStatsReply", "ConfigurationReceived")
  def __init__ (self, clock=None):
    core = boot()
    import pox.openflow as ofm
    import pox.openflow.of_01 as of01
    self.core, self.ofm, self.of01 = core, ofm, of01
    if clock is not None: of01.time = clock
    # drop the subscriptions earlier (discarded) nexus objects left on the core singleton: they would keep
    # every previous execution's object graph alive
    hd = core.__dict__.get("_eventMixin_handlers") or {}
    for et, lst in list(hd.items()):
      hd[et] = [x for x in lst
        if type(getattr(x[1], "__self__", None)).__name__ != "OpenFlowNexus"]
    self.nexus = ofm.OpenFlowNexus()
    self.arbiter = ofm.OpenFlowConnectionArbiter()
    core.components["openflow"] = self.nexus
    core.components["OpenFlowConnectionArbiter"] = self.arbiter
    self.deferred = StubDeferredSender()
    of01.deferredSender = self.deferred
    self.delayed = []
    core.callDelayed = lambda t, f, *a, **k: self.delayed.append((t, f))
    self.cons = []
    self.events = []
    for name in self.NEXUS_EVENTS:
      ev = getattr(ofm, name, None)
      if ev is not None and ev in self.nexus._eventMixin_events:
        self.nexus.addListener(ev, self._mk(name))

  def _mk (self, name):
    def h (e):
      c = getattr(e, "connection", None)
      idx = self.cons.index(c) if c in self.cons else None
      self.events.append((name, idx, e))
    return h

  def connect (self):
    s = ScriptSock(("switch", len(self.cons) + 1))
    c = self.of01.Connection(s)
    self.cons.append(c)
    return len(self.cons) - 1

  def feed (self, i, data, read=True):
    """Queue bytes on connection i's socket and call Connection.read() once per chunk."""
    c = self.cons[i]
    c.sock.rx.append(bytes(data))
    if not read: return None
    r = True
    while c.sock.rx and r is not False:
      r = c.read()
    return r

  def close (self, i):
    """What OpenFlow_01_Task does when read() returns False / the socket errors."""
    self.cons[i].close()

  def take_tx (self, i):
    s = self.cons[i].sock
    d = s.tx; s.tx = b""
    return d
