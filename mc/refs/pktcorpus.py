"""Packet corpus and builder table for the POX packet library checks (C14, C15).

Two independent parts:

A.  `corpus()` -> {name: bytes}: valid Ethernet frames, one or more per parser path of
    pox.lib.packet, assembled here from RFC byte layouts with struct + refs/rfc1071.  It does
    NOT import or call POX (so the frames stay valid and byte-identical whatever the state of
    the library), is deterministic, cheap (~1 ms) and importable on its own:

        from mc.refs.pktcorpus import corpus, CORPUS_PATHS
        for name, frame in corpus().items(): ...

    `CORPUS_PATHS[name]` names the parser classes the frame is meant to reach.  Frames carry no
    trailer padding; every length and checksum field is valid (C14's run re-verifies that with
    rfc1071.verify_frame).

B.  The builder table used by C14: `STACKS` (header stacks the library can assemble), `KINDS`
    (per header: field boundary values, the first value of every field is the fingerprint base)
    and `build(P, stack, devs, plen)` which assembles the packet with the real POX classes.
    `P = pox_namespace()` imports POX lazily.
"""
import struct
from . import rfc1071 as R

# =============================================================================================
# Part A: independent byte-level assembly
# =============================================================================================

def mac (s): return bytes(int(x, 16) for x in s.split(":"))
def ip4 (s): return bytes(int(x) for x in s.split("."))
def ip6 (s):
  import ipaddress
  return ipaddress.IPv6Address(s).packed

M1, M2 = mac("02:00:00:00:00:01"), mac("02:00:00:00:00:02")
A1, A2 = ip4("10.0.0.1"), ip4("10.0.0.2")
S1, S2 = ip6("fe80::1"), ip6("2001:db8::2")


def pattern (n, salt=0):
  """Deterministic payload: no zero bytes at the start, high and low values, odd period."""
  return bytes(((i * 37 + 0xa5 + salt) & 0xff) for i in range(n))


def r_eth (payload, etype, dst=M2, src=M1):
  return dst + src + struct.pack("!H", etype) + payload

def r_eth8023 (payload, dst=M2, src=M1):
  return dst + src + struct.pack("!H", len(payload)) + payload

def r_vlan (payload, etype, vid=0x123, pcp=5, cfi=0):
  return struct.pack("!HH", (pcp << 13) | (cfi << 12) | vid, etype) + payload

def r_ipv4 (payload, proto, src=A1, dst=A2, tos=0, ident=0x1234, flags=2, frag=0, ttl=64,
            options=b''):
  assert len(options) % 4 == 0
  hl = 20 + len(options)
  h = struct.pack("!BBHHHBBH4s4s", 0x40 | (hl >> 2), tos, hl + len(payload), ident,
                  (flags << 13) | frag, ttl, proto, 0, src, dst) + options
  h = h[:10] + struct.pack("!H", R.csum(h)) + h[12:]
  return h + payload

def r_udp (data, sport, dport, ph):
  ln = 8 + len(data)
  h = struct.pack("!HHHH", sport, dport, ln, 0)
  c = R.csum(ph(ln) + h + data) or 0xffff
  return struct.pack("!HHHH", sport, dport, ln, c) + data

def r_tcp (data, sport, dport, ph, seq=0x01020304, ack=0x05060708, flags=0x18, win=8192, urg=0,
           options=b''):
  while len(options) % 4: options += b'\x00'
  off = (20 + len(options)) >> 2
  h = struct.pack("!HHIIBBHHH", sport, dport, seq, ack, off << 4, flags, win, 0, urg) + options
  c = R.csum(ph(len(h) + len(data)) + h + data)
  return h[:16] + struct.pack("!H", c) + h[18:] + data

def r_icmp (typ, code, rest):
  m = struct.pack("!BBH", typ, code, 0) + rest
  return m[:2] + struct.pack("!H", R.csum(m)) + m[4:]

def r_icmp6 (typ, code, rest, ph):
  m = struct.pack("!BBH", typ, code, 0) + rest
  return m[:2] + struct.pack("!H", R.csum(ph(len(m)) + m)) + m[4:]

def r_igmp (first4, rest):
  m = first4[:2] + b'\x00\x00' + rest
  return m[:2] + struct.pack("!H", R.csum(m)) + m[4:]

def igmp_v3_record (rtype, group, sources=(), aux=b'', fmt="!BBH"):
  """IGMPv3 group record (RFC 3376 4.2.4 ff.).  fmt "<BBH" writes the source count in little-endian order
  (not RFC; used by C15 as an extra, deliberately foreign dialect)."""
  assert len(aux) % 4 == 0
  return struct.pack(fmt, rtype, len(aux) // 4, len(sources)) + group + b''.join(sources) + aux

def igmp_v3_records (n, fmt="!BBH"):
  recs = [igmp_v3_record(1, ip4("239.1.2.3"), [A1, A2], fmt=fmt),
          igmp_v3_record(2, ip4("239.1.2.4"), [ip4("10.0.0.3"), ip4("10.0.0.4")], aux=b'AUX!', fmt=fmt),
          igmp_v3_record(4, ip4("239.1.2.5"), [ip4("10.0.0.5")], aux=b'AUXDATA2', fmt=fmt)]
  return recs[:n]

def ph4 (proto, src=A1, dst=A2):
  return lambda n: R.pseudo4(src, dst, proto, n)

def ph6 (proto, src=S1, dst=S2):
  return lambda n: R.pseudo6(src, dst, proto, n)

def r_ipv6 (payload, nh, src=S1, dst=S2, tc=0, flow=0x12345, hop=64, ext=()):
  """ext: sequence of (type, body) - body is the header without its first two bytes
  (normal headers, padded to 8n-2) or without its first byte (fragment, 7 bytes)."""
  chain = b''
  types = [t for t, _ in ext] + [nh]
  for i, (t, body) in enumerate(ext):
    nxt = types[i + 1]
    if t == 44:
      assert len(body) == 7
      chain += bytes([nxt]) + body
    else:
      assert (len(body) + 2) % 8 == 0
      chain += bytes([nxt, (len(body) + 2) // 8 - 1]) + body
  vtf = (6 << 28) | (tc << 20) | flow
  return struct.pack("!IHBB", vtf, len(chain) + len(payload), types[0], hop) + src + dst + chain + payload

def dns_name (name):
  out = b''
  for l in name.split("."):
    if l: out += bytes([len(l)]) + l.encode()
  return out + b'\x00'

def lldp_tlv (t, data):
  return struct.pack("!H", (t << 9) | len(data)) + data

def dhcp_msg (op, options, xid=0x3903f326, chaddr=M1, flags=0, ci=b'\0' * 4, yi=b'\0' * 4,
              si=b'\0' * 4, gi=b'\0' * 4, sname=b'', file=b''):
  return (struct.pack("!BBBBIHH", op, 1, 6, 0, xid, 0, flags) + ci + yi + si + gi
          + chaddr.ljust(16, b'\0') + sname.ljust(64, b'\0') + file.ljust(128, b'\0')
          + b'\x63\x82\x53\x63' + options)

def gre_hdr (proto, csum=False, key=None, seq=None, routing=None, payload=b''):
  flags = 0
  if csum: flags |= 0x8000
  if routing is not None: flags |= 0x4000
  if key is not None: flags |= 0x2000
  if seq is not None: flags |= 0x1000
  h = struct.pack("!HH", flags, proto)
  if csum or routing is not None: h += b'\0\0\0\0'
  if key is not None: h += struct.pack("!I", key)
  if seq is not None: h += struct.pack("!I", seq)
  if routing is not None: h += routing
  if csum:
    h = h[:4] + struct.pack("!H", R.csum(h + payload)) + h[6:]
  return h + payload


CORPUS_PATHS = {}
# Frames whose re-encoding by the library legitimately differs from the frame (reason given); every other corpus frame
# must satisfy pack(parse(frame)) == frame.  Filled by corpus().
CORPUS_NOT_CANONICAL = {}

def corpus ():
  """name -> frame bytes.  Deterministic; does not touch POX."""
  C = {}
  def add (name, frame, path, not_canonical=None):
    assert name not in C
    C[name] = bytes(frame)
    CORPUS_PATHS[name] = path
    if not_canonical: CORPUS_NOT_CANONICAL[name] = not_canonical

  pay = pattern(18)
  u4 = lambda d, sp=1234, dp=4321, src=A1, dst=A2: r_udp(d, sp, dp, ph4(17, src, dst))
  def iu4 (d, sp=1234, dp=4321, src=A1, dst=A2, **kw):      # IPv4 datagram carrying a UDP datagram
    return r_ipv4(u4(d, sp, dp, src, dst), 17, src=src, dst=dst, **kw)
  eu4 = lambda *a, **kw: r_eth(iu4(*a, **kw), 0x0800)
  u6 = lambda d, sp=1234, dp=4321: r_udp(d, sp, dp, ph6(17))
  e4 = lambda seg, proto, **kw: r_eth(r_ipv4(seg, proto, **kw), 0x0800)
  e6 = lambda seg, nh, **kw: r_eth(r_ipv6(seg, nh, **kw), 0x86dd)

  # --- L2 ---------------------------------------------------------------------------------
  add("eth_unknown_type", r_eth(pay, 0x88b5), "ethernet/raw")
  add("eth_llc_ui", r_eth8023(b'\x42\x42\x03' + pattern(35)), "ethernet/llc")       # STP-like
  add("eth_llc_iframe", r_eth8023(b'\xf0\xf0\x10\x12' + pay), "ethernet/llc(2-byte control)")
  add("eth_snap_cdp", r_eth8023(b'\xaa\xaa\x03\x00\x00\x0c\x20\x00' + pay), "ethernet/llc+snap/raw")
  # SNAP behind a two-byte (I/S format) control field: the SNAP header starts one byte later
  add("eth_snap_iformat", r_eth8023(b'\xaa\xaa\x10\x12\x00\x00\x0c\x20\x00' + pay), "ethernet/llc(2-byte control)+snap/raw")
  add("eth_snap_sformat", r_eth8023(b'\xaa\xaa\x01\x02\x00\x00\x0c\x20\x00' + pay), "ethernet/llc(2-byte control)+snap/raw")
  # I and S format control fields at their boundaries: second octet 0x00 (N(R)=0, P/F=0), 0x01, 0xff; with and without SNAP
  short = pattern(6)
  for nm, c1, c2 in (("i_nr0", 0x00, 0x00), ("i_nsmax_nrmax", 0xfe, 0xff), ("rr_nr0", 0x01, 0x00), ("rnr_pf", 0x05, 0x01)):
    add("eth_llc_" + nm, r_eth8023(bytes([0x42, 0x43, c1, c2]) + short), "ethernet/llc(2-byte control %02x %02x)" % (c1, c2))
  for nm, c1, c2 in (("i_nr0", 0x00, 0x00), ("i_pf", 0x02, 0x01), ("rr_nr0", 0x01, 0x00), ("rnr_nrmax", 0x05, 0xff)):
    add("eth_snap_" + nm, r_eth8023(bytes([0xaa, 0xaa, c1, c2]) + b'\x00\x00\x0c\x20\x00' + short),
        "ethernet/llc(2-byte control %02x %02x)+snap/raw" % (c1, c2))
  add("eth_snap_ipv4_udp", r_eth8023(b'\xaa\xaa\x03\x00\x00\x00\x08\x00' + r_ipv4(u4(pay), 17)),
      "ethernet/llc+snap(oui 0)/ipv4/udp")
  add("vlan_ipv4_udp", r_eth(r_vlan(r_ipv4(u4(pay), 17), 0x0800), 0x8100), "ethernet/vlan/ipv4/udp")
  add("vlan_cfi_arp", r_eth(r_vlan(struct.pack("!HHBBH", 1, 0x0800, 6, 4, 1) + M1 + A1 + b'\0' * 6 + A2,
                                   0x0806, vid=0xfff, pcp=7, cfi=1), 0x8100), "ethernet/vlan(cfi)/arp")
  add("qinq_raw", r_eth(r_vlan(r_vlan(pay, 0x88b5, vid=7), 0x8100, vid=100), 0x8100), "ethernet/vlan/vlan/raw")
  add("vlan_llc", r_eth(r_vlan(b'\x42\x42\x03' + pay, 3 + len(pay)), 0x8100), "ethernet/vlan/llc")
  arp = lambda op: struct.pack("!HHBBH", 1, 0x0800, 6, 4, op) + M1 + A1 + M2 + A2
  add("arp_request", r_eth(arp(1), 0x0806, dst=b'\xff' * 6), "ethernet/arp")
  add("arp_reply_padded", r_eth(arp(2) + b'\0' * 18, 0x0806), "ethernet/arp + trailer")
  add("rarp_request", r_eth(arp(3), 0x8035), "ethernet/arp(rarp)")
  add("mpls_bos", r_eth(struct.pack("!I", (0x12345 << 12) | (5 << 9) | (1 << 8) | 64) + pay, 0x8847), "ethernet/mpls/raw")
  add("mpls_stack2_mc", r_eth(struct.pack("!II", (16 << 12) | 255, (0xfffff << 12) | (1 << 8) | 1) + pay, 0x8848),
      "ethernet/mpls/mpls/raw")
  add("eapol_start", r_eth(struct.pack("!BBH", 1, 1, 0), 0x888e), "ethernet/eapol")
  add("eapol_eap_request_identity", r_eth(struct.pack("!BBH", 2, 0, 10) + struct.pack("!BBHB", 1, 7, 10, 1) + b'hello',
                                          0x888e), "ethernet/eapol/eap(request)")
  add("eapol_eap_success", r_eth(struct.pack("!BBH", 1, 0, 4) + struct.pack("!BBH", 3, 9, 4), 0x888e),
      "ethernet/eapol/eap(success)")
  add("eapol_key", r_eth(struct.pack("!BBH", 2, 3, len(pay)) + pay, 0x888e), "ethernet/eapol(key)")
  lldp3 = (lldp_tlv(1, b'\x04' + M1) + lldp_tlv(2, b'\x07' + b'eth0') + lldp_tlv(3, struct.pack("!H", 120)))
  add("lldp_minimal", r_eth(lldp3 + lldp_tlv(0, b''), 0x88cc, dst=mac("01:80:c2:00:00:0e")), "ethernet/lldp")
  add("lldp_full", r_eth(lldp3 + lldp_tlv(4, b'port one') + lldp_tlv(5, b'sw1') + lldp_tlv(6, b'a switch')
                         + lldp_tlv(7, struct.pack("!HH", 0x0014, 0x0004))
                         + lldp_tlv(8, b'\x05\x01' + A1 + b'\x02' + struct.pack("!I", 3) + b'\x03\x2b\x06\x01')
                         + lldp_tlv(127, b'\x00\x26\xe1\x00' + b'dpid:0000000000000001')
                         + lldp_tlv(9, b'unknown') + lldp_tlv(0, b''), 0x88cc, dst=mac("01:80:c2:00:00:0e")),
      "ethernet/lldp(all TLV classes)")

  # --- IPv4 -------------------------------------------------------------------------------
  add("ipv4_unknown_proto", e4(pay, 253), "ethernet/ipv4/raw")
  add("ipv4_options_udp", e4(u4(pay), 17, options=b'\x94\x04\x00\x00\x01\x01\x01\x00'), "ethernet/ipv4(options)/udp")
  add("ipv4_fragment", e4(pattern(24), 17, flags=1, frag=185), "ethernet/ipv4(fragment)/raw")
  add("ipv4_udp", e4(u4(pay), 17), "ethernet/ipv4/udp")
  add("ipv4_udp_odd", e4(u4(pattern(7)), 17), "ethernet/ipv4/udp (odd length)")
  add("ipv4_udp_empty", e4(u4(b''), 17), "ethernet/ipv4/udp (no data)")
  t4 = lambda d, opts=b'', **kw: r_tcp(d, 40000, 80, ph4(6), options=opts, **kw)
  add("ipv4_tcp", e4(t4(pay), 6), "ethernet/ipv4/tcp")
  add("ipv4_tcp_syn_options", e4(t4(b'', b'\x02\x04\x05\xb4\x04\x02\x08\x0a\x00\x00\x00\x01\x00\x00\x00\x00\x01\x03\x03\x07',
                                    flags=0x02), 6), "ethernet/ipv4/tcp(MSS,SACKPERM,TS,NOP,WSOPT)")
  add("ipv4_tcp_sack", e4(t4(pattern(5), b'\x01\x01\x05\x0a' + struct.pack("!II", 1000, 2000), flags=0x10), 6),
      "ethernet/ipv4/tcp(NOP,NOP,SACK)")
  add("ipv4_tcp_unknown_option", e4(t4(pay, b'\xfe\x04ab'), 6), "ethernet/ipv4/tcp(unknown option)")
  add("ipv4_tcp_mp_capable", e4(t4(b'', b'\x1e\x0c\x00\x81' + pattern(8), flags=0x02), 6), "ethernet/ipv4/tcp(mp_capable)")
  add("ipv4_tcp_mp_join", e4(t4(b'', b'\x1e\x0c\x10\x02' + pattern(8), flags=0x02), 6), "ethernet/ipv4/tcp(mp_join)")
  add("ipv4_tcp_mp_dss", e4(t4(pay, b'\x1e\x14\x20\x05' + struct.pack("!IIIHH", 7, 8, 9, 18, 0)), 6),
      "ethernet/ipv4/tcp(mp_dss ack+dsn)")
  add("ipv4_tcp_mp_unknown", e4(t4(pay, b'\x1e\x04\xf0\x00'), 6), "ethernet/ipv4/tcp(mptcp unknown subtype)")
  # MPTCP (RFC 6824) in its other forms: MP_CAPABLE with both keys, the three MP_JOIN forms, DSS in every combination
  # of data ack (none / 4 / 8 bytes) and mapping (none / 4 / 8 byte DSN), the mapping with its checksum and - as when
  # checksums were not negotiated (3.3) - without it (option two bytes shorter), DATA_FIN, address management, MP_PRIO,
  # MP_FAIL, MP_FASTCLOSE; always inside a well-formed option list padded with NOPs.
  mpo = lambda sub, low, body: bytes([30, 4 + len(body), (sub << 4) | (low >> 8), low & 0xff]) + body
  def dss (flags, csum=True):
    body = b''
    if flags & 1: body += struct.pack("!Q" if flags & 2 else "!I", 0x0102030405060708 if flags & 2 else 0x01020304)
    if flags & 4:
      body += struct.pack("!Q" if flags & 8 else "!I", 0x1112131415161718 if flags & 8 else 0x11121314)
      body += struct.pack("!IH", 1, 4) + (struct.pack("!H", 0xbeef) if csum else b'')
    return mpo(2, flags, body)
  nops = lambda o: o + b'\x01' * (-len(o) % 4)
  mp4 = lambda name, opts, what, fl=0x10, d=pattern(4): add("ipv4_tcp_mp_" + name, e4(t4(d, nops(opts), flags=fl), 6),
                                                           "ethernet/ipv4/tcp(%s)" % what)
  mp4("capable_ack", mpo(0, 0x081, pattern(8) + pattern(8, 9)), "mp_capable with both keys")
  mp4("join_synack", mpo(1, 0x002, pattern(8) + pattern(4, 5)), "mp_join SYN/ACK form", fl=0x12, d=b'')
  mp4("join_ack", mpo(1, 0x000, pattern(20)), "mp_join ACK form")
  mp4("dss_ack4_map4fin", dss(0x01) + dss(0x14), "mp_dss ack4; mp_dss DATA_FIN+dsn4+csum")
  mp4("dss_ack8_map8", dss(0x03) + dss(0x0c), "mp_dss ack8; mp_dss dsn8+csum")
  mp4("dss_ack4map8_none", dss(0x0d) + dss(0x00), "mp_dss ack4+dsn8+csum; mp_dss without ack or mapping")
  mp4("dss_ack8map4_ts", b'\x01\x01\x08\x0a' + struct.pack("!II", 100, 99) + dss(0x07), "NOP,NOP,TS,mp_dss ack8+dsn4+csum")
  mp4("dss_ack8map8", dss(0x0f), "mp_dss ack8+dsn8+csum")
  for fl, nm in ((0x04, "map4"), (0x0c, "map8"), (0x05, "ack4map4"), (0x0d, "ack4map8"), (0x07, "ack8map4"), (0x0f, "ack8map8")):
    mp4("dss_%s_nocsum" % nm, dss(fl, csum=False), "mp_dss %s, mapping without checksum" % nm)
  mp4("addr_prio", mpo(3, 0x407, A2) + mpo(4, 0x007, b'') + b'\x1e\x03\x51',
      "mp_add_addr(ipv4), mp_remove_addr, mp_prio")
  mp4("fail_fastclose", mpo(6, 0, pattern(8)) + mpo(7, 0, pattern(8, 2)), "mp_fail, mp_fastclose")
  add("icmp_echo_request", e4(r_icmp(8, 0, struct.pack("!HH", 0x1234, 1) + pay), 1), "ethernet/ipv4/icmp/echo")
  add("icmp_echo_reply_odd", e4(r_icmp(0, 0, struct.pack("!HH", 0x1234, 1) + pattern(7)), 1), "ethernet/ipv4/icmp/echo (odd)")
  orig = r_ipv4(u4(pay), 17)[:28]
  add("icmp_unreach_port", e4(r_icmp(3, 3, b'\0\0\0\0' + orig), 1), "ethernet/ipv4/icmp/unreach/ipv4/udp")
  add("icmp_unreach_frag_short", e4(r_icmp(3, 4, struct.pack("!HH", 0, 1400) + orig[:20]), 1),
      "ethernet/ipv4/icmp/unreach/raw")
  add("icmp_time_exceeded", e4(r_icmp(11, 0, b'\0\0\0\0' + orig), 1), "ethernet/ipv4/icmp/time_exceeded/ipv4/udp")
  add("icmp_redirect", e4(r_icmp(5, 1, A2 + orig), 1), "ethernet/ipv4/icmp/raw")
  add("igmp_v2_query", e4(r_igmp(b'\x11\x64', ip4("0.0.0.0")), 2, dst=ip4("224.0.0.1"), ttl=1), "ethernet/ipv4/igmp(query)")
  add("igmp_v2_report", e4(r_igmp(b'\x16\x00', ip4("239.1.2.3")), 2, dst=ip4("239.1.2.3"), ttl=1), "ethernet/ipv4/igmp(v2 report)")
  add("igmp_v3_report", e4(r_igmp(b'\x22\x00', struct.pack("!HH", 0, 1) + struct.pack("!BBH", 4, 0, 0) + ip4("239.1.2.3")),
                           2, dst=ip4("224.0.0.22"), ttl=1, options=b'\x94\x04\x00\x00'), "ethernet/ipv4/igmp(v3 report)")
  # IGMPv3 reports with several group records, with source lists and auxiliary data (RFC 3376 4.2)
  v3rep = lambda recs: e4(r_igmp(b'\x22\x00', struct.pack("!HH", 0, len(recs)) + b''.join(recs)), 2,
                          dst=ip4("224.0.0.22"), ttl=1, tos=0xc0, options=b'\x94\x04\x00\x00')
  add("igmp_v3_report_2rec", v3rep(igmp_v3_records(2)), "ethernet/ipv4/igmp(v3 report, 2 group records, sources, aux data)")
  add("igmp_v3_report_3rec", v3rep(igmp_v3_records(3)), "ethernet/ipv4/igmp(v3 report, 3 group records, sources, aux data)")
  inner4 = iu4(pay, src=ip4("192.168.0.1"), dst=ip4("192.168.0.2"))
  add("gre_ipv4",e4(gre_hdr(0x0800, payload=inner4), 47), "ethernet/ipv4/gre/ipv4/udp")
  add("gre_csum_key_seq_eth", e4(gre_hdr(0x6558, csum=True, key=0xdeadbeef, seq=7, payload=r_eth(inner4, 0x0800)), 47),
      "ethernet/ipv4/gre(csum,key,seq)/ethernet/ipv4/udp")
  add("gre_routing", e4(gre_hdr(0x88b5, routing=struct.pack("!HBB", 0x0800, 0, 4) + A2 + b'\0\0\0\0', payload=pay), 47),
      "ethernet/ipv4/gre(routing)/raw")
  # UDP applications
  add("dhcp_discover", eu4(dhcp_msg(1, b'\x35\x01\x01\x37\x04\x01\x03\x06\x0f\x3d\x07\x01' + M1 + b'\x0c\x02h1\xff',
                                    flags=0x8000), 68, 67, src=ip4("0.0.0.0"), dst=ip4("255.255.255.255")),
      "ethernet/ipv4/udp/dhcp(request)")
  add("dhcp_offer", e4(u4(dhcp_msg(2, b'\x35\x01\x02\x01\x04\xff\xff\xff\x00\x03\x04' + A1 + b'\x06\x08' + A1 + A2
                                   + b'\x33\x04\x00\x00\x0e\x10\x36\x04' + A1 + b'\x3a\x04\x00\x00\x07\x08'
                                   + b'\x3b\x04\x00\x00\x0c\x4e\x1c\x04\x0a\x00\x00\xff\x0f\x03lan\x00\xff',
                                   yi=A2, si=A1, sname=b'srv', file=b'pxelinux.0'), 67, 68), 17), "ethernet/ipv4/udp/dhcp(reply)")
  add("dhcp_ack_address_lists",
      e4(u4(dhcp_msg(2, b'\x35\x01\x05\x03\x08' + A1 + A2 + b'\x04\x04' + ip4("10.0.0.3")
                     + b'\x06\x0c' + ip4("10.0.0.4") + ip4("8.8.8.8") + ip4("8.8.4.4") + b'\x33\x04\x00\x00\x0e\x10\xff',
                     yi=A2, si=A1, xid=0x3903f327), 67, 68), 17), "ethernet/ipv4/udp/dhcp(routers x2, time server, DNS x3)")
  # RFC 3396 long options: one option code in several TLVs whose payloads a parser must concatenate (> 255 bytes in
  # total), and the longest option a single TLV can carry.  The option next to the long one has the adjacent code,
  # so a one-bit corruption of that code byte makes it one more piece of the long option.
  dopt = lambda code, data: bytes([code, len(data)]) + data
  dack = lambda opts: e4(u4(dhcp_msg(2, b'\x35\x01\x05\x36\x04' + A1 + b'\x33\x04\x00\x00\x0e\x10' + opts + b'\xff',
                                     yi=A2, si=A1, xid=0x3903f328), 67, 68), 17)
  add("dhcp_rfc3396_vendor_split", dack(dopt(42, A1) + dopt(43, pattern(200)) + dopt(43, pattern(56, 3))),
      "ethernet/ipv4/udp/dhcp(NTP servers, vendor option split 200+56 = 256 bytes)")
  dns65 = [ip4("10.1.%d.%d" % (i // 250, i % 250 + 1)) for i in range(65)]
  add("dhcp_rfc3396_dns_split", dack(dopt(6, b''.join(dns65[:63])) + dopt(6, b''.join(dns65[63:])) + dopt(1, b'\xff\xff\xff\x00')),
      "ethernet/ipv4/udp/dhcp(65 DNS servers split 252+8 bytes)")
  add("dhcp_hostname_255", dack(dopt(12, b'h' * 255) + dopt(13, b'\x00\x20')),
      "ethernet/ipv4/udp/dhcp(host name of 255 bytes in one TLV, boot file size)")
  q = dns_name("www.example.com")
  add("dns_query", e4(u4(struct.pack("!HHHHHH", 0xbeef, 0x0100, 1, 0, 0, 0) + q + struct.pack("!HH", 1, 1), 40000, 53), 17),
      "ethernet/ipv4/udp/dns(query)")
  ptr = b'\xc0\x0c'
  rr = lambda name, t, rd, ttl=300: name + struct.pack("!HHIH", t, 1, ttl, len(rd)) + rd
  add("dns_response", e4(u4(struct.pack("!HHHHHH", 0xbeef, 0x8180, 1, 3, 1, 1) + q + struct.pack("!HH", 1, 1)
                            + rr(ptr, 5, b'\x03web' + b'\xc0\x10') + rr(b'\x03web\xc0\x10', 1, A1)
                            + rr(ptr, 16, b'\x05hello') + rr(b'\xc0\x10', 2, b'\x02ns\xc0\x10')
                            + rr(b'\x02ns\xc0\x10', 28, S2), 53, 40000), 17), "ethernet/ipv4/udp/dns(response, compression)")
  add("mdns_query", eu4(struct.pack("!HHHHHH", 0, 0, 1, 0, 0, 0) + dns_name("_http._tcp.local") + struct.pack("!HH", 12, 1),
                        5353, 5353, dst=ip4("224.0.0.251"), ttl=255), "ethernet/ipv4/udp/dns(mdns)")
  rip_e = lambda a, m, nh, metric: struct.pack("!HH", 2, 0) + a + m + nh + struct.pack("!I", metric)
  add("rip_response", eu4(struct.pack("!BBH", 2, 2, 0) + rip_e(ip4("10.1.0.0"), ip4("255.255.0.0"), ip4("0.0.0.0"), 1)
                          + rip_e(ip4("192.168.7.0"), ip4("255.255.255.0"), A1, 16), 520, 520,
                          dst=ip4("224.0.0.9"), ttl=1), "ethernet/ipv4/udp/rip")
  add("vxlan", e4(u4(struct.pack("!II", 0x08000000, 0x123456 << 8) + r_eth(inner4, 0x0800), 49152, 4789), 17),
      "ethernet/ipv4/udp/vxlan/ethernet/ipv4/udp")

  # --- IPv6 -------------------------------------------------------------------------------
  add("ipv6_udp", e6(u6(pay), 17), "ethernet/ipv6/udp")
  add("ipv6_udp_odd", e6(u6(pattern(7)), 17), "ethernet/ipv6/udp (odd)")
  add("ipv6_tcp", e6(r_tcp(pay, 40000, 80, ph6(6)), 6), "ethernet/ipv6/tcp")
  add("ipv6_no_next_header", e6(b'', 59), "ethernet/ipv6(no next header)")
  add("ipv6_unknown_next", e6(pay, 253), "ethernet/ipv6/raw")
  add("ipv6_hopbyhop_udp", e6(u6(pay), 17, ext=[(0, b'\x01\x04\x00\x00\x00\x00')]), "ethernet/ipv6+hop-by-hop/udp")
  add("ipv6_all_ext_tcp", e6(r_tcp(pay, 40000, 80, ph6(6)), 6,
                             ext=[(0, b'\x05\x02\x00\x00\x01\x00'), (60, b'\x01\x04\x00\x00\x00\x00'),
                                  (43, b'\x00\x00\x00\x00\x00\x00'), (44, b'\x00\x00\x00\x00\x00\x00\x07')]),
      "ethernet/ipv6+hop-by-hop+dest+routing+fragment/tcp")
  add("ipv6_fragment_udp", e6(u6(pay), 17, ext=[(44, b'\x00\x00\x00\x12\x34\x56\x78')]), "ethernet/ipv6+fragment/udp")
  i6 = lambda t, c, rest, **kw: e6(r_icmp6(t, c, rest, ph6(58)), 58, **kw)
  add("icmp6_echo_request", i6(128, 0, struct.pack("!HH", 0x1234, 1) + pay), "ethernet/ipv6/icmpv6/echo")
  add("icmp6_echo_reply_odd", i6(129, 0, struct.pack("!HH", 0x1234, 1) + pattern(7)), "ethernet/ipv6/icmpv6/echo (odd)")
  orig6 = r_ipv6(u6(pay), 17, src=S2, dst=S1)
  add("icmp6_unreach", i6(1, 4, b'\0\0\0\0' + orig6), "ethernet/ipv6/icmpv6/unreach/ipv6/udp")
  add("icmp6_packet_too_big", i6(2, 0, struct.pack("!I", 1280) + orig6), "ethernet/ipv6/icmpv6/PacketTooBig")
  add("icmp6_time_exceeded", i6(3, 0, b'\0\0\0\0' + orig6), "ethernet/ipv6/icmpv6/TimeExceeded")
  add("icmp6_router_solicitation", i6(133, 0, b'\0\0\0\0' + b'\x01\x01' + M1, hop=255), "ethernet/ipv6/icmpv6/NDRouterSolicitation")
  add("icmp6_router_advertisement", i6(134, 0, struct.pack("!BBHII", 64, 0xc0, 1800, 0, 0) + b'\x01\x01' + M1
                                       + b'\x05\x01\x00\x00' + struct.pack("!I", 1500)
                                       + b'\x03\x04\x40\xc0' + struct.pack("!III", 86400, 14400, 0) + ip6("2001:db8::"),
                                       hop=255), "ethernet/ipv6/icmpv6/NDRouterAdvertisement(SLLA,MTU,prefix)")
  add("icmp6_neighbor_solicitation", i6(135, 0, b'\0\0\0\0' + S2 + b'\x01\x01' + M1, hop=255),
      "ethernet/ipv6/icmpv6/NDNeighborSolicitation")
  add("icmp6_neighbor_advertisement", i6(136, 0, b'\x60\0\0\0' + S2 + b'\x02\x01' + M2, hop=255),
      "ethernet/ipv6/icmpv6/NDNeighborAdvertisement")
  add("icmp6_nd_unknown_option", i6(135, 0, b'\0\0\0\0' + S2 + b'\x0e\x01' + pattern(6), hop=255),
      "ethernet/ipv6/icmpv6/NDNeighborSolicitation(generic option)")
  add("icmp6_mld_report", i6(131, 0, struct.pack("!HH", 0, 0) + ip6("ff02::1:ff00:2"), hop=1), "ethernet/ipv6/icmpv6/raw")
  add("ipv6_udp_dns", e6(u6(struct.pack("!HHHHHH", 7, 0x0100, 1, 0, 0, 0) + dns_name("a.b") + struct.pack("!HH", 28, 1),
                            40000, 53), 17), "ethernet/ipv6/udp/dns")
  # families whose re-encoding legitimately differs from the wire form they were given (by parser path)
  for name, path in CORPUS_PATHS.items():
    if name not in C: continue
    if "/dhcp" in path:
      CORPUS_NOT_CANONICAL[name] = "DHCP options are re-emitted in the library's own layout (pad option after odd-length options)"
    elif "unreach/ipv4" in path or "time_exceeded/ipv4" in path:
      CORPUS_NOT_CANONICAL[name] = "the datagram quoted by an ICMP error is truncated; its length/checksum fields are recomputed"
    elif "ipv6+" in path:
      CORPUS_NOT_CANONICAL[name] = "listed finding C14:chain:ipv6 (extension headers are not serialised)"
  return C


# =============================================================================================
# Part B: builder table over the real POX classes (imports POX lazily)
# =============================================================================================

class Namespace (object): pass

_P = None
def pox_namespace ():
  """Import the packet library from POX_SRC (sys.path is set by mc/run.py) once."""
  global _P
  if _P is not None: return _P
  import logging
  logging.getLogger("packet").setLevel(logging.CRITICAL + 1)
  logging.getLogger("packet").addHandler(logging.NullHandler())
  logging.getLogger("packet").propagate = False
  import importlib
  import pox.lib.addresses as addrs
  P = Namespace()
  mod = lambda n: importlib.import_module("pox.lib.packet." + n)
  P.addrs = addrs
  P.icmp = mod("icmp"); P.icmp6 = mod("icmpv6"); P.igmp = mod("igmp"); P.lldp = mod("lldp"); P.tcp = mod("tcp")
  P.dhcp = mod("dhcp"); P.ipv6 = mod("ipv6"); P.rip = mod("rip"); P.dns = mod("dns"); P.gre = mod("gre")
  P.vxlan = mod("vxlan"); P.utils = mod("packet_utils")
  P.packet_base = mod("packet_base").packet_base
  class pkt: pass
  for n in ("ethernet", "vlan", "llc", "arp", "mpls", "eapol", "eap", "lldp", "ipv4", "udp", "tcp", "icmp", "ipv6",
            "icmpv6", "igmp", "gre", "vxlan", "dhcp", "dns", "rip"):
    setattr(pkt, n, getattr(mod(n), n))
  P.pkt = pkt
  P.EthAddr = addrs.EthAddr; P.IPAddr = addrs.IPAddr; P.IPAddr6 = addrs.IPAddr6
  _P = P
  return P


MACS = ["02:11:22:33:44:55", "00:00:00:00:00:00", "ff:ff:ff:ff:ff:ff", "01:80:c2:00:00:0e"]
MACS2 = ["06:aa:bb:cc:dd:ee", "00:00:00:00:00:00", "ff:ff:ff:ff:ff:ff"]
IPS = ["10.17.34.51", "0.0.0.0", "255.255.255.255", "128.0.0.1", "127.255.255.254"]
IPS2 = ["172.20.68.85", "0.0.0.0", "255.255.255.255", "224.0.0.1"]
IP6A = ["2001:db8:1:2:3:4:5:6", "::", "ffff:ffff:ffff:ffff:ffff:ffff:ffff:ffff", "fe80::1"]
IP6B = ["fd00:a:b:c:d:e:f:10", "::", "ffff:ffff:ffff:ffff:ffff:ffff:ffff:ffff", "ff02::1"]
U8 = lambda fp: [fp, 0, 1, 0xff, 0x80]
U16 = lambda fp: [fp, 0, 1, 0xffff, 0x8000]
U32 = lambda fp: [fp, 0, 1, 0xffffffff, 0x80000000]
PORTS = lambda fp: [fp, 0, 1, 0xffff, 0x8000]       # none of them selects an application parser

# TCP option lists.  Every entry: (mnemonic, args...).  ref_tcp_options() gives the RFC wire form.
TCP_OPTS = [
  [],
  [("MSS", 1460)],
  [("NOP",), ("NOP",), ("TS", 0x01020304, 0x0a0b0c0d)],
  [("MSS", 0xffff), ("SACKOK",), ("TS", 1, 0), ("NOP",), ("WS", 14)],
  [("TS", 1, 2), ("TS", 3, 4), ("TS", 5, 6), ("TS", 0xffffffff, 0xffffffff)],      # 40 bytes: the maximum
  [("WS", 0)],                                                                        # 3 bytes: needs padding
  [("NOP",), ("NOP",), ("SACK", ((1000, 2000),))],
  [("SACK", ((1, 2), (3, 4), (5, 6), (0xffffffff, 0)))],
  [("UNK", 254, b"ab")],
  [("UNK", 253, b"")],
  [("MPCAP", 0, 0x81, b"\x01\x02\x03\x04\x05\x06\x07\x08", None)],
  [("MPCAP", 1, 0x01, b"\x01\x02\x03\x04\x05\x06\x07\x08", b"\x11\x12\x13\x14\x15\x16\x17\x18")],
  [("MPJOIN", 1, 1, 2, b"\x01\x02\x03\x04", b"\x05\x06\x07\x08", None)],
  [("MPJOIN", 3, 0, 2, None, None, bytes(range(20)))],
  [("MPDSS", 0x01, 0x11223344, None)],                                               # data ack only
  [("MPDSS", 0x05, 0x11223344, (0x55667788, 9, 18, 0))],                             # ack + dsn mapping
  [("MPUNK", b"\xf0\x00")],
]

def ref_tcp_options (opts):
  """RFC 793 / 7323 / 2018 / 6824 wire form of an option list (without final padding)."""
  out = b''
  for o in opts:
    k = o[0]
    if k == "NOP": out += b'\x01'
    elif k == "MSS": out += struct.pack("!BBH", 2, 4, o[1])
    elif k == "WS": out += struct.pack("!BBB", 3, 3, o[1])
    elif k == "SACKOK": out += b'\x04\x02'
    elif k == "SACK":
      out += struct.pack("!BB", 5, 2 + 8 * len(o[1]))
      for l, r in o[1]: out += struct.pack("!II", l, r)
    elif k == "TS": out += struct.pack("!BBII", 8, 10, o[1], o[2])
    elif k == "UNK": out += struct.pack("!BB", o[1], 2 + len(o[2])) + o[2]
    elif k == "MPCAP":
      out += struct.pack("!BBBB", 30, 20 if o[4] else 12, (0 << 4) | o[1], o[2]) + o[3] + (o[4] or b'')
    elif k == "MPJOIN":
      phase = o[1]
      if phase == 1: out += struct.pack("!BBBB", 30, 12, (1 << 4) | o[2], o[3]) + o[4] + o[5]
      elif phase == 3: out += struct.pack("!BBBB", 30, 24, (1 << 4) | o[2], o[3]) + o[6]
    elif k == "MPDSS":
      flags = o[1]
      body = struct.pack("!I", o[2]) if flags & 1 else b''
      if flags & 4: body += struct.pack("!IIHH", *o[3])
      out += struct.pack("!BBBB", 30, 4 + len(body), 2 << 4, flags) + body
    elif k == "MPUNK": out += struct.pack("!BB", 30, 2 + len(o[1])) + o[1]
  return out

def _tcp_options (P, opts):
  T = P.tcp
  out = []
  for o in opts:
    k = o[0]
    if k == "NOP": out.append(T.tcp_opt(T.tcp_opt.NOP, None))
    elif k == "MSS": out.append(T.tcp_opt(T.tcp_opt.MSS, o[1]))
    elif k == "WS": out.append(T.tcp_opt(T.tcp_opt.WSOPT, o[1]))
    elif k == "SACKOK": out.append(T.tcp_opt(T.tcp_opt.SACKPERM, None))
    elif k == "SACK": out.append(T.tcp_opt(T.tcp_opt.SACK, [tuple(x) for x in o[1]]))
    elif k == "TS": out.append(T.tcp_opt(T.tcp_opt.TSOPT, (o[1], o[2])))
    elif k == "UNK": out.append(T.tcp_opt(o[1], o[2]))
    elif k == "MPCAP":
      m = T.mp_capable_opt(); m.version = o[1]; m.flags = o[2]; m.skey = o[3]; m.rkey = o[4]; out.append(m)
    elif k == "MPJOIN":
      m = T.mp_join_opt(); m.phase = o[1]; m.flags = o[2]; m.address_id = o[3]
      m.rtoken = o[4]; m.srand = o[5]; m.shmac = o[6]; out.append(m)
    elif k == "MPDSS":
      m = T.mp_dss_opt(); m.flags = o[1]; m.ack = o[2]
      if o[3] is not None: m.dsn, m.seq, m.length, m.csum = o[3]
      out.append(m)
    elif k == "MPUNK":
      m = T.mp_unknown(); m.data = o[1]; out.append(m)
  return out

IP4_OPTS = [b"", b"\x01\x01\x01\x00", b"\x94\x04\x00\x00", bytes([0x07, 39, 4] + [0] * 36 + [0])]   # none, NOPs+EOL, router alert, max (40)

LLDP_TLVS = [
  [],
  [("port_description", b"p")],
  [("system_name", b"sw-1"), ("system_description", b"")],
  [("system_name", pattern(511))],                                  # longest TLV information string
  [("system_capabilities", 0x0014, 0x8004)],
  [("management_address", 1, b"\x0a\x00\x00\x01", 2, 3, b"\x2b\x06")],
  [("organizationally_specific", b"\x00\x26\xe1", 0, b"dpid:1")],
  [("organizationally_specific", b"\xff\xff\xff", 255, b"")],
  [("unknown", 9, b"xyz")],
  [("port_description", b"a"), ("system_name", b"b"), ("system_description", b"c"), ("system_capabilities", 0xffff, 0),
   ("organizationally_specific", b"\x00\x12\x0f", 1, b"\x03\x00\x10"), ("unknown", 126, b"")],
]

def _lldp_tlvs (P, v):
  L = P.lldp
  out = [L.chassis_id(subtype=v["chassis_subtype"], id=v["chassis_id"]),
         L.port_id(subtype=v["port_subtype"], id=v["port_id"]),
         L.ttl(ttl=v["ttl"])]
  for t in v["tlvs"]:
    k = t[0]
    if k in ("port_description", "system_name", "system_description"):
      out.append(getattr(L, k)(payload=t[1]))
    elif k == "system_capabilities":
      out.append(L.system_capabilities(caps=[bool(t[1] & (1 << i)) for i in range(16)],
                                       enabled_caps=[bool(t[2] & (1 << i)) for i in range(16)]))
    elif k == "management_address":
      out.append(L.management_address(address_subtype=t[1], address=t[2], interface_numbering_subtype=t[3],
                                      interface_number=t[4], object_identifier=t[5]))
    elif k == "organizationally_specific":
      out.append(L.organizationally_specific(oui=t[1], subtype=t[2], payload=t[3]))
    elif k == "unknown":
      out.append(L.unknown_tlv(tlv_type=t[1], payload=t[2]))
  out.append(L.end_tlv())
  return out

DHCP_OPTS = [
  [],
  [("msgtype", 1)],
  [("msgtype", 2), ("mask", "255.255.255.0"), ("routers", ["10.0.0.1"]), ("dns", ["10.0.0.1", "10.0.0.2"]),
   ("lease", 3600), ("server", "10.0.0.1"), ("t1", 1800), ("t2", 3150), ("bcast", "10.0.0.255"),
   ("domain", b"lan"), ("host", b"h1")],
  [("msgtype", 3), ("request_ip", "10.0.0.7"), ("params", [1, 3, 6, 15]), ("raw", 61, b"\x01\x02\x11\x22\x33\x44\x55")],
  [("vendor", pattern(255))],                                       # longest single option
  [("errmsg", b"no")],
  # every address-list option class in one message, different lengths (a parser must keep the lists apart)
  [("routers", ["10.0.0.1", "10.0.0.2"]), ("timesrv", ["10.0.0.3"]), ("dns", ["10.0.0.4", "10.0.0.5", "10.0.0.6"]),
   ("mask", "255.255.255.0"), ("bcast", "10.0.0.255"), ("lease", 3600)],
  [("dns", ["8.8.8.8"]), ("routers", ["10.0.0.254"])],
]

def _dhcp_options (P, opts):
  D = P.dhcp
  out = []
  for o in opts:
    k = o[0]
    if k == "msgtype": out.append(D.DHCPMsgTypeOption(o[1]))
    elif k == "mask": out.append(D.DHCPSubnetMaskOption(o[1]))
    elif k == "routers": out.append(D.DHCPRoutersOption(o[1]))
    elif k == "dns": out.append(D.DHCPDNSServersOption(o[1]))
    elif k == "timesrv": out.append(D.DHCPTimeServersOption(o[1]))
    elif k == "lease": out.append(D.DHCPIPAddressLeaseTimeOption(o[1]))
    elif k == "server": out.append(D.DHCPServerIdentifierOption(o[1]))
    elif k == "t1": out.append(D.DHCPRenewalTimeOption(o[1]))
    elif k == "t2": out.append(D.DHCPRebindingTimeOption(o[1]))
    elif k == "bcast": out.append(D.DHCPBroadcastAddressOption(o[1]))
    elif k == "domain": out.append(D.DHCPDomainNameOption(o[1]))
    elif k == "host": out.append(D.DHCPHostNameOption(o[1]))
    elif k == "request_ip": out.append(D.DHCPRequestIPOption(o[1]))
    elif k == "params": out.append(D.DHCPParameterRequestOption(list(o[1])))
    elif k == "vendor": out.append(D.DHCPVendorOption(o[1]))
    elif k == "errmsg": out.append(D.DHCPErrorMessageOption(o[1]))
    elif k == "raw":
      r = D.DHCPRawOption(o[2]); r.CODE = o[1]; out.append(r)
  return out

DNS_SECTIONS = [
  dict(q=[], an=[], ns=[], ar=[]),
  dict(q=[("www.example.com", 1, 1)], an=[], ns=[], ar=[]),
  dict(q=[("www.example.com", 1, 1), ("mail.example.com", 28, 1)], an=[], ns=[], ar=[]),      # shared suffix
  dict(q=[("www.example.com", 1, 1)], an=[("www.example.com", 1, 1, 300, ("A", "10.0.0.1"))], ns=[], ar=[]),
  dict(q=[("example.com", 255, 1)],
       an=[("example.com", 5, 1, 60, ("NAME", "web.example.com")), ("web.example.com", 28, 1, 0xffffffff, ("AAAA", "2001:db8::1")),
           ("example.com", 16, 1, 0, ("RAW", b"\x05hello"))],
       ns=[("example.com", 2, 1, 1, ("NAME", "ns.example.com"))], ar=[("ns.example.com", 1, 1, 1, ("A", "10.0.0.53"))]),
]

def _dns_sections (P, o, s):
  D = P.pkt.dns
  def rr (t):
    name, qt, qc, ttl, (k, val) = t
    if k == "A": val = P.IPAddr(val)
    elif k == "AAAA": val = P.IPAddr6(val)
    return D.rr(name, qt, qc, ttl, 0, val)
  o.questions = [D.question(*q) for q in s["q"]]
  o.answers = [rr(t) for t in s["an"]]
  o.authorities = [rr(t) for t in s["ns"]]
  o.additional = [rr(t) for t in s["ar"]]

RIP_ENTRIES = [
  [("10.1.0.0", 16, "0.0.0.0", 1)],
  [("0.0.0.0", 0, "0.0.0.0", 16)],                                   # default route, infinity
  [("255.255.255.255", 32, "255.255.255.255", 1)],
  [("10.1.0.0", 16, "10.0.0.1", 1), ("192.168.7.0", 24, "10.0.0.2", 15)],
  [("10.%d.0.0" % i, 16, "10.0.0.1", 1 + i % 15) for i in range(25)],    # the maximum of 25 entries
  [("10.1.0.0", "mask:255.255.0.0", "0.0.0.0", 1)],                  # netmask given as an address
  [("10.1.0.0", 16, "0.0.0.0", 0xffffffff)],                          # metric field is 32 bits wide
]

def _rip_entries (P, ents):
  out = []
  for ip, mask, nh, metric in ents:
    kw = dict(address_family=2, route_tag=0x1234, ip=P.IPAddr(ip), next_hop=P.IPAddr(nh), metric=metric)
    if isinstance(mask, str): kw["netmask"] = P.IPAddr(mask[5:])
    else: kw["netmask"] = mask
    out.append(P.rip.RIPEntry(**kw))
  return out

IGMP_RECORDS = [
  [],
  [(4, "239.1.2.3", [], b"")],
  [(1, "239.1.2.3", ["10.0.0.1", "10.0.0.2"], b""), (6, "224.0.0.251", [], b"\x01\x02\x03\x04")],
]

def _igmp_records (P, recs):
  return [P.igmp.GroupRecord(type=t, address=P.IPAddr(a), source_addresses=[P.IPAddr(s) for s in srcs], aux=aux)
          for t, a, srcs, aux in recs]

IP6_EXT = [
  [],
  [("hbh", b"\x01\x04\x00\x00\x00\x00")],
  [("dst", b"\x01\x04\x00\x00\x00\x00")],
  [("rt", b"\x00\x00\x00\x00\x00\x00")],
  [("frag", b"\x00\x00\x00\x00\x00\x00\x07")],
  [("hbh", b"\x05\x02\x00\x00\x01\x00"), ("dst", b"\x01\x0c" + b"\x00" * 12), ("rt", b"\x00\x00\x00\x00\x00\x00"),
   ("frag", b"\x00\x00\x00\x12\x34\x56\x78")],
]
_EXT_TYPE = dict(hbh=0, rt=43, frag=44, dst=60)

def _ip6_ext (P, exts, final_nh):
  cls = dict(hbh=P.ipv6.HopByHopOptions, rt=P.ipv6.Routing, frag=P.ipv6.Fragment, dst=P.ipv6.DestinationOptions)
  out = []
  kinds = [k for k, _ in exts]
  for i, (k, body) in enumerate(exts):
    nxt = _EXT_TYPE[kinds[i + 1]] if i + 1 < len(kinds) else final_nh
    if k == "frag": out.append(cls[k](raw_body=body, next_header_type=nxt))
    else: out.append(cls[k](raw_body=body, next_header_type=nxt, payload_length=len(body)))
  return out

ND_OPTS = [
  [],
  [("slla", "02:11:22:33:44:55")],
  [("tlla", "02:11:22:33:44:55")],
  [("mtu", 1500)],
  [("prefix", 64, True, True, 86400, 14400, "2001:db8::")],
  [("generic", 14, pattern(6))],
  [("slla", "02:11:22:33:44:55"), ("mtu", 1280), ("prefix", 128, False, False, 0xffffffff, 0, "::")],
]

def _nd_options (P, opts):
  I = P.icmp6
  out = []
  for o in opts:
    k = o[0]
    if k == "slla": out.append(I.NDOptSourceLinkLayerAddress(address=P.EthAddr(o[1])))
    elif k == "tlla": out.append(I.NDOptTargetLinkLayerAddress(address=P.EthAddr(o[1])))
    elif k == "mtu":
      m = I.NDOptMTU(); m.mtu = o[1]; out.append(m)
    elif k == "prefix":
      p = I.NDOptPrefixInformation()
      p.prefix_length, p.on_link, p.is_autonomous, p.valid_lifetime, p.preferred_lifetime = o[1:6]
      p.prefix = P.IPAddr6(o[6]); out.append(p)
    elif k == "generic":
      g = I.NDOptionGeneric(); g.TYPE = o[1]; g.raw = o[2]; out.append(g)
  return out


# --- header kinds ---------------------------------------------------------------------------
# fields: name -> [base, boundary values...]; the stack may pin a field with a one-element list.
# cmp: attributes compared between the built object (after pack) and the parsed object.

KINDS = {}

def kind (name, fields, cmp, make, cls):
  KINDS[name] = dict(fields=fields, cmp=cmp, make=make, cls=cls)

def _set (o, inner):
  if inner is not None: o.payload = inner
  return o

def _flat_len (inner):
  if inner is None: return 0
  if isinstance(inner, bytes): return len(inner)
  return len(inner.pack())

kind("eth", dict(dst=MACS, src=MACS2, type=[0x88b5]), ["dst", "src", "type"],
     lambda P, v, inner: _set(P.pkt.ethernet(dst=P.EthAddr(v["dst"]), src=P.EthAddr(v["src"]),
                                             type=_flat_len(inner) if v["type"] == "len" else v["type"]), inner),
     lambda P: P.pkt.ethernet)
kind("vlan", dict(pcp=[5, 0, 7], cfi=[0, 1], id=[0x123, 0, 1, 0xfff], eth_type=[0x88b5]), ["pcp", "cfi", "id", "eth_type"],
     lambda P, v, inner: _set(P.pkt.vlan(pcp=v["pcp"], cfi=v["cfi"], id=v["id"],
                                         eth_type=_flat_len(inner) if v["eth_type"] == "len" else v["eth_type"]), inner),
     lambda P: P.pkt.vlan)
# 802.2 control field: U format (low two bits of the first octet 11) is one octet; I (bit0 = 0) and S (01) formats are two
# octets, kept by the library as first | second << 8.  Every first octet class x second octet {0x00, 0x01, 0xff}: a second
# octet of 0x00 (N(R) = 0, P/F = 0) makes the numeric value <= 0xff although the field is two octets wide.
LLC_CONTROL2 = [b1 | (b2 << 8) for b1 in (0x00, 0x02, 0x01, 0x05, 0xfe, 0xfd) for b2 in (0x00, 0x01, 0xff)]
LLC_CONTROL = [0x03, 0xf3, 0xff] + LLC_CONTROL2 + [0x1210, 0x3401]
_llc_len = lambda control: 3 if (control & 3) == 3 else 4
kind("llc", dict(dsap=[0x42, 0x00, 0xff, 0xaa], ssap=[0x43, 0x00, 0x01, 0xfe, 0xff], control=LLC_CONTROL),
     ["dsap", "ssap", "control"],
     lambda P, v, inner: _set(P.pkt.llc(dsap=v["dsap"], ssap=v["ssap"], control=v["control"],
                                        length=_llc_len(v["control"])), inner),
     lambda P: P.pkt.llc)
kind("snap", dict(dsap=[0xaa, 0xab], ssap=[0xaa, 0xab], control=[0x03, 0xf3] + LLC_CONTROL2, oui=[b"\x00\x00\x0c", b"\x00\x00\x00", b"\xff\xff\xff"],
                  eth_type=[0x2000, 0, 0xffff, 0x88b5]), ["dsap", "ssap", "control", "oui", "eth_type"],
     lambda P, v, inner: _set(P.pkt.llc(dsap=v["dsap"], ssap=v["ssap"], control=v["control"], oui=v["oui"],
                                        eth_type=v["eth_type"], length=_llc_len(v["control"]) + 5), inner),
     lambda P: P.pkt.llc)
kind("arp", dict(hwtype=[1], prototype=[0x0800], hwlen=[6], protolen=[4], opcode=[1, 2, 3, 4, 0, 0xffff],
                 hwsrc=MACS, hwdst=MACS2, protosrc=IPS, protodst=IPS2),
     ["hwtype", "prototype", "hwlen", "protolen", "opcode", "hwsrc", "hwdst", "protosrc", "protodst"],
     lambda P, v, inner: _set(P.pkt.arp(hwtype=v["hwtype"], prototype=v["prototype"], hwlen=v["hwlen"], protolen=v["protolen"],
                                        opcode=v["opcode"], hwsrc=P.EthAddr(v["hwsrc"]), hwdst=P.EthAddr(v["hwdst"]),
                                        protosrc=P.IPAddr(v["protosrc"]), protodst=P.IPAddr(v["protodst"])), inner),
     lambda P: P.pkt.arp)
kind("mpls", dict(label=[0x12345, 0, 1, 0xfffff, 0x80000], tc=[5, 0, 7], s=[1], ttl=[64, 0, 1, 255]), ["label", "tc", "s", "ttl"],
     lambda P, v, inner: _set(P.pkt.mpls(label=v["label"], tc=v["tc"], s=v["s"], ttl=v["ttl"]), inner),
     lambda P: P.pkt.mpls)
kind("eapol", dict(version=[1, 2, 0, 255], type=[0]), ["version", "type", "bodylen"],
     lambda P, v, inner: _set(P.pkt.eapol(version=v["version"], type=v["type"], bodylen=_flat_len(inner)), inner),
     lambda P: P.pkt.eapol)
kind("eap", dict(code=[3, 4], id=U8(0x5a)), ["code", "id", "length"],
     lambda P, v, inner: _set(P.pkt.eap(code=v["code"], id=v["id"], length=4 + _flat_len(inner)), inner),
     lambda P: P.pkt.eap)

def _mk_lldp (P, v, inner):
  return _set(P.pkt.lldp(tlvs=_lldp_tlvs(P, v)), inner)
kind("lldp", dict(chassis_subtype=[4, 7, 1, 0, 255], chassis_id=[b"\x02\x11\x22\x33\x44\x55", b"c", pattern(255)],
                  port_subtype=[7, 3, 1, 0, 255], port_id=[b"eth0", b"p", pattern(255)], ttl=U16(120), tlvs=LLDP_TLVS),
     ["tlvs"], _mk_lldp, lambda P: P.pkt.lldp)

def _mk_ipv4 (P, v, inner):
  return _set(P.pkt.ipv4(tos=v["tos"], id=v["id"], flags=v["flags"], frag=v["frag"], ttl=v["ttl"], protocol=v["protocol"],
                         srcip=P.IPAddr(v["srcip"]), dstip=P.IPAddr(v["dstip"]), raw_options=v["options"],
                         hl=5 + len(v["options"]) // 4), inner)
kind("ipv4", dict(tos=U8(0xb8), id=U16(0x1234), flags=[2, 0, 1, 4, 7], frag=[0], ttl=[64, 0, 1, 255], protocol=[253],
                  srcip=IPS, dstip=IPS2, options=IP4_OPTS),
     ["v", "hl", "tos", "iplen", "id", "flags", "frag", "ttl", "protocol", "csum", "srcip", "dstip", "raw_options"],
     _mk_ipv4, lambda P: P.pkt.ipv4)

kind("udp", dict(srcport=PORTS(0x1234), dstport=PORTS(0x4321)), ["srcport", "dstport", "len", "csum"],
     lambda P, v, inner: _set(P.pkt.udp(srcport=v["srcport"], dstport=v["dstport"]), inner),
     lambda P: P.pkt.udp)

def _mk_tcp (P, v, inner):
  return _set(P.pkt.tcp(srcport=v["srcport"], dstport=v["dstport"], seq=v["seq"], ack=v["ack"], res=v["res"], flags=v["flags"],
                        win=v["win"], urg=v["urg"], options=_tcp_options(P, v["options"])), inner)
kind("tcp", dict(srcport=PORTS(0x9c40), dstport=PORTS(0x0050), seq=U32(0x01020304), ack=U32(0x05060708), res=[0, 0xf, 1],
                 flags=[0x18, 0, 0xff, 0x02, 0x11, 0xc0], win=U16(0x2000), urg=U16(0), options=TCP_OPTS),
     ["srcport", "dstport", "seq", "ack", "off", "res", "flags", "win", "csum", "urg", "options"],
     _mk_tcp, lambda P: P.pkt.tcp)

kind("icmp", dict(type=[13, 5, 4, 255, 17], code=U8(0)), ["type", "code", "csum"],
     lambda P, v, inner: _set(P.pkt.icmp(type=v["type"], code=v["code"]), inner),
     lambda P: P.pkt.icmp)
kind("echo", dict(id=U16(0xbeef), seq=U16(7)), ["id", "seq"],
     lambda P, v, inner: _set(P.icmp.echo(id=v["id"], seq=v["seq"]), inner),
     lambda P: P.icmp.echo)
kind("unreach", dict(unused=[0, 0xffff], next_mtu=U16(1400)), ["unused", "next_mtu"],
     lambda P, v, inner: _set(P.icmp.unreach(unused=v["unused"], next_mtu=v["next_mtu"]), inner),
     lambda P: P.icmp.unreach)
kind("time_exceeded", dict(unused=[0, 0xffffffff]), ["unused"],
     lambda P, v, inner: _set(P.icmp.time_exceeded(unused=v["unused"]), inner),
     lambda P: P.icmp.time_exceeded)

def _mk_igmp (P, v, inner):
  return P.pkt.igmp(ver_and_type=v["ver_and_type"], max_response_time=v["max_response_time"],
                         address=P.IPAddr(v["address"]), extra=v["extra"])
kind("igmp", dict(ver_and_type=[0x16, 0x11, 0x12, 0x17], max_response_time=U8(100), address=IPS2 + ["239.1.2.3"],
                  extra=[b"", b"\x02\x7d\x00\x00", b"\x00"]),
     ["ver_and_type", "max_response_time", "csum", "address", "extra"], _mk_igmp, lambda P: P.igmp.igmp)
kind("igmp3", dict(records=IGMP_RECORDS, extra=[b"", b"\x00\x00\x00\x00"]), ["ver_and_type", "csum", "group_records", "extra"],
     lambda P, v, inner: P.igmp.igmp(ver_and_type=0x22, group_records=_igmp_records(P, v["records"]), extra=v["extra"]),
     lambda P: P.igmp.igmp)

def _mk_gre (P, v, inner):
  kw = {}
  # the packing switches documented in the class docstring are only passed when asked for (they are class attributes)
  if v["compute_csum"]: kw["compute_csum"] = True
  if v["skip_csum"]: kw["skip_csum"] = True
  return _set(P.pkt.gre(type=v["type"], key=v["key"], seq=v["seq"], csum=v["csum"], strict_source_route=v["ssr"],
                            recursion=v["recursion"], routing=v["routing"], ver=v["ver"], **kw), inner)
# csum: None = no checksum, True = "compute it", a number = "emit this value" (0x1234 is deliberately not the right sum:
# it must come back as given).  compute_csum / skip_csum: the two documented switches that override .csum when packing.
kind("gre", dict(type=[0x88b5], key=[None, 0xdeadbeef, 0, 0xffffffff], seq=[None, 7, 0, 0xffffffff], csum=[None, True, 0x1234],
                 ssr=[False, True], recursion=[0, 1, 7], ver=[0, 1, 7], compute_csum=[False, True], skip_csum=[False, True],
                 routing=[None, [b"\x00\x00\x00\x00"], [b"\x08\x00\x00\x04\x0a\x00\x00\x02", b"\x00\x00\x00\x00"]]),
     ["type", "key", "seq", "csum", "strict_source_route", "recursion", "ver"], _mk_gre, lambda P: P.pkt.gre)
kind("vxlan", dict(vni=[0x123456, None, 0, 1, 0xffffff]), ["vni"],
     lambda P, v, inner: _set(P.pkt.vxlan(vni=v["vni"]), inner), lambda P: P.pkt.vxlan)

def _mk_dhcp (P, v, inner):
  o = P.pkt.dhcp(op=v["op"], htype=1, hlen=6, hops=v["hops"], xid=v["xid"], secs=v["secs"], flags=v["flags"],
                      ciaddr=P.IPAddr(v["ciaddr"]), yiaddr=P.IPAddr(v["yiaddr"]), siaddr=P.IPAddr(v["siaddr"]),
                      giaddr=P.IPAddr(v["giaddr"]), chaddr=P.EthAddr(v["chaddr"]),
                      sname=v["sname"].ljust(64, b"\0"), file=v["file"].ljust(128, b"\0"))
  for opt in _dhcp_options(P, v["options"]):
    o.add_option(opt)
  return o
kind("dhcp", dict(op=[1, 2, 0, 255], hops=U8(3), xid=U32(0x3903f326), secs=U16(9), flags=[0x8000, 0, 0xffff, 1], ciaddr=IPS, yiaddr=IPS2,
                  siaddr=["10.0.0.1", "0.0.0.0"], giaddr=["10.0.0.254", "0.0.0.0"], chaddr=MACS[:3],
                  sname=[b"", b"srv", pattern(64)], file=[b"", b"pxelinux.0", pattern(128)], options=DHCP_OPTS),
     ["op", "htype", "hlen", "hops", "xid", "secs", "flags", "ciaddr", "yiaddr", "siaddr", "giaddr", "chaddr", "sname", "file",
      "magic", "options"], _mk_dhcp, lambda P: P.pkt.dhcp)

def _mk_dns (P, v, inner):
  o = P.pkt.dns(id=v["id"], qr=v["qr"], opcode=v["opcode"], aa=v["aa"], tc=v["tc"], rd=v["rd"], ra=v["ra"], z=v["z"],
                    ad=v["ad"], cd=v["cd"], rcode=v["rcode"])
  _dns_sections(P, o, v["sections"])
  return o
B2 = [False, True]
kind("dns", dict(id=U16(0xbeef), qr=B2, opcode=[0, 1, 7, 15], aa=B2, tc=B2, rd=[True, False], ra=B2, z=B2, ad=B2, cd=B2,
                 rcode=[0, 3, 15], sections=DNS_SECTIONS),
     ["id", "qr", "opcode", "aa", "tc", "rd", "ra", "z", "ad", "cd", "rcode", "questions", "answers", "authorities", "additional"],
     _mk_dns, lambda P: P.pkt.dns)
kind("rip", dict(command=[2, 1, 0, 255], version=[2, 1, 0, 255], entries=RIP_ENTRIES), ["command", "version", "entries"],
     lambda P, v, inner: P.rip.rip(command=v["command"], version=v["version"], entries=_rip_entries(P, v["entries"])),
     lambda P: P.rip.rip)

def _mk_ipv6 (P, v, inner):
  ext = _ip6_ext(P, v["ext"], v["next_header_type"])
  nh = _EXT_TYPE[v["ext"][0][0]] if v["ext"] else v["next_header_type"]
  o = P.pkt.ipv6(tc=v["tc"], flow=v["flow"], hop_limit=v["hop_limit"], next_header_type=nh,
                      srcip=P.IPAddr6(v["srcip"]), dstip=P.IPAddr6(v["dstip"]), extension_headers=ext)
  if inner is None: o.next = None
  return _set(o, inner)
kind("ipv6", dict(tc=U8(0xb8), flow=[0x12345, 0, 1, 0xfffff, 0x80000], hop_limit=[64, 0, 1, 255], next_header_type=[253],
                  srcip=IP6A, dstip=IP6B, ext=IP6_EXT),
     ["v", "tc", "flow", "payload_length", "next_header_type", "hop_limit", "srcip", "dstip", "extension_headers"],
     _mk_ipv6, lambda P: P.pkt.ipv6)

kind("icmpv6", dict(type=[131, 130, 255, 4, 137], code=U8(0)), ["type", "code", "csum"],
     lambda P, v, inner: _set(P.pkt.icmpv6(type=v["type"], code=v["code"]), inner), lambda P: P.icmp6.icmpv6)
kind("echo6", dict(id=U16(0xbeef), seq=U16(7)), ["id", "seq"],
     lambda P, v, inner: _set(P.icmp6.echo(id=v["id"], seq=v["seq"]), inner), lambda P: P.icmp6.echo)
kind("unreach6", dict(unused=[0, 0xffffffff]), ["unused"],
     lambda P, v, inner: _set(P.icmp6.unreach(unused=v["unused"]), inner), lambda P: P.icmp6.unreach)
kind("toobig6", dict(mtu=U32(1280)), ["mtu"],
     lambda P, v, inner: _set(P.icmp6.PacketTooBig(mtu=v["mtu"]), inner), lambda P: P.icmp6.PacketTooBig)
kind("timex6", dict(), [],
     lambda P, v, inner: _set(P.icmp6.TimeExceeded(), inner), lambda P: P.icmp6.TimeExceeded)
kind("nd_rs", dict(options=ND_OPTS[:2] + ND_OPTS[5:6]), ["options"],
     lambda P, v, inner: P.icmp6.NDRouterSolicitation(options=_nd_options(P, v["options"])), lambda P: P.icmp6.NDRouterSolicitation)
kind("nd_ra", dict(hop_limit=U8(64), is_managed=B2, is_other=B2, lifetime=U16(1800), reachable=U32(30000), retrans_timer=U32(1000),
                   options=[ND_OPTS[0], ND_OPTS[1], ND_OPTS[3], ND_OPTS[4], ND_OPTS[6]]),
     ["hop_limit", "is_managed", "is_other", "lifetime", "reachable", "retrans_timer", "options"],
     lambda P, v, inner: P.icmp6.NDRouterAdvertisement(hop_limit=v["hop_limit"], is_managed=v["is_managed"], is_other=v["is_other"],
                                                       lifetime=v["lifetime"], reachable=v["reachable"],
                                                       retrans_timer=v["retrans_timer"], options=_nd_options(P, v["options"])),
     lambda P: P.icmp6.NDRouterAdvertisement)
kind("nd_ns", dict(target=IP6B, options=ND_OPTS[:2] + ND_OPTS[5:6]), ["target", "options"],
     lambda P, v, inner: P.icmp6.NDNeighborSolicitation(target=P.IPAddr6(v["target"]), options=_nd_options(P, v["options"])),
     lambda P: P.icmp6.NDNeighborSolicitation)
kind("nd_na", dict(target=IP6B, is_router=B2, is_solicited=[True, False], is_override=B2, options=[ND_OPTS[0], ND_OPTS[2]]),
     ["target", "is_router", "is_solicited", "is_override", "options"],
     lambda P, v, inner: P.icmp6.NDNeighborAdvertisement(target=P.IPAddr6(v["target"]), is_router=v["is_router"],
                                                         is_solicited=v["is_solicited"], is_override=v["is_override"],
                                                         options=_nd_options(P, v["options"])),
     lambda P: P.icmp6.NDNeighborAdvertisement)


# --- stacks -----------------------------------------------------------------------------------
# A stack is a list of (kind, pins) outermost first; pins fix/override field domains of that layer
# (one-element list = fixed).  payload: "raw" (pattern bytes of every length in plens) or None.

SMALL = [0, 1, 2, 3, 17, 18, 1499, 1500]
FULL = list(range(0, 1501))
LLCP = [0, 1, 2, 3, 17, 18, 1491, 1492]      # 802.3 length field <= 1500 including LLC/SNAP header

STACKS = {}
ORDER = []

def stack (name, layers, payload="raw", plens=SMALL, vlan=True):
  zc = payload == "raw" and len(layers) >= 2 and layers[-1][0] == "udp" and layers[-2][0] in ("ipv4", "ipv6")
  STACKS[name] = dict(name=name, layers=layers, payload=payload, plens=plens if payload else [0], zero_csum=zc)
  ORDER.append(name)
  if vlan:
    # the same stack behind an 802.1Q tag (the tag takes over the ethertype of the Ethernet header)
    l0 = layers[0]
    assert l0[0] == "eth"
    et = l0[1].get("type", [0x88b5])
    vl = [("eth", dict(l0[1], type=[0x8100])), ("vlan", dict(eth_type=et))] + list(layers[1:])
    STACKS["vlan:" + name] = dict(name="vlan:" + name, layers=vl, payload=payload, plens=plens if payload else [0],
                                  zero_csum=zc)
    ORDER.append("vlan:" + name)

E = lambda t: ("eth", dict(type=[t] if not isinstance(t, list) else t))
I4 = lambda p, **kw: ("ipv4", dict(protocol=[p] if not isinstance(p, list) else p, **kw))
I6 = lambda nh, **kw: ("ipv6", dict(next_header_type=[nh] if not isinstance(nh, list) else nh, **kw))
UDP = lambda sp=None, dp=None: ("udp", dict(([("srcport", [sp])] if sp else []) + ([("dstport", [dp])] if dp else [])))
INNER4 = ("ipv4", dict(protocol=[17], srcip=["192.168.0.1"], dstip=["192.168.0.2"], id=[0x4321], options=[b""]))

stack("eth/raw", [E([0x88b5, 0x0600, 0xffff, 0x9100, 0x8864])])
stack("eth/llc", [E("len"), ("llc", {})], plens=LLCP)
stack("eth/snap", [E("len"), ("snap", {})], plens=LLCP)
stack("eth/snap/ipv4/udp", [E("len"), ("snap", dict(oui=[b"\x00\x00\x00"], eth_type=[0x0800], dsap=[0xaa], ssap=[0xaa])),
                            I4(17, options=[b""]), UDP()], plens=[0, 1, 18, 1400], vlan=False)
stack("eth/qinq/raw", [E(0x8100), ("vlan", dict(eth_type=[0x8100])), ("vlan", dict(eth_type=[0x88b5], id=[0x456, 0, 0xfff]))], vlan=False)
stack("eth/arp", [E([0x0806, 0x8035]), ("arp", {})], plens=[0, 1, 18])
stack("eth/mpls", [E([0x8847, 0x8848]), ("mpls", {})])
stack("eth/mpls/mpls", [E(0x8847), ("mpls", dict(s=[0], label=[16, 0, 0xfffff])), ("mpls", {})], plens=[0, 1, 4, 18], vlan=False)
stack("eth/eapol-start", [E(0x888e), ("eapol", dict(type=[1, 2]))], payload=None)
stack("eth/eapol-key", [E(0x888e), ("eapol", dict(type=[3, 4]))], plens=[1, 18], vlan=False)
stack("eth/eapol/eap", [E(0x888e), ("eapol", {}), ("eap", {})], payload=None)
stack("eth/eapol/eap-request", [E(0x888e), ("eapol", {}), ("eap", dict(code=[1, 2]))], plens=[1, 6], vlan=False)
stack("eth/lldp", [E(0x88cc), ("lldp", {})], payload=None)

stack("eth/ipv4/raw", [E(0x0800), I4([253, 0, 255, 4, 41])])
stack("eth/ipv4-frag/raw", [E(0x0800), I4([17, 6, 1], frag=[185, 1, 0x1fff], flags=[1, 0])], plens=[0, 8, 9], vlan=False)
stack("eth/ipv4/udp", [E(0x0800), I4(17), UDP()], plens=FULL)
stack("eth/ipv4/tcp", [E(0x0800), I4(6), ("tcp", {})], plens=FULL)
stack("eth/ipv4/icmp/raw", [E(0x0800), I4(1), ("icmp", {})])
stack("eth/ipv4/icmp/echo", [E(0x0800), I4(1), ("icmp", dict(type=[8, 0], code=[0])), ("echo", {})], plens=FULL)
stack("eth/ipv4/icmp/unreach/raw", [E(0x0800), I4(1), ("icmp", dict(type=[3], code=[3, 0, 1, 2, 4, 5, 13])), ("unreach", {})],
      plens=[0, 1, 8, 23], vlan=False)
stack("eth/ipv4/icmp/unreach/ipv4/udp", [E(0x0800), I4(1), ("icmp", dict(type=[3], code=[3, 4])), ("unreach", {}), INNER4, UDP()],
      plens=[0, 8], vlan=False)
stack("eth/ipv4/icmp/time_exceeded/raw", [E(0x0800), I4(1), ("icmp", dict(type=[11], code=[0, 1])), ("time_exceeded", {})],
      plens=[0, 1, 8, 23], vlan=False)
stack("eth/ipv4/icmp/time_exceeded/ipv4/udp", [E(0x0800), I4(1), ("icmp", dict(type=[11], code=[0, 1])), ("time_exceeded", {}),
                                                INNER4, UDP()], plens=[0, 8], vlan=False)
# ICMP errors quoting a datagram with IP options / a TCP segment (the complete datagram here; c14's undecodable-payload phase
# derives every truncation of the quote from these stacks, among them the RFC 792 form "IP header + 8 bytes")
INNER4Q = lambda proto: ("ipv4", dict(protocol=[proto], srcip=["192.168.0.1"], dstip=["192.168.0.2"], id=[0x4321],
                                      options=[b"", b"\x94\x04\x00\x00", b"\x01\x01\x01\x00"]))
QTCP = ("tcp", dict(options=[TCP_OPTS[0], TCP_OPTS[1]]))
for _nm, _t, _codes in (("unreach", 3, [3, 1]), ("time_exceeded", 11, [0, 1])):
  stack("eth/ipv4/icmp/%s/ipv4-opts/udp" % _nm, [E(0x0800), I4(1), ("icmp", dict(type=[_t], code=_codes)), (_nm, {}), INNER4Q(17), UDP()],
        plens=[0, 30], vlan=False)
  stack("eth/ipv4/icmp/%s/ipv4-opts/tcp" % _nm, [E(0x0800), I4(1), ("icmp", dict(type=[_t], code=_codes)), (_nm, {}), INNER4Q(6), QTCP],
        plens=[0, 30], vlan=False)
stack("eth/ipv4/igmp", [E(0x0800), I4(2, ttl=[1]), ("igmp", {})], payload=None)
stack("eth/ipv4/igmp3", [E(0x0800), I4(2, ttl=[1]), ("igmp3", {})], payload=None, vlan=False)
stack("eth/ipv4/gre/raw", [E(0x0800), I4(47), ("gre", {})])
stack("eth/ipv4/gre/ipv4/udp", [E(0x0800), I4(47), ("gre", dict(type=[0x0800], routing=[None])), INNER4, UDP()],
      plens=[0, 1, 18, 1400], vlan=False)
stack("eth/ipv4/gre/eth/ipv4/udp", [E(0x0800), I4(47), ("gre", dict(type=[0x6558], routing=[None])), E(0x0800), INNER4, UDP()],
      plens=[0, 1, 18, 1400], vlan=False)
stack("eth/ipv4/udp/vxlan/eth/raw", [E(0x0800), I4(17), UDP(None, 4789), ("vxlan", {}), E(0x88b5)], plens=[0, 1, 18, 1400], vlan=False)
stack("eth/ipv4/udp/vxlan/eth/ipv4/udp", [E(0x0800), I4(17), UDP(4789, None), ("vxlan", {}), E(0x0800), INNER4, UDP()],
      plens=[0, 1, 18], vlan=False)
stack("eth/ipv4/udp/dhcp", [E(0x0800), I4(17), ("udp", dict(srcport=[68, 67], dstport=[67, 68])), ("dhcp", {})], payload=None)
stack("eth/ipv4/udp/dns", [E(0x0800), I4(17), ("udp", dict(srcport=[0x9c40, 53, 5353], dstport=[53, 5353])), ("dns", {})], payload=None)
stack("eth/ipv4/udp/rip", [E(0x0800), I4(17), UDP(520, 520), ("rip", {})], payload=None)

stack("eth/ipv6/raw", [E(0x86dd), I6([253, 255, 41], ext=[[]])])
stack("eth/ipv6/none", [E(0x86dd), I6(59)], payload=None)
stack("eth/ipv6/udp", [E(0x86dd), I6(17), UDP()])
stack("eth/ipv6/tcp", [E(0x86dd), I6(6), ("tcp", {})])
stack("eth/ipv6/udp/dns", [E(0x86dd), I6(17, ext=[[]]), UDP(None, 53), ("dns", dict(sections=DNS_SECTIONS[:2]))], payload=None, vlan=False)
stack("eth/ipv6/icmpv6/raw", [E(0x86dd), I6(58, ext=[[]]), ("icmpv6", {})])
stack("eth/ipv6/icmpv6/echo", [E(0x86dd), I6(58, ext=[[]]), ("icmpv6", dict(type=[128, 129], code=[0])), ("echo6", {})])
stack("eth/ipv6/icmpv6/unreach/raw", [E(0x86dd), I6(58, ext=[[]]), ("icmpv6", dict(type=[1], code=[0, 4, 7])), ("unreach6", {})],
      plens=[0, 2, 40], vlan=False)
stack("eth/ipv6/icmpv6/toobig", [E(0x86dd), I6(58, ext=[[]]), ("icmpv6", dict(type=[2], code=[0])), ("toobig6", {})],
      plens=[0, 2, 40], vlan=False)
stack("eth/ipv6/icmpv6/timex", [E(0x86dd), I6(58, ext=[[]]), ("icmpv6", dict(type=[3], code=[0, 1])), ("timex6", {})],
      plens=[0, 2, 40], vlan=False)
# the ICMPv6 destination-unreachable parser decodes the quoted IPv6 datagram (time exceeded / packet too big keep it as bytes)
INNER6 = lambda nh: ("ipv6", dict(next_header_type=[nh], srcip=["2001:db8::7"], dstip=["2001:db8::8"], ext=[[]]))
stack("eth/ipv6/icmpv6/unreach/ipv6/udp", [E(0x86dd), I6(58, ext=[[]]), ("icmpv6", dict(type=[1], code=[0, 4])), ("unreach6", {}),
                                           INNER6(17), UDP()], plens=[0, 30], vlan=False)
stack("eth/ipv6/icmpv6/unreach/ipv6/tcp", [E(0x86dd), I6(58, ext=[[]]), ("icmpv6", dict(type=[1], code=[0, 4])), ("unreach6", {}),
                                           INNER6(6), QTCP], plens=[0, 30], vlan=False)
ND6 = lambda t: [E(0x86dd), I6(58, ext=[[]], hop_limit=[255]), ("icmpv6", dict(type=[t], code=[0]))]
stack("eth/ipv6/icmpv6/nd_rs", ND6(133) + [("nd_rs", {})], payload=None, vlan=False)
stack("eth/ipv6/icmpv6/nd_ra", ND6(134) + [("nd_ra", {})], payload=None, vlan=False)
stack("eth/ipv6/icmpv6/nd_ns", ND6(135) + [("nd_ns", {})], payload=None, vlan=False)
stack("eth/ipv6/icmpv6/nd_na", ND6(136) + [("nd_na", {})], payload=None, vlan=False)


def domain (st):
  """[(layer index, field, [values])] of a stack, with the stack's pins applied."""
  out = []
  for li, (k, pins) in enumerate(st["layers"]):
    for f, vals in KINDS[k]["fields"].items():
      out.append((li, f, list(pins.get(f, vals))))
  return out


def deviations (st):
  """All single deviations [(layer index, field, alt index>=1)] in table order."""
  return [(li, f, ai) for li, f, vals in domain(st) for ai in range(1, len(vals))]


def values (st, devs):
  """Per-layer field values of the case: base vector with the given deviations applied."""
  vs = []
  for li, (k, pins) in enumerate(st["layers"]):
    vs.append({f: pins.get(f, vals)[0] for f, vals in KINDS[k]["fields"].items()})
  for li, f, ai in devs:
    k, pins = st["layers"][li]
    vs[li][f] = pins.get(f, KINDS[k]["fields"][f])[ai]
  return vs


def zero_checksum_payload (st, vs):
  """Two payload bytes for a .../ip/udp stack such that the RFC 768 checksum of the UDP datagram computes
  to 0x0000 (which must then be transmitted as 0xffff)."""
  kinds = [k for k, _ in st["layers"]]
  assert kinds[-1] == "udp" and kinds[-2] in ("ipv4", "ipv6")
  ipv, u = vs[-2], vs[-1]
  if kinds[-2] == "ipv4": ph = R.pseudo4(ip4(ipv["srcip"]), ip4(ipv["dstip"]), 17, 10)
  else: ph = R.pseudo6(ip6(ipv["srcip"]), ip6(ipv["dstip"]), 17, 10)
  s0 = R.ones_sum(ph + struct.pack("!HHHH", u["srcport"], u["dstport"], 10, 0))
  return struct.pack("!H", 0xffff - s0)


def build (P, st, devs, plen):
  """Assemble the packet with the POX classes.  Returns (outermost object, [objects outermost
  first], [per-layer value dicts], payload bytes or None)."""
  vs = values(st, devs)
  if plen < 0: payload = zero_checksum_payload(st, vs)
  else: payload = pattern(plen) if st["payload"] else None
  inner = payload
  objs = []
  for (k, pins), v in reversed(list(zip(st["layers"], vs))):
    inner = KINDS[k]["make"](P, v, inner)
    objs.append(inner)
  objs.reverse()
  return inner, objs, vs, payload
