"""OpenFlow 1.0.0 wire structures (protocol version 0x01) and a reference encoder.

Transcribed from the OpenFlow Switch Specification 1.0.0 (appendix A, openflow.h) as
(field name, struct format) tables, plus the part of Open vSwitch's nicira-ext.h whose
layout can be stated with certainty.  Nothing here imports or calls POX: the only
dependency is the standard `struct` module.  All integers are big-endian on the wire.

A format is a `struct` format ("B", "H", "L", "Q", "6s", "16s", "3x" ...) or the name of
another structure (nested by value).  Variable-length tails (the `[0]` arrays of the
specification) are not part of a structure; the composition helpers below append them and
fill the length fields the specification says cover them.

The encoder produces *pieces*: a list of (field path, bytes).  join(pieces) is the wire
image; first_diff(pieces, actual) names the first field in which an actual encoding
deviates from the specified layout.
"""
import struct

OFP_VERSION = 0x01
OFP_MAX_TABLE_NAME_LEN = 32
OFP_MAX_PORT_NAME_LEN = 16
OFP_ETH_ALEN = 6
DESC_STR_LEN = 256
SERIAL_NUM_LEN = 32
OFP_NO_BUFFER = 0xffffffff
OFPP_CONTROLLER = 0xfffd
OFPP_NONE = 0xffff

# enum ofp_type
OFPT = dict(
  HELLO=0, ERROR=1, ECHO_REQUEST=2, ECHO_REPLY=3, VENDOR=4,
  FEATURES_REQUEST=5, FEATURES_REPLY=6, GET_CONFIG_REQUEST=7, GET_CONFIG_REPLY=8, SET_CONFIG=9,
  PACKET_IN=10, FLOW_REMOVED=11, PORT_STATUS=12,
  PACKET_OUT=13, FLOW_MOD=14, PORT_MOD=15,
  STATS_REQUEST=16, STATS_REPLY=17,
  BARRIER_REQUEST=18, BARRIER_REPLY=19,
  QUEUE_GET_CONFIG_REQUEST=20, QUEUE_GET_CONFIG_REPLY=21,
)

# enum ofp_action_type
OFPAT = dict(
  OUTPUT=0, SET_VLAN_VID=1, SET_VLAN_PCP=2, STRIP_VLAN=3, SET_DL_SRC=4, SET_DL_DST=5,
  SET_NW_SRC=6, SET_NW_DST=7, SET_NW_TOS=8, SET_TP_SRC=9, SET_TP_DST=10, ENQUEUE=11,
  VENDOR=0xffff,
)

# enum ofp_stats_types
OFPST = dict(DESC=0, FLOW=1, AGGREGATE=2, TABLE=3, PORT=4, QUEUE=5, VENDOR=0xffff)

# enum ofp_queue_properties
OFPQT = dict(NONE=0, MIN_RATE=1)

# enum ofp_flow_wildcards
OFPFW_IN_PORT = 1 << 0
OFPFW_DL_VLAN = 1 << 1
OFPFW_DL_SRC = 1 << 2
OFPFW_DL_DST = 1 << 3
OFPFW_DL_TYPE = 1 << 4
OFPFW_NW_PROTO = 1 << 5
OFPFW_TP_SRC = 1 << 6
OFPFW_TP_DST = 1 << 7
OFPFW_NW_SRC_SHIFT = 8
OFPFW_NW_SRC_BITS = 6
OFPFW_NW_SRC_MASK = ((1 << OFPFW_NW_SRC_BITS) - 1) << OFPFW_NW_SRC_SHIFT
OFPFW_NW_SRC_ALL = 32 << OFPFW_NW_SRC_SHIFT
OFPFW_NW_DST_SHIFT = 14
OFPFW_NW_DST_BITS = 6
OFPFW_NW_DST_MASK = ((1 << OFPFW_NW_DST_BITS) - 1) << OFPFW_NW_DST_SHIFT
OFPFW_NW_DST_ALL = 32 << OFPFW_NW_DST_SHIFT
OFPFW_DL_VLAN_PCP = 1 << 20
OFPFW_NW_TOS = 1 << 21
OFPFW_ALL = (1 << 22) - 1

# ---------------------------------------------------------------------------------------
# structures
# ---------------------------------------------------------------------------------------
STRUCTS = {
  'ofp_header': (('version', 'B'), ('type', 'B'), ('length', 'H'), ('xid', 'L')),

  'ofp_phy_port': (('port_no', 'H'), ('hw_addr', '6s'), ('name', '16s'), ('config', 'L'),
                   ('state', 'L'), ('curr', 'L'), ('advertised', 'L'), ('supported', 'L'),
                   ('peer', 'L')),

  'ofp_packet_queue': (('queue_id', 'L'), ('len', 'H'), ('pad', '2x')),
  'ofp_queue_prop_header': (('property', 'H'), ('len', 'H'), ('pad', '4x')),
  'ofp_queue_prop_min_rate': (('prop_header', 'ofp_queue_prop_header'), ('rate', 'H'),
                              ('pad', '6x')),

  'ofp_match': (('wildcards', 'L'), ('in_port', 'H'), ('dl_src', '6s'), ('dl_dst', '6s'),
                ('dl_vlan', 'H'), ('dl_vlan_pcp', 'B'), ('pad1', '1x'), ('dl_type', 'H'),
                ('nw_tos', 'B'), ('nw_proto', 'B'), ('pad2', '2x'), ('nw_src', 'L'),
                ('nw_dst', 'L'), ('tp_src', 'H'), ('tp_dst', 'H')),

  # actions
  'ofp_action_header': (('type', 'H'), ('len', 'H'), ('pad', '4x')),
  'ofp_action_output': (('type', 'H'), ('len', 'H'), ('port', 'H'), ('max_len', 'H')),
  'ofp_action_vlan_vid': (('type', 'H'), ('len', 'H'), ('vlan_vid', 'H'), ('pad', '2x')),
  'ofp_action_vlan_pcp': (('type', 'H'), ('len', 'H'), ('vlan_pcp', 'B'), ('pad', '3x')),
  'ofp_action_dl_addr': (('type', 'H'), ('len', 'H'), ('dl_addr', '6s'), ('pad', '6x')),
  'ofp_action_nw_addr': (('type', 'H'), ('len', 'H'), ('nw_addr', 'L')),
  'ofp_action_nw_tos': (('type', 'H'), ('len', 'H'), ('nw_tos', 'B'), ('pad', '3x')),
  'ofp_action_tp_port': (('type', 'H'), ('len', 'H'), ('tp_port', 'H'), ('pad', '2x')),
  'ofp_action_enqueue': (('type', 'H'), ('len', 'H'), ('port', 'H'), ('pad', '6x'),
                         ('queue_id', 'L')),
  'ofp_action_vendor_header': (('type', 'H'), ('len', 'H'), ('vendor', 'L')),

  # messages (each starts with the header)
  'ofp_hello': (('header', 'ofp_header'),),
  'ofp_error_msg': (('header', 'ofp_header'), ('type', 'H'), ('code', 'H')),
  'ofp_echo': (('header', 'ofp_header'),),
  'ofp_vendor_header': (('header', 'ofp_header'), ('vendor', 'L')),
  'ofp_switch_features': (('header', 'ofp_header'), ('datapath_id', 'Q'), ('n_buffers', 'L'),
                          ('n_tables', 'B'), ('pad', '3x'), ('capabilities', 'L'),
                          ('actions', 'L')),
  'ofp_switch_config': (('header', 'ofp_header'), ('flags', 'H'), ('miss_send_len', 'H')),
  'ofp_packet_in': (('header', 'ofp_header'), ('buffer_id', 'L'), ('total_len', 'H'),
                    ('in_port', 'H'), ('reason', 'B'), ('pad', '1x')),
  'ofp_flow_removed': (('header', 'ofp_header'), ('match', 'ofp_match'), ('cookie', 'Q'),
                       ('priority', 'H'), ('reason', 'B'), ('pad', '1x'),
                       ('duration_sec', 'L'), ('duration_nsec', 'L'), ('idle_timeout', 'H'),
                       ('pad2', '2x'), ('packet_count', 'Q'), ('byte_count', 'Q')),
  'ofp_port_status': (('header', 'ofp_header'), ('reason', 'B'), ('pad', '7x'),
                      ('desc', 'ofp_phy_port')),
  'ofp_packet_out': (('header', 'ofp_header'), ('buffer_id', 'L'), ('in_port', 'H'),
                     ('actions_len', 'H')),
  'ofp_flow_mod': (('header', 'ofp_header'), ('match', 'ofp_match'), ('cookie', 'Q'),
                   ('command', 'H'), ('idle_timeout', 'H'), ('hard_timeout', 'H'),
                   ('priority', 'H'), ('buffer_id', 'L'), ('out_port', 'H'), ('flags', 'H')),
  'ofp_port_mod': (('header', 'ofp_header'), ('port_no', 'H'), ('hw_addr', '6s'),
                   ('config', 'L'), ('mask', 'L'), ('advertise', 'L'), ('pad', '4x')),
  'ofp_stats_request': (('header', 'ofp_header'), ('type', 'H'), ('flags', 'H')),
  'ofp_stats_reply': (('header', 'ofp_header'), ('type', 'H'), ('flags', 'H')),
  'ofp_queue_get_config_request': (('header', 'ofp_header'), ('port', 'H'), ('pad', '2x')),
  'ofp_queue_get_config_reply': (('header', 'ofp_header'), ('port', 'H'), ('pad', '6x')),

  # statistics bodies
  'ofp_desc_stats': (('mfr_desc', '256s'), ('hw_desc', '256s'), ('sw_desc', '256s'),
                     ('serial_num', '32s'), ('dp_desc', '256s')),
  'ofp_flow_stats_request': (('match', 'ofp_match'), ('table_id', 'B'), ('pad', '1x'),
                             ('out_port', 'H')),
  'ofp_flow_stats': (('length', 'H'), ('table_id', 'B'), ('pad', '1x'), ('match', 'ofp_match'),
                     ('duration_sec', 'L'), ('duration_nsec', 'L'), ('priority', 'H'),
                     ('idle_timeout', 'H'), ('hard_timeout', 'H'), ('pad2', '6x'),
                     ('cookie', 'Q'), ('packet_count', 'Q'), ('byte_count', 'Q')),
  'ofp_aggregate_stats_request': (('match', 'ofp_match'), ('table_id', 'B'), ('pad', '1x'),
                                  ('out_port', 'H')),
  'ofp_aggregate_stats_reply': (('packet_count', 'Q'), ('byte_count', 'Q'), ('flow_count', 'L'),
                                ('pad', '4x')),
  'ofp_table_stats': (('table_id', 'B'), ('pad', '3x'), ('name', '32s'), ('wildcards', 'L'),
                      ('max_entries', 'L'), ('active_count', 'L'), ('lookup_count', 'Q'),
                      ('matched_count', 'Q')),
  'ofp_port_stats_request': (('port_no', 'H'), ('pad', '6x')),
  'ofp_port_stats': (('port_no', 'H'), ('pad', '6x'), ('rx_packets', 'Q'), ('tx_packets', 'Q'),
                     ('rx_bytes', 'Q'), ('tx_bytes', 'Q'), ('rx_dropped', 'Q'),
                     ('tx_dropped', 'Q'), ('rx_errors', 'Q'), ('tx_errors', 'Q'),
                     ('rx_frame_err', 'Q'), ('rx_over_err', 'Q'), ('rx_crc_err', 'Q'),
                     ('collisions', 'Q')),
  'ofp_queue_stats_request': (('port_no', 'H'), ('pad', '2x'), ('queue_id', 'L')),
  'ofp_queue_stats': (('port_no', 'H'), ('pad', '2x'), ('queue_id', 'L'), ('tx_bytes', 'Q'),
                      ('tx_packets', 'Q'), ('tx_errors', 'Q')),
  'ofp_vendor_stats': (('vendor', 'L'),),
  'ofp_empty': (),

  # ---- Nicira extensions (nicira-ext.h); only layouts stated with certainty -----------
  'nicira_header': (('header', 'ofp_header'), ('vendor', 'L'), ('subtype', 'L')),
  'nx_role_request': (('nxh', 'nicira_header'), ('role', 'L')),
  'nx_set_packet_in_format': (('nxh', 'nicira_header'), ('format', 'L')),
  'nx_flow_mod_table_id': (('nxh', 'nicira_header'), ('set', 'B'), ('pad', '7x')),
  'nx_async_config': (('nxh', 'nicira_header'), ('packet_in_mask0', 'L'), ('packet_in_mask1', 'L'),
                      ('port_status_mask0', 'L'), ('port_status_mask1', 'L'),
                      ('flow_removed_mask0', 'L'), ('flow_removed_mask1', 'L')),
  'nx_flow_mod': (('nxh', 'nicira_header'), ('cookie', 'Q'), ('command', 'H'),
                  ('idle_timeout', 'H'), ('hard_timeout', 'H'), ('priority', 'H'),
                  ('buffer_id', 'L'), ('out_port', 'H'), ('flags', 'H'), ('match_len', 'H'),
                  ('zeros', '6x')),
  'nx_packet_in': (('nxh', 'nicira_header'), ('buffer_id', 'L'), ('total_len', 'H'),
                   ('reason', 'B'), ('table_id', 'B'), ('cookie', 'Q'), ('match_len', 'H'),
                   ('pad', '6x')),

  'nx_action_header': (('type', 'H'), ('len', 'H'), ('vendor', 'L'), ('subtype', 'H'),
                       ('pad', '6x')),
  'nx_action_resubmit': (('type', 'H'), ('len', 'H'), ('vendor', 'L'), ('subtype', 'H'),
                         ('in_port', 'H'), ('table', 'B'), ('pad', '3x')),
  'nx_action_set_tunnel': (('type', 'H'), ('len', 'H'), ('vendor', 'L'), ('subtype', 'H'),
                           ('pad', '2x'), ('tun_id', 'L')),
  'nx_action_set_tunnel64': (('type', 'H'), ('len', 'H'), ('vendor', 'L'), ('subtype', 'H'),
                             ('pad', '6x'), ('tun_id', 'Q')),
  'nx_action_reg_move': (('type', 'H'), ('len', 'H'), ('vendor', 'L'), ('subtype', 'H'),
                         ('n_bits', 'H'), ('src_ofs', 'H'), ('dst_ofs', 'H'), ('src', 'L'),
                         ('dst', 'L')),
  'nx_action_reg_load': (('type', 'H'), ('len', 'H'), ('vendor', 'L'), ('subtype', 'H'),
                         ('ofs_nbits', 'H'), ('dst', 'L'), ('value', 'Q')),
  'nx_action_output_reg': (('type', 'H'), ('len', 'H'), ('vendor', 'L'), ('subtype', 'H'),
                           ('ofs_nbits', 'H'), ('src', 'L'), ('max_len', 'H'), ('zero', '6x')),
  'nx_action_fin_timeout': (('type', 'H'), ('len', 'H'), ('vendor', 'L'), ('subtype', 'H'),
                            ('fin_idle_timeout', 'H'), ('fin_hard_timeout', 'H'),
                            ('pad', '2x')),
  'nx_action_controller': (('type', 'H'), ('len', 'H'), ('vendor', 'L'), ('subtype', 'H'),
                           ('max_len', 'H'), ('controller_id', 'H'), ('reason', 'B'),
                           ('zero', '1x')),
  'nx_action_learn': (('type', 'H'), ('len', 'H'), ('vendor', 'L'), ('subtype', 'H'),
                      ('idle_timeout', 'H'), ('hard_timeout', 'H'), ('priority', 'H'),
                      ('cookie', 'Q'), ('flags', 'H'), ('table_id', 'B'), ('pad', '1x'),
                      ('fin_idle_timeout', 'H'), ('fin_hard_timeout', 'H')),
}

# OFP_ASSERT(sizeof(struct X) == N) of the specification; checked at import time, so a slip
# in the transcription above cannot go unnoticed.
SIZEOF = {
  'ofp_header': 8, 'ofp_phy_port': 48, 'ofp_packet_queue': 8, 'ofp_queue_prop_header': 8,
  'ofp_queue_prop_min_rate': 16, 'ofp_match': 40, 'ofp_action_header': 8,
  'ofp_action_output': 8, 'ofp_action_vlan_vid': 8, 'ofp_action_vlan_pcp': 8,
  'ofp_action_dl_addr': 16, 'ofp_action_nw_addr': 8, 'ofp_action_nw_tos': 8,
  'ofp_action_tp_port': 8, 'ofp_action_enqueue': 16, 'ofp_action_vendor_header': 8,
  'ofp_hello': 8, 'ofp_error_msg': 12, 'ofp_vendor_header': 12, 'ofp_switch_features': 32,
  'ofp_switch_config': 12, 'ofp_packet_in': 18, 'ofp_flow_removed': 88, 'ofp_port_status': 64,
  'ofp_packet_out': 16, 'ofp_flow_mod': 72, 'ofp_port_mod': 32, 'ofp_stats_request': 12,
  'ofp_stats_reply': 12, 'ofp_queue_get_config_request': 12, 'ofp_queue_get_config_reply': 16,
  'ofp_desc_stats': 1056, 'ofp_flow_stats_request': 44, 'ofp_flow_stats': 88,
  'ofp_aggregate_stats_request': 44, 'ofp_aggregate_stats_reply': 24, 'ofp_table_stats': 64,
  'ofp_port_stats_request': 8, 'ofp_port_stats': 104, 'ofp_queue_stats_request': 8,
  'ofp_queue_stats': 32,
  'nicira_header': 16, 'nx_role_request': 20, 'nx_set_packet_in_format': 20,
  'nx_flow_mod_table_id': 24, 'nx_async_config': 40, 'nx_flow_mod': 48, 'nx_packet_in': 40,
  'nx_action_header': 16, 'nx_action_resubmit': 16, 'nx_action_set_tunnel': 16,
  'nx_action_set_tunnel64': 24, 'nx_action_reg_move': 24, 'nx_action_reg_load': 24,
  'nx_action_output_reg': 24, 'nx_action_fin_timeout': 16, 'nx_action_controller': 16,
  'nx_action_learn': 32,
}

MSG_TYPE = {
  'ofp_hello': OFPT['HELLO'], 'ofp_error_msg': OFPT['ERROR'],
  'ofp_vendor_header': OFPT['VENDOR'], 'ofp_switch_features': OFPT['FEATURES_REPLY'],
  'ofp_packet_in': OFPT['PACKET_IN'], 'ofp_flow_removed': OFPT['FLOW_REMOVED'],
  'ofp_port_status': OFPT['PORT_STATUS'], 'ofp_packet_out': OFPT['PACKET_OUT'],
  'ofp_flow_mod': OFPT['FLOW_MOD'], 'ofp_port_mod': OFPT['PORT_MOD'],
  'ofp_stats_request': OFPT['STATS_REQUEST'], 'ofp_stats_reply': OFPT['STATS_REPLY'],
  'ofp_queue_get_config_request': OFPT['QUEUE_GET_CONFIG_REQUEST'],
  'ofp_queue_get_config_reply': OFPT['QUEUE_GET_CONFIG_REPLY'],
}

ACTION_STRUCT = {   # OFPAT_* name -> structure
  'OUTPUT': 'ofp_action_output', 'SET_VLAN_VID': 'ofp_action_vlan_vid',
  'SET_VLAN_PCP': 'ofp_action_vlan_pcp', 'STRIP_VLAN': 'ofp_action_header',
  'SET_DL_SRC': 'ofp_action_dl_addr', 'SET_DL_DST': 'ofp_action_dl_addr',
  'SET_NW_SRC': 'ofp_action_nw_addr', 'SET_NW_DST': 'ofp_action_nw_addr',
  'SET_NW_TOS': 'ofp_action_nw_tos', 'SET_TP_SRC': 'ofp_action_tp_port',
  'SET_TP_DST': 'ofp_action_tp_port', 'ENQUEUE': 'ofp_action_enqueue',
  'VENDOR': 'ofp_action_vendor_header',
}

# ---- Nicira constants -------------------------------------------------------------------
NX_VENDOR_ID = 0x00002320
NXT = dict(ROLE_REQUEST=10, ROLE_REPLY=11, SET_FLOW_FORMAT=12, FLOW_MOD=13, FLOW_REMOVED=14,
           FLOW_MOD_TABLE_ID=15, SET_PACKET_IN_FORMAT=16, PACKET_IN=17, FLOW_AGE=18,
           SET_ASYNC_CONFIG=19, SET_CONTROLLER_ID=20)
NXAST = dict(RESUBMIT=1, SET_TUNNEL=2, SET_QUEUE=4, POP_QUEUE=5, REG_MOVE=6, REG_LOAD=7, NOTE=8,
             SET_TUNNEL64=9, MULTIPATH=10, BUNDLE=12, BUNDLE_LOAD=13, RESUBMIT_TABLE=14,
             OUTPUT_REG=15, LEARN=16, EXIT=17, DEC_TTL=18, FIN_TIMEOUT=19, CONTROLLER=20)

# NXM / OXM fields: name -> (vendor/class, field, payload bytes)
NXM_FIELDS = {
  'NXM_OF_IN_PORT': (0, 0, 2), 'NXM_OF_ETH_DST': (0, 1, 6), 'NXM_OF_ETH_SRC': (0, 2, 6),
  'NXM_OF_ETH_TYPE': (0, 3, 2), 'NXM_OF_VLAN_TCI': (0, 4, 2), 'NXM_OF_IP_TOS': (0, 5, 1),
  'NXM_OF_IP_PROTO': (0, 6, 1), 'NXM_OF_IP_SRC': (0, 7, 4), 'NXM_OF_IP_DST': (0, 8, 4),
  'NXM_OF_TCP_SRC': (0, 9, 2), 'NXM_OF_TCP_DST': (0, 10, 2), 'NXM_OF_UDP_SRC': (0, 11, 2),
  'NXM_OF_UDP_DST': (0, 12, 2), 'NXM_OF_ICMP_TYPE': (0, 13, 1), 'NXM_OF_ICMP_CODE': (0, 14, 1),
  'NXM_OF_ARP_OP': (0, 15, 2), 'NXM_OF_ARP_SPA': (0, 16, 4), 'NXM_OF_ARP_TPA': (0, 17, 4),
  'NXM_NX_TUN_ID': (1, 16, 8), 'NXM_NX_ARP_SHA': (1, 17, 6), 'NXM_NX_ARP_THA': (1, 18, 6),
  'NXM_NX_IPV6_SRC': (1, 19, 16), 'NXM_NX_IPV6_DST': (1, 20, 16),
  'NXM_NX_ICMPV6_TYPE': (1, 21, 1), 'NXM_NX_ICMPV6_CODE': (1, 22, 1),
  'NXM_NX_ND_TARGET': (1, 23, 16), 'NXM_NX_ND_SLL': (1, 24, 6), 'NXM_NX_ND_TLL': (1, 25, 6),
  'NXM_NX_IP_FRAG': (1, 26, 1), 'NXM_NX_IPV6_LABEL': (1, 27, 4), 'NXM_NX_IP_ECN': (1, 28, 1),
  'NXM_NX_IP_TTL': (1, 29, 1), 'NXM_NX_COOKIE': (1, 30, 8), 'NXM_NX_TUN_IPV4_SRC': (1, 31, 4),
  'NXM_NX_TUN_IPV4_DST': (1, 32, 4), 'NXM_NX_TCP_FLAGS': (1, 34, 2),
  'OXM_OF_MPLS_LABEL': (0x8000, 34, 4), 'OXM_OF_MPLS_TC': (0x8000, 35, 1),
  'OXM_OF_MPLS_BOS': (0x8000, 36, 1),
}
for _i in range(16):
  NXM_FIELDS['NXM_NX_REG%d' % _i] = (1, _i, 4)
del _i

NX_LEARN_SRC_FIELD, NX_LEARN_SRC_IMMEDIATE = 0, 1
NX_LEARN_DST_MATCH, NX_LEARN_DST_LOAD, NX_LEARN_DST_OUTPUT = 0, 1, 2


# ---------------------------------------------------------------------------------------
# encoder
# ---------------------------------------------------------------------------------------
class SpecError (Exception):
  """The value cannot be represented in the specified field (e.g. length > 65535)."""


def sizeof (name):
  n = 0
  for fname, fmt in STRUCTS[name]:
    n += sizeof(fmt) if fmt in STRUCTS else struct.calcsize('!' + fmt)
  return n


def enc (name, vals, path=''):
  """Encode structure `name` from the dict `vals` -> pieces [(path, bytes)]."""
  out = []
  for fname, fmt in STRUCTS[name]:
    p = path + fname
    if fmt in STRUCTS:
      out.extend(enc(fmt, vals[fname], p + '.'))
    elif fmt.endswith('x'):
      out.append((p, b'\0' * int(fmt[:-1])))
    elif fmt.endswith('s'):
      n = int(fmt[:-1])
      v = vals[fname]
      if isinstance(v, str): v = v.encode('latin-1')
      if len(v) > n: raise SpecError("%s: %d bytes do not fit %s" % (p, len(v), fmt))
      if n == OFP_ETH_ALEN and len(v) != n: raise SpecError("%s: not 6 bytes" % p)
      out.append((p, v + b'\0' * (n - len(v))))
    else:
      try:
        out.append((p, struct.pack('!' + fmt, vals[fname])))
      except struct.error as e:
        raise SpecError("%s: %r does not fit %s (%s)" % (p, vals[fname], fmt, e))
  return out


def plen (pieces):
  return sum(len(b) for _, b in pieces)


def join (pieces):
  return b''.join(b for _, b in pieces)


def raw (path, data):
  """A variable-length tail (payload bytes) as a piece."""
  return [(path, bytes(data))]


def prefixed (prefix, pieces):
  return [(prefix + p, b) for p, b in pieces]


def first_diff (pieces, actual):
  """-> None, or (field path, expected bytes, actual bytes) of the first deviating field."""
  off = 0
  for p, b in pieces:
    a = actual[off:off + len(b)]
    if a != b: return (p, b, a)
    off += len(b)
  if len(actual) != off:
    return ('<end>', b'', actual[off:off + 16])
  return None


def message (name, vals, tail=(), path=''):
  """A whole message: structure `name` (header first) + tail pieces; header.type (unless
  given) and header.length are filled as the specification defines them."""
  vals = dict(vals)
  tail = list(tail)
  h = dict(vals['header'])
  if 'nxh' in vals: raise SpecError("use nx_message")
  h.setdefault('version', OFP_VERSION)
  if 'type' not in h: h['type'] = MSG_TYPE[name]
  h['length'] = sizeof(name) + plen(tail)
  vals['header'] = h
  return enc(name, vals, path) + tail


def nx_message (name, subtype, vals, tail=()):
  vals = dict(vals)
  tail = list(tail)
  h = dict(vals.pop('header'))
  h.setdefault('version', OFP_VERSION)
  h['type'] = OFPT['VENDOR']
  h['length'] = sizeof(name) + plen(tail)
  nxh = dict(header=h, vendor=NX_VENDOR_ID, subtype=subtype)
  if name == 'nicira_header':
    return enc(name, nxh) + tail
  vals['nxh'] = nxh
  return enc(name, vals) + tail


def action (kind, vals=None, tail=b'', path=''):
  """One OpenFlow 1.0 action; `kind` is the OFPAT_ name without prefix."""
  sname = ACTION_STRUCT[kind]
  v = dict(vals or {})
  v['type'] = OFPAT[kind]
  v['len'] = sizeof(sname) + len(tail)
  out = enc(sname, v, path)
  if tail: out.append((path + 'body', bytes(tail)))
  return out


def nx_action (sname, subtype, vals=None, tail=b'', path=''):
  v = dict(vals or {})
  v['type'] = OFPAT['VENDOR']
  v['vendor'] = NX_VENDOR_ID
  v['subtype'] = subtype
  v['len'] = sizeof(sname) + len(tail)
  out = enc(sname, v, path)
  if tail: out.append((path + 'body', bytes(tail)))
  return out


def action_list (actions, path='actions'):
  """actions: list of pieces-lists -> pieces with indexed paths."""
  out = []
  for i, a in enumerate(actions):
    out.extend(prefixed('%s[%d].' % (path, i), a))
  return out


def queue_prop_min_rate (rate, path=''):
  return enc('ofp_queue_prop_min_rate',
             dict(prop_header=dict(property=OFPQT['MIN_RATE'], len=16), rate=rate), path)


def queue_prop_none (path=''):
  return enc('ofp_queue_prop_header', dict(property=OFPQT['NONE'], len=8), path)


def packet_queue (queue_id, props, path=''):
  tail = []
  for i, p in enumerate(props):
    tail.extend(prefixed('%sproperties[%d].' % (path, i), p))
  return enc('ofp_packet_queue', dict(queue_id=queue_id, len=8 + plen(tail)), path) + tail


def flow_stats (vals, actions, path=''):
  tail = action_list(actions, path + 'actions')
  v = dict(vals)
  v['length'] = sizeof('ofp_flow_stats') + plen(tail)
  return enc('ofp_flow_stats', v, path) + tail


def packet_out (vals, actions, data):
  acts = action_list(actions)
  v = dict(vals)
  v['actions_len'] = plen(acts)
  return message('ofp_packet_out', v, acts + raw('data', data))


# ---------------------------------------------------------------------------------------
# ofp_match: logical match -> wire fields  (specification section 5.2.3 / table 3)
# ---------------------------------------------------------------------------------------
MATCH_FIELDS = ('in_port', 'dl_src', 'dl_dst', 'dl_vlan', 'dl_vlan_pcp', 'dl_type', 'nw_tos',
                'nw_proto', 'nw_src', 'nw_dst', 'tp_src', 'tp_dst')
_MATCH_FLAG = dict(in_port=OFPFW_IN_PORT, dl_src=OFPFW_DL_SRC, dl_dst=OFPFW_DL_DST,
                   dl_vlan=OFPFW_DL_VLAN, dl_vlan_pcp=OFPFW_DL_VLAN_PCP, dl_type=OFPFW_DL_TYPE,
                   nw_tos=OFPFW_NW_TOS, nw_proto=OFPFW_NW_PROTO, tp_src=OFPFW_TP_SRC,
                   tp_dst=OFPFW_TP_DST)


def match_vals (m):
  """m: dict field -> None (wildcarded) | int | 6 bytes; nw_src/nw_dst -> None | (ip, prefix
  bits 0..32).  A wildcarded field is sent as zero; a /0 prefix is a wildcarded field."""
  wc = 0
  v = {}
  for f in MATCH_FIELDS:
    x = m.get(f)
    if f in ('nw_src', 'nw_dst'):
      shift = OFPFW_NW_SRC_SHIFT if f == 'nw_src' else OFPFW_NW_DST_SHIFT
      if x is None or x[1] <= 0:
        wc |= 32 << shift; v[f] = 0
      else:
        wc |= (32 - min(x[1], 32)) << shift; v[f] = x[0]
    elif x is None:
      wc |= _MATCH_FLAG[f]
      v[f] = b'\0' * 6 if f in ('dl_src', 'dl_dst') else 0
    else:
      v[f] = x
  v['wildcards'] = wc
  return v


def match_applicable (m):
  """Set of network/transport fields that are meaningful given dl_type / nw_proto
  (the others are ignored by a switch whatever their wildcard bits say)."""
  ok = set()
  dt = m.get('dl_type')
  if dt == 0x0800:
    ok |= {'nw_tos', 'nw_proto', 'nw_src', 'nw_dst'}
    if m.get('nw_proto') in (1, 6, 17):
      ok |= {'tp_src', 'tp_dst'}
  elif dt == 0x0806:
    ok |= {'nw_proto', 'nw_src', 'nw_dst'}
  return ok


def match_prereq_consistent (m):
  """True iff no field is specified whose prerequisite is not (such fields are ignored)."""
  ok = match_applicable(m)
  for f in ('nw_tos', 'nw_proto', 'nw_src', 'nw_dst', 'tp_src', 'tp_dst'):
    x = m.get(f)
    if f in ('nw_src', 'nw_dst') and x is not None and x[1] <= 0: x = None
    if x is not None and f not in ok: return False
  return True


def match_dont_care (m):
  """Wildcard bits whose value carries no meaning for this match (fields not applicable)."""
  ok = match_applicable(m)
  mask = 0
  for f in ('nw_tos', 'nw_proto', 'tp_src', 'tp_dst'):
    if f not in ok: mask |= _MATCH_FLAG[f]
  if 'nw_src' not in ok: mask |= OFPFW_NW_SRC_MASK
  if 'nw_dst' not in ok: mask |= OFPFW_NW_DST_MASK
  return mask


def wildcards_canon (w):
  """nw_src / nw_dst wildcard counts of 32..63 all mean 'entire field'."""
  for shift, mask in ((OFPFW_NW_SRC_SHIFT, OFPFW_NW_SRC_MASK), (OFPFW_NW_DST_SHIFT, OFPFW_NW_DST_MASK)):
    if ((w & mask) >> shift) > 32:
      w = (w & ~mask) | (32 << shift)
  return w


def wildcards_equiv (a, b, dont_care=0):
  keep = ~dont_care & 0xffffffff
  return (wildcards_canon(a) & keep) == (wildcards_canon(b) & keep)


# ---------------------------------------------------------------------------------------
# NXM
# ---------------------------------------------------------------------------------------
def nxm_header (vendor, field, hasmask, length):
  return struct.pack('!L', (vendor << 16) | (field << 9) | ((1 if hasmask else 0) << 8) | length)


def nxm_entry (name, value, mask=None, path='', explicit=False):
  """value / mask: payload bytes.  An all-ones mask is equivalent to no mask and is what an
  encoder normally omits; explicit=True keeps it (the has-mask form with mask ff..ff is
  legal NXM and is what another implementation may send)."""
  vendor, field, n = NXM_FIELDS[name]
  if len(value) != n: raise SpecError("%s: value is %d bytes, field has %d" % (name, len(value), n))
  if mask is not None and mask == b'\xff' * n and not explicit: mask = None
  if mask is None:
    return [(path + 'nxm_header', nxm_header(vendor, field, False, n)), (path + 'value', value)]
  if len(mask) != n: raise SpecError("%s: mask length" % name)
  return [(path + 'nxm_header', nxm_header(vendor, field, True, 2 * n)), (path + 'value', value),
          (path + 'mask', mask)]


def nxm_field_header (name):
  vendor, field, n = NXM_FIELDS[name]
  return struct.unpack('!L', nxm_header(vendor, field, False, n))[0]


def pad8 (n):
  return (n + 7) // 8 * 8 - n


def learn_spec (src, dst, n_bits):
  """src: ('field', nxm name, ofs) | ('imm', bytes);  dst: ('match'|'load', nxm name, ofs) | ('output',)"""
  sv = NX_LEARN_SRC_FIELD if src[0] == 'field' else NX_LEARN_SRC_IMMEDIATE
  dv = dict(match=NX_LEARN_DST_MATCH, load=NX_LEARN_DST_LOAD, output=NX_LEARN_DST_OUTPUT)[dst[0]]
  out = struct.pack('!H', (sv << 13) | (dv << 11) | n_bits)
  if src[0] == 'field':
    out += struct.pack('!LH', nxm_field_header(src[1]), src[2])
  else:
    if len(src[1]) != (n_bits + 15) // 16 * 2: raise SpecError("immediate length")
    out += src[1]
  if dst[0] != 'output':
    out += struct.pack('!LH', nxm_field_header(dst[1]), dst[2])
  return out


def _selfcheck ():
  for name, n in SIZEOF.items():
    assert sizeof(name) == n, "transcription error: sizeof(%s) = %d, specification says %d" % (name, sizeof(name), n)
  for name in STRUCTS:
    assert name in SIZEOF or name in ('ofp_echo', 'ofp_vendor_stats', 'ofp_empty'), name

_selfcheck()
