"""Reference packet rewriter and datapath action interpreter for OpenFlow 1.0, on raw bytes.

Independent of pox.lib.packet and pox.datapaths: nothing here imports POX.  Frames are `bytes`;
every rewrite does its own offset arithmetic on the Ethernet / 802.1Q / IPv4 / TCP / UDP layout and
its own RFC 1071 arithmetic (including the TCP/UDP pseudo-header).  Semantics are transcribed from
openflow-spec-v1.0.0 section 3.3 / 5.2.4 (action descriptions) and 5.2.1 (port config flags):

  SET_VLAN_VID   tagged: replace the 12 bit VID; untagged: push a tag with that VID and priority 0
  SET_VLAN_PCP   tagged: replace the 3 bit priority; untagged: push a tag with that priority, VID 0
  STRIP_VLAN     remove the (outer) tag if there is one
  SET_DL_SRC/DST replace the MAC address
  SET_NW_SRC/DST IPv4 only: replace the address, update the IP header checksum and the TCP/UDP
                 checksum (pseudo-header) where there is one
  SET_NW_TOS     IPv4 only: replace the DSCP bits (upper six), keep the two ECN bits, update checksum
  SET_TP_SRC/DST TCP/UDP over IPv4 only: replace the port, update the TCP/UDP checksum
  OUTPUT/ENQUEUE emit the frame *as modified so far*; a physical port equal to the ingress port is
                 skipped (OFPP_IN_PORT must be used for that), FLOOD and ALL exclude the ingress port,
                 FLOOD also excludes NO_FLOOD ports; nothing goes out of a port that is
                 administratively down, link-down or NO_FWD.

Checksums are recomputed from scratch; on frames whose checksums were valid this equals what an
incremental update (RFC 1624) yields, except for the +0/-0 ambiguity which `same_modulo_zero_csum`
makes explicit (the corpus is built so that it never arises).
"""
import struct

# ---- constants (OpenFlow 1.0) ------------------------------------------------------------------
OFPP_MAX = 0xff00; OFPP_IN_PORT = 0xfff8; OFPP_TABLE = 0xfff9; OFPP_NORMAL = 0xfffa
OFPP_FLOOD = 0xfffb; OFPP_ALL = 0xfffc; OFPP_CONTROLLER = 0xfffd; OFPP_LOCAL = 0xfffe; OFPP_NONE = 0xffff
PC_PORT_DOWN = 1; PC_NO_STP = 2; PC_NO_RECV = 4; PC_NO_RECV_STP = 8; PC_NO_FLOOD = 16; PC_NO_FWD = 32
PC_NO_PACKET_IN = 64
PS_LINK_DOWN = 1
STP_MAC = bytes.fromhex("0180c2000000")
ETH_VLAN = 0x8100; ETH_IP = 0x0800; ETH_ARP = 0x0806


# ---- RFC 1071 ------------------------------------------------------------------------------------
def ones_sum (data, acc=0):
  """16-bit one's complement sum of `data` (odd length: the last byte is the HIGH byte of a word
  padded with zero), folded."""
  n = len(data)
  i = 0
  while i + 1 < n:
    acc += (data[i] << 8) | data[i + 1]
    i += 2
  if n & 1:
    acc += data[n - 1] << 8
  while acc >> 16:
    acc = (acc & 0xffff) + (acc >> 16)
  return acc

def inet_csum (data):
  return (~ones_sum(data)) & 0xffff

def l4_csum (src4, dst4, proto, segment):
  """TCP/UDP checksum over pseudo-header + segment (checksum field inside segment must be zero)."""
  ph = bytes(src4) + bytes(dst4) + struct.pack("!BBH", 0, proto, len(segment))
  return inet_csum(ph + bytes(segment))


# ---- layout ------------------------------------------------------------------------------------
class Layout (object):
  """Offsets into one frame.  Only what the action semantics need."""
  __slots__ = ("tagged", "etype_off", "l3", "etype", "ip", "ihl", "iplen", "proto", "frag", "mf", "l4", "l4len")
  def __init__ (self, f):
    self.tagged = False; self.ip = False; self.l4 = None; self.l4len = 0; self.mf = False
    self.ihl = self.iplen = self.proto = self.frag = 0
    self.etype_off = 12; self.l3 = 14; self.etype = None
    if len(f) < 14: return
    et = (f[12] << 8) | f[13]
    if et == ETH_VLAN and len(f) >= 18:
      self.tagged = True
      self.etype_off = 16; self.l3 = 18
      et = (f[16] << 8) | f[17]
    self.etype = et
    if et != ETH_IP: return
    o = self.l3
    if len(f) - o < 20: return
    if f[o] >> 4 != 4: return
    ihl = (f[o] & 0x0f) * 4
    iplen = (f[o + 2] << 8) | f[o + 3]
    if ihl < 20 or ihl > iplen or iplen > len(f) - o: return
    self.ip = True; self.ihl = ihl; self.iplen = iplen
    self.proto = f[o + 9]
    self.frag = ((f[o + 6] << 8) | f[o + 7]) & 0x1fff
    self.mf = bool(f[o + 6] & 0x20)
    l4len = iplen - ihl
    # an L4 header is only addressed in unfragmented datagrams (a fragment's checksum cannot be maintained by
    # recomputation, and the specification is silent about transport rewrites on first fragments)
    if self.frag == 0 and not self.mf and ((self.proto == 6 and l4len >= 20) or (self.proto == 17 and l4len >= 8)):
      self.l4 = o + ihl; self.l4len = l4len


def _fix_ip_csum (b, lay):
  o = lay.l3
  b[o + 10] = 0; b[o + 11] = 0
  c = inet_csum(b[o:o + lay.ihl])
  b[o + 10] = c >> 8; b[o + 11] = c & 0xff

def _fix_l4_csum (b, lay):
  if lay.l4 is None: return
  o = lay.l3
  co = lay.l4 + (16 if lay.proto == 6 else 6)
  if lay.proto == 17 and b[co] == 0 and b[co + 1] == 0:
    return                                  # UDP without checksum stays without
  b[co] = 0; b[co + 1] = 0
  c = l4_csum(b[o + 12:o + 16], b[o + 16:o + 20], lay.proto, b[lay.l4:lay.l4 + lay.l4len])
  if lay.proto == 17 and c == 0: c = 0xffff
  b[co] = c >> 8; b[co + 1] = c & 0xff


# ---- rewrites: action = tuple (name, arg...) -----------------------------------------------------
def rewrite (frame, act):
  """Apply one header-modifying action to `frame` (bytes) and return the new frame (bytes)."""
  name = act[0]
  b = bytearray(frame)
  lay = Layout(frame)
  if len(frame) < 14:
    return bytes(frame)
  if name == "set_vlan_vid":
    vid = act[1] & 0x0fff
    if lay.tagged:
      tci = ((b[14] << 8) | b[15]) & 0xf000 | vid
      b[14] = tci >> 8; b[15] = tci & 0xff
    else:
      b[12:12] = struct.pack("!HH", ETH_VLAN, vid)
  elif name == "set_vlan_pcp":
    pcp = act[1] & 7
    if lay.tagged:
      tci = ((b[14] << 8) | b[15]) & 0x1fff | (pcp << 13)
      b[14] = tci >> 8; b[15] = tci & 0xff
    else:
      b[12:12] = struct.pack("!HH", ETH_VLAN, pcp << 13)
  elif name == "strip_vlan":
    if lay.tagged:
      del b[12:16]
  elif name == "set_dl_src":
    b[6:12] = act[1]
  elif name == "set_dl_dst":
    b[0:6] = act[1]
  elif name in ("set_nw_src", "set_nw_dst"):
    if lay.ip:
      o = lay.l3 + (12 if name == "set_nw_src" else 16)
      b[o:o + 4] = struct.pack("!L", act[1])
      _fix_ip_csum(b, lay)
      _fix_l4_csum(b, lay)
  elif name == "set_nw_tos":
    if lay.ip:
      o = lay.l3 + 1
      b[o] = (b[o] & 0x03) | (act[1] & 0xfc)
      _fix_ip_csum(b, lay)
  elif name in ("set_tp_src", "set_tp_dst"):
    if lay.l4 is not None:
      o = lay.l4 + (0 if name == "set_tp_src" else 2)
      b[o:o + 2] = struct.pack("!H", act[1])
      _fix_l4_csum(b, lay)
  else:
    raise ValueError("not a rewrite action: %r" % (act,))
  return bytes(b)


REWRITES = ("set_vlan_vid", "set_vlan_pcp", "strip_vlan", "set_dl_src", "set_dl_dst", "set_nw_src",
            "set_nw_dst", "set_nw_tos", "set_tp_src", "set_tp_dst")


def can_tx (cfg, state=0):
  return not (cfg & (PC_PORT_DOWN | PC_NO_FWD)) and not (state & PS_LINK_DOWN)


def out_ports (port, in_port, ports):
  """Physical ports an OUTPUT/ENQUEUE to `port` reaches.  ports: {port_no: config bits}."""
  if port < OFPP_MAX:
    t = [port] if (port != in_port and port in ports) else []
  elif port == OFPP_IN_PORT:
    t = [in_port] if in_port in ports else []
  elif port == OFPP_FLOOD:
    t = [p for p in sorted(ports) if p != in_port and not ports[p] & PC_NO_FLOOD]
  elif port == OFPP_ALL:
    t = [p for p in sorted(ports) if p != in_port]
  else:
    t = []
  return [p for p in t if can_tx(ports[p])]


def run_actions (frame, actions, in_port, ports):
  """Interpret an OpenFlow 1.0 action list.  Returns the list of events, in order:
       ("out", port_no, frame bytes, index of the action)
       ("ctl", frame bytes, max_len, index)        output to OFPP_CONTROLLER
       ("table", frame bytes, index)                output to OFPP_TABLE (resubmission)
     and the final frame."""
  cur = bytes(frame)
  ev = []
  for i, a in enumerate(actions):
    if a[0] in ("output", "enqueue"):
      port = a[1]
      if port == OFPP_CONTROLLER:
        ev.append(("ctl", cur, a[2] if len(a) > 2 else 0xffff, i))
      elif port == OFPP_TABLE:
        ev.append(("table", cur, i))
      else:
        for p in out_ports(port, in_port, ports):
          ev.append(("out", p, cur, i))
    else:
      cur = rewrite(cur, a)
  return ev, cur


def accepts (cfg, frame):
  """Does a port with config `cfg` accept `frame` from the wire?  (NO_RECV drops everything but
  802.1D frames, NO_RECV_STP drops 802.1D frames.)"""
  stp = frame[:6] == STP_MAC
  if stp: return not cfg & PC_NO_RECV_STP
  return not cfg & PC_NO_RECV


# ---- describing differences (for violation keys / messages) --------------------------------------
def fields (f):
  """Split a frame into named fields (for reporting which field differs)."""
  lay = Layout(f)
  d = {"dl_dst": f[0:6], "dl_src": f[6:12], "length": len(f)}
  if lay.tagged:
    tci = (f[14] << 8) | f[15]
    d["vlan.pcp"] = tci >> 13; d["vlan.cfi"] = (tci >> 12) & 1; d["vlan.vid"] = tci & 0xfff
  else:
    d["vlan"] = None
  d["ethertype"] = lay.etype
  if lay.ip:
    o = lay.l3
    d["ip.vhl"] = f[o]; d["ip.tos"] = f[o + 1]; d["ip.len"] = f[o + 2:o + 4]; d["ip.id"] = f[o + 4:o + 6]
    d["ip.frag"] = f[o + 6:o + 8]; d["ip.ttl"] = f[o + 8]; d["ip.proto"] = f[o + 9]; d["ip.csum"] = f[o + 10:o + 12]
    d["ip.src"] = f[o + 12:o + 16]; d["ip.dst"] = f[o + 16:o + 20]; d["ip.options"] = f[o + 20:o + lay.ihl]
    if lay.l4 is not None:
      p = lay.l4
      d["l4.sport"] = f[p:p + 2]; d["l4.dport"] = f[p + 2:p + 4]
      if lay.proto == 6:
        d["l4.csum"] = f[p + 16:p + 18]; d["l4.rest"] = f[p + 4:p + 16] + f[p + 18:o + lay.iplen]
      else:
        d["l4.len"] = f[p + 4:p + 6]; d["l4.csum"] = f[p + 6:p + 8]; d["l4.rest"] = f[p + 8:o + lay.iplen]
    else:
      d["ip.payload"] = f[o + lay.ihl:o + lay.iplen]
    d["trailer"] = f[o + lay.iplen:]
  else:
    d["l3"] = f[lay.l3:]
  return d

def diff_fields (a, b):
  fa, fb = fields(a), fields(b)
  return sorted(k for k in set(fa) | set(fb) if fa.get(k, "absent") != fb.get(k, "absent"))

def same_modulo_zero_csum (a, b):
  """Equal frames, or frames differing only in IP/TCP/UDP checksum fields where one side holds
  0x0000 and the other 0xffff (the two representations of zero in one's complement arithmetic:
  a full recomputation and an RFC 1624 incremental update may legitimately disagree there)."""
  if a == b: return True
  fa, fb = fields(a), fields(b)
  for k in diff_fields(a, b):
    if k not in ("ip.csum", "l4.csum"): return False
    if set((bytes(fa.get(k, b"")), bytes(fb.get(k, b"")))) != set((b"\0\0", b"\xff\xff")): return False
  return True

def first_diff_layer (want, got, whole=None):
  """Name of the region of `want` holding the first byte where `got` differs.  `want` may be a prefix of the frame
  `whole`, whose layout then names the regions.  Stable and coarse: used in violation keys."""
  n = min(len(want), len(got))
  i = next((k for k in range(n) if want[k] != got[k]), n)
  if i == n and len(want) == len(got): return "same"
  if whole is None: whole = want
  lay = Layout(whole)
  want = whole
  if i < 12: return "eth-addr"
  if i < lay.l3: return "l2-type"
  if not lay.ip: return "payload"
  o = lay.l3
  if i < o + lay.ihl: return "ip"
  if i >= o + lay.iplen: return "trailer"
  if lay.l4 is not None:
    hl = 8 if lay.proto == 17 else 4 * (want[lay.l4 + 12] >> 4)
    if i < lay.l4 + hl: return "l4"
  return "payload"

# ---- frame builders (valid lengths and checksums) ------------------------------------------------
def ip4 (s):
  return bytes(int(x) for x in s.split("."))

def eth (dst, src, etype, payload, vlan=None):
  """vlan = None or (pcp, cfi, vid)."""
  h = bytes(dst) + bytes(src)
  if vlan is not None:
    pcp, cfi, vid = vlan
    h += struct.pack("!HH", ETH_VLAN, (pcp << 13) | (cfi << 12) | vid)
  return h + struct.pack("!H", etype) + bytes(payload)

def ipv4 (src, dst, proto, payload, tos=0, ident=0x3039, flags_frag=0x4000, ttl=64, options=b""):
  assert len(options) % 4 == 0
  ihl = 20 + len(options)
  h = bytearray(struct.pack("!BBHHHBBH4s4s", 0x40 | (ihl // 4), tos, ihl + len(payload), ident, flags_frag,
                            ttl, proto, 0, bytes(src), bytes(dst)) + options)
  c = inet_csum(h)
  h[10] = c >> 8; h[11] = c & 0xff
  return bytes(h) + bytes(payload)

def udp (src, dst, sport, dport, payload):
  seg = bytearray(struct.pack("!HHHH", sport, dport, 8 + len(payload), 0) + bytes(payload))
  c = l4_csum(src, dst, 17, seg) or 0xffff
  seg[6] = c >> 8; seg[7] = c & 0xff
  return bytes(seg)

def tcp (src, dst, sport, dport, payload, seq=0x01020304, ack=0x0a0b0c0d, flags=0x18, win=0x2000, urg=0,
         options=b""):
  assert len(options) % 4 == 0
  off = (20 + len(options)) // 4
  seg = bytearray(struct.pack("!HHLLBBHHH", sport, dport, seq, ack, off << 4, flags, win, 0, urg) + options
                  + bytes(payload))
  c = l4_csum(src, dst, 6, seg)
  seg[16] = c >> 8; seg[17] = c & 0xff
  return bytes(seg)

def icmp_echo (ident, seq, payload, typ=8):
  m = bytearray(struct.pack("!BBHHH", typ, 0, 0, ident, seq) + bytes(payload))
  c = inet_csum(m)
  m[2] = c >> 8; m[3] = c & 0xff
  return bytes(m)

def arp (op, sha, spa, tha, tpa):
  return struct.pack("!HHBBH", 1, ETH_IP, 6, 4, op) + bytes(sha) + bytes(spa) + bytes(tha) + bytes(tpa)

def bpdu ():
  """802.3 + LLC (42 42 03) configuration BPDU, padded to the 60 byte Ethernet minimum."""
  body = bytes.fromhex("424203") + bytes.fromhex("0000000000" "8000" "020000000001" "00000000" "8000" "020000000001"
                                                 "8001" "0000" "1400" "0200" "0f00")
  return body


def verify (frame):
  """Self-check used when the corpus is built: lengths and checksums of `frame` are valid.
  Returns a list of complaints (empty = fine)."""
  lay = Layout(frame)
  bad = []
  if lay.etype == ETH_IP:
    if not lay.ip: return ["IPv4 header malformed"]
    o = lay.l3
    if ones_sum(frame[o:o + lay.ihl]) != 0xffff: bad.append("IP header checksum")
    if lay.l4 is not None:
      seg = frame[lay.l4:lay.l4 + lay.l4len]
      co = 16 if lay.proto == 6 else 6
      if lay.proto == 17:
        if struct.unpack_from("!H", seg, 4)[0] != lay.l4len: bad.append("UDP length")
        if seg[co:co + 2] == b"\0\0": return bad
      ph = frame[o + 12:o + 20] + struct.pack("!BBH", 0, lay.proto, lay.l4len)
      if ones_sum(ph + seg) != 0xffff: bad.append("L4 checksum")
    elif lay.proto == 1 and lay.frag == 0 and not lay.mf:
      if ones_sum(frame[o + lay.ihl:o + lay.iplen]) != 0xffff: bad.append("ICMP checksum")
  return bad
