"""Reference side of C10 (malformed input is contained), independent of pox.openflow.libopenflow_01.

 * the encoders that mc/refs/ofwire.py / ofwire_s2c.py / ofwire_stats.py do not have (queue
   configuration reply, queue / table statistics, vendor statistics), transcribed from
   openflow-spec-v1.0.0 sections 5.2.2, 5.3.4, 5.3.5;
 * `catalogue()`: one valid, spec-encoded instance (BYTES) of every OpenFlow 1.0 message type
   (several for the multipart statistics bodies), with the offsets of every embedded length field;
 * `frame(stream)`: reference framing of a byte stream by the declared header lengths;
 * `wellformed(unit)`: a structural validator written from the specification text - the oracle's
   notion of "malformed".
"""
import struct
from mc.refs import ofwire as W
from mc.refs import ofwire_s2c as S
from mc.refs import ofwire_stats as ST

OFPQT_NONE, OFPQT_MIN_RATE = 0, 1


# ---- encoders missing elsewhere --------------------------------------------------------------
def queue_prop_min_rate (rate):
  # struct ofp_queue_prop_min_rate: prop header (property, len, pad[4]), rate, pad[6]    = 16 bytes
  return struct.pack("!HH4xH6x", OFPQT_MIN_RATE, 16, rate)

def packet_queue (queue_id, props=()):
  # struct ofp_packet_queue: queue_id, len, pad[2], properties[]
  body = b"".join(props)
  return struct.pack("!LH2x", queue_id, 8 + len(body)) + body

def queue_get_config_reply (xid, port, queues=()):
  # struct ofp_queue_get_config_reply: header, port, pad[6], queues[]
  return W.msg(W.QUEUE_GET_CONFIG_REPLY, xid, struct.pack("!H6x", port) + b"".join(queues))

def vendor_stats_body (vendor, data=b""):
  return struct.pack("!L", vendor) + data


# ---- catalogue of valid instances ------------------------------------------------------------
class Inst (object):
  """name, type byte, valid bytes, embedded length fields [(label, offset)] (all 16 bit), and which
  side may legitimately receive it ('c' controller, 's' switch)."""
  def __init__ (self, name, data, emb=(), to="cs", big=False, groups=None):
    self.name = name; self.data = data; self.typ = data[1]; self.emb = list(emb); self.to = to
    self.big = big
    self.groups = groups       # None: every corruption group; else the groups this instance adds something to
    assert struct.unpack_from("!H", data, 2)[0] == len(data), name

MX = 0x4d000000          # xid range of the instance under corruption
MAC1 = b"\x02\x00\x00\x00\x00\x01"; MAC2 = b"\x02\x00\x00\x00\x00\x02"
FRAME = MAC2 + MAC1 + b"\x08\x00" + bytes(range(0x40, 0x40 + 16))          # 30 byte ethernet frame


def catalogue (hostile_dpid=0x21):
  m = W.match_fields(in_port=1, dl_type=0x0800)
  acts = W.a_output(2) + W.a_set_dl_src(MAC1)                  # 8 + 16
  acts2 = W.a_output(2) + W.a_enqueue(1, 3)                    # 8 + 16
  ports = [W.phy_port(1, MAC1, b"p1"), W.phy_port(2, MAC2, b"p2")]
  xs = iter(range(MX + 1, MX + 100))
  x = lambda: next(xs)
  L = []
  L.append(Inst("HELLO", W.hello(x())))
  L.append(Inst("ERROR", S.error(x(), W.OFPET_BAD_REQUEST, W.OFPBRC_BAD_LEN, b"\x01\x0e\x00\x48\x00\x00\x00\x09abcd"), to="c"))
  L.append(Inst("ECHO_REQUEST", W.echo_request(x(), b"ping!")))
  L.append(Inst("ECHO_REPLY", W.echo_reply(x(), b"pong!")))
  L.append(Inst("VENDOR", W.vendor(x(), 0x00002320, b"\0\0\0\x0a\0\0\0\0")))
  # carriers: opaque bodies that contain complete, valid messages (at offset 64 and right behind the header), so
  # that a decoder which skips fewer bytes than the declared length would deliver the embedded message
  inner = W.echo_request(MX + 0xe1, b"inner-1") + W.echo_request(MX + 0xe2, b"inner-2")
  L.append(Inst("ECHO_REQUEST.carrier", W.echo_request(x(), bytes(56) + inner)))
  L.append(Inst("VENDOR.carrier", W.vendor(x(), 0x00002320, W.echo_request(MX + 0xe3, b"inner-3") + bytes(37) + inner)))
  # dense carrier: the body is nothing but complete 8-byte messages, so whatever 8-aligned part of it a receiver
  # mistakes for the start of a message decodes (and is visibly delivered / answered)
  dense = b"".join(W.echo_request(MX + 0xd0 + k) for k in range(8))
  L.append(Inst("ECHO_REQUEST.dense", W.echo_request(x(), dense)))
  L.append(Inst("FEATURES_REQUEST", W.features_request(x()), to="s"))
  L.append(Inst("FEATURES_REPLY", S.features_reply(x(), hostile_dpid, ports, n_buffers=0, capabilities=0xc7), to="c"))
  L.append(Inst("GET_CONFIG_REQUEST", W.get_config_request(x()), to="s"))
  L.append(Inst("GET_CONFIG_REPLY", S.get_config_reply(x(), 0, 128), to="c"))
  L.append(Inst("SET_CONFIG", W.set_config(x(), 0, 128), to="s"))
  L.append(Inst("PACKET_IN", S.packet_in(x(), FRAME, in_port=1), to="c"))
  L.append(Inst("FLOW_REMOVED", S.flow_removed(x(), m, cookie=7, priority=5, duration_sec=3, idle_timeout=9,
                                              packet_count=2, byte_count=60), to="c"))
  L.append(Inst("PORT_STATUS", S.port_status(x(), W.OFPPR_MODIFY, ports[1]), to="c"))
  L.append(Inst("PACKET_OUT", W.packet_out(x(), acts, FRAME, in_port=1),
                emb=[("actions_len", 14), ("action0.len", 18), ("action1.len", 26)], to="s"))
  L.append(Inst("FLOW_MOD", W.flow_mod(x(), m, actions=acts2, priority=10, idle=5, cookie=3),
                emb=[("action0.len", 74), ("action1.len", 82)], to="s"))
  L.append(Inst("PORT_MOD", W.port_mod(x(), 2, MAC2, 0, 0), to="s"))
  L.append(Inst("STATS_REQUEST.desc", W.stats_request(x(), W.OFPST_DESC), to="s"))
  L.append(Inst("STATS_REQUEST.flow", W.stats_request(x(), W.OFPST_FLOW, W.flow_stats_body(m)), to="s"))
  L.append(Inst("STATS_REQUEST.aggregate", W.stats_request(x(), W.OFPST_AGGREGATE, W.flow_stats_body(m)), to="s"))
  L.append(Inst("STATS_REQUEST.table", W.stats_request(x(), W.OFPST_TABLE), to="s"))
  L.append(Inst("STATS_REQUEST.port", W.stats_request(x(), W.OFPST_PORT, W.port_stats_body(1)), to="s"))
  L.append(Inst("STATS_REQUEST.queue", W.stats_request(x(), W.OFPST_QUEUE, W.queue_stats_body(1, W.OFPQ_ALL)), to="s"))
  L.append(Inst("STATS_REQUEST.vendor", W.stats_request(x(), W.OFPST_VENDOR, vendor_stats_body(0x2320, b"\0\0\0\1")), to="s"))
  fe = S.flow_stats_entry(m, W.a_output(2), cookie=9, priority=10, packet_count=4, byte_count=240)     # 96 bytes
  L.append(Inst("STATS_REPLY.flow", S.stats_reply(x(), W.OFPST_FLOW, fe + fe),
                emb=[("entry0.length", 12), ("entry0.action0.len", 12 + 90), ("entry1.length", 12 + 96)], to="c"))
  # list elements of the minimum size (no actions): the entry length is the only thing that says where the entry ends
  fe0 = S.flow_stats_entry(m, b"", cookie=9, priority=10, packet_count=4, byte_count=240)              # 88 bytes
  L.append(Inst("STATS_REPLY.flow.noactions", S.stats_reply(x(), W.OFPST_FLOW, fe0 + fe0),
                emb=[("entry0.length", 12), ("entry1.length", 12 + 88)], to="c", groups=("misc", "seg")))
  L.append(Inst("STATS_REPLY.aggregate", S.stats_reply(x(), W.OFPST_AGGREGATE, S.aggregate_stats_body(4, 240, 1)), to="c"))
  L.append(Inst("STATS_REPLY.table", S.stats_reply(x(), W.OFPST_TABLE, ST.table_entry(dict(
                  table_id=0, name=b"classifier", wildcards=W.OFPFW_ALL, max_entries=1024, active_count=1,
                  lookup_count=10, matched_count=4))), to="c"))
  L.append(Inst("STATS_REPLY.port", S.stats_reply(x(), W.OFPST_PORT, S.port_stats_entry(1, tuple(range(1, 13)))), to="c"))
  L.append(Inst("STATS_REPLY.queue", S.stats_reply(x(), W.OFPST_QUEUE, ST.queue_entry(dict(
                  port_no=1, queue_id=3, tx_bytes=100, tx_packets=2, tx_errors=0))), to="c"))
  L.append(Inst("STATS_REPLY.vendor", S.stats_reply(x(), W.OFPST_VENDOR, vendor_stats_body(0x2320, b"\0\0\0\1")), to="c"))
  L.append(Inst("STATS_REPLY.desc", S.stats_reply(x(), W.OFPST_DESC, S.desc_stats_body()), to="c", big=True))
  L.append(Inst("BARRIER_REQUEST", W.barrier_request(x()), to="s"))
  L.append(Inst("BARRIER_REPLY", S.barrier_reply(x()), to="c"))
  L.append(Inst("QUEUE_GET_CONFIG_REQUEST", W.queue_get_config_request(x(), 1), to="s"))
  L.append(Inst("QUEUE_GET_CONFIG_REPLY",
                queue_get_config_reply(x(), 1, [packet_queue(3, [queue_prop_min_rate(500)]), packet_queue(4)]),
                emb=[("queue0.len", 16 + 4), ("queue0.prop0.len", 24 + 2), ("queue1.len", 40 + 4)], to="c"))
  for i in L:
    for (label, off) in i.emb:
      assert off + 2 <= len(i.data), (i.name, label)
  return L


# ---- messages whose DECLARED length is large and whose bytes all arrive ---------------------------
BIG_EDGE = (65523, 65524, 65535)          # an error reply quoting the whole message is 12 + L bytes: 65535 / 65536 / 65547
BIG_NEAR = (65522, 65525, 65534)
BIG_RECV = (2047, 2048, 2049, 4096, 8191, 8192, 8193)   # around the receivers' recv() sizes (2048 controller, 8192 switch)
BIG_CORE = ("ECHO_REQUEST", "VENDOR", "PACKET_OUT", "BARRIER_REQUEST", "BARRIER_REPLY")

def padded (data, length):
  """data followed by zero bytes up to `length`, the header announcing `length` (all of it is sent)."""
  b = bytearray(data + bytes(length - len(data)))
  struct.pack_into("!H", b, 2, length)
  return bytes(b)

def big_catalogue (base, lengths):
  """For every instance of `base` (not the already big one) and every L in lengths: the instance extended with zero bytes
  to a declared length of L - a valid large message where the type ends in opaque data (HELLO, ERROR, ECHO, VENDOR,
  PACKET_IN, PACKET_OUT, vendor stats), a malformed one where the length is fixed or the tail is a list - plus two requests
  a switch refuses quoting them: a statistics request of an unknown type with an L-byte body and (L % 8 == 0 only) a
  PACKET_OUT for an unknown buffer id whose action list ends in one vendor action filling the message."""
  out = []
  for L in lengths:
    for i in base:
      if i.big or len(i.data) > L: continue
      data = padded(i.data, L)
      if i.typ == W.PACKET_IN:                 # total_len (length of the frame on the wire) is never below the bytes carried
        data = data[:12] + struct.pack("!H", L - 18) + data[14:]
      n = Inst("BIG.%s.%d" % (i.name, L), data, emb=i.emb, to=i.to, big=True)
      n.bigbase = i.name; n.L = L
      out.append(n)
    n = Inst("BIG.STATS_REQUEST.unknown.%d" % L, W.stats_request(MX + 0x71, 0x7777, bytes(L - 12)), to="s", big=True)
    n.bigbase = "STATS_REQUEST.unknown"; n.L = L; out.append(n)
    if L % 8 == 0:
      acts = W.a_output(2) + W.a_vendor(0x2320, bytes(L - 16 - 8 - 8))
      n = Inst("BIG.PACKET_OUT.unknown-buffer.%d" % L, W.packet_out(MX + 0x72, acts, b"", buffer_id=0x1234, in_port=1),
               emb=[("actions_len", 14)], to="s", big=True)
      n.bigbase = "PACKET_OUT.unknown-buffer"; n.L = L; out.append(n)
  return out


# ---- reference framing -------------------------------------------------------------------
def frame (buf):
  """Split by declared header length.  Returns (units, tail, why) where units are (offset, bytes) and
  why is 'empty' | 'incomplete' (fewer bytes than declared / than an 8-byte header) | 'unframeable' (declared
  length < 8: no receiver can find the next message)."""
  out = []; off = 0
  while True:
    if off == len(buf): return out, b"", "empty"
    if len(buf) - off < 8: return out, buf[off:], "incomplete"
    ln = struct.unpack_from("!H", buf, off + 2)[0]
    if ln < 8: return out, buf[off:], "unframeable"
    if off + ln > len(buf): return out, buf[off:], "incomplete"
    out.append((off, buf[off:off+ln])); off += ln


# ---- structural validator -------------------------------------------------------------------
_ACT_LEN = {0: 8, 1: 8, 2: 8, 3: 8, 4: 16, 5: 16, 6: 8, 7: 8, 8: 8, 9: 8, 10: 8, 11: 16}

def _actions (b):
  """('ok'|'bad'|'free', reason) for an action list occupying exactly b."""
  o = 0; res = ("ok", "")
  while o < len(b):
    if len(b) - o < 4: return ("bad", "action.len")
    t, l = struct.unpack_from("!HH", b, o)
    if l < 8 or l % 8 or o + l > len(b): return ("bad", "action.len")
    if t in _ACT_LEN:
      if l != _ACT_LEN[t]: return ("bad", "action.len")
    elif t == 0xffff: pass
    else: res = ("free", "unknown-action")     # the switch answers BAD_ACTION; not a framing matter
    o += l
  return res

def _queues (b):
  o = 0
  while o < len(b):
    if len(b) - o < 8: return ("bad", "queue.len")
    qid, l = struct.unpack_from("!LH", b, o)
    if l < 8 or o + l > len(b): return ("bad", "queue.len")
    p = o + 8; end = o + l
    while p < end:
      if end - p < 8: return ("bad", "prop.len")
      t, pl = struct.unpack_from("!HH", b, p)
      if pl < 8 or p + pl > end: return ("bad", "prop.len")
      if t == OFPQT_MIN_RATE and pl != 16: return ("bad", "prop.len")
      p += pl
    o += l
  return ("ok", "")

_FIXED = {W.FEATURES_REQUEST: 8, W.GET_CONFIG_REQUEST: 8, W.BARRIER_REQUEST: 8, W.BARRIER_REPLY: 8,
          W.GET_CONFIG_REPLY: 12, W.SET_CONFIG: 12, W.FLOW_REMOVED: 88, W.PORT_STATUS: 64, W.PORT_MOD: 32,
          W.QUEUE_GET_CONFIG_REQUEST: 12}
_MIN = {W.HELLO: 8, W.ERROR: 12, W.ECHO_REQUEST: 8, W.ECHO_REPLY: 8, W.VENDOR: 12, W.PACKET_IN: 18,
        W.FEATURES_REPLY: 32, W.PACKET_OUT: 16, W.FLOW_MOD: 72, W.STATS_REQUEST: 12, W.STATS_REPLY: 12,
        W.QUEUE_GET_CONFIG_REPLY: 16}
_SREQ = {W.OFPST_DESC: 0, W.OFPST_FLOW: 44, W.OFPST_AGGREGATE: 44, W.OFPST_TABLE: 0, W.OFPST_PORT: 8, W.OFPST_QUEUE: 8}
_SREP_ENTRY = {W.OFPST_TABLE: 64, W.OFPST_PORT: 104, W.OFPST_QUEUE: 32}

def classify (u):
  """u: one framed unit (len(u) == declared length >= 8).  Returns (verdict, reason): verdict 'ok'
  (a structurally valid OpenFlow 1.0 message), 'bad' (malformed: must be answered with an error or
  cost the connection; reason names the violated rule) or 'free' (the specification / property
  statement does not say)."""
  ver, typ, ln, xid = W.parse_hdr(u)
  assert ln == len(u) and ln >= 8
  if typ == W.HELLO and ver != W.VERSION: return ("free", "hello-version")       # version negotiation
  if ver != W.VERSION: return ("bad", "version")
  if typ > W.QUEUE_GET_CONFIG_REPLY: return ("bad", "unknown-type")
  b = u[8:]
  if typ in _FIXED: return ("ok", "") if ln == _FIXED[typ] else ("bad", "length!=fixed")
  if ln < _MIN[typ]: return ("bad", "length<min")
  if typ == W.FEATURES_REPLY:
    return ("ok", "") if (ln - 32) % 48 == 0 else ("bad", "length%entry")
  if typ == W.PACKET_OUT:
    al = struct.unpack_from("!H", b, 6)[0]
    if 16 + al > ln: return ("bad", "actions_len>body")
    return _actions(u[16:16+al])
  if typ == W.FLOW_MOD:
    return _actions(u[72:])
  if typ == W.STATS_REQUEST:
    st = struct.unpack_from("!H", b)[0]
    if st == W.OFPST_VENDOR: return ("ok", "") if ln >= 16 else ("bad", "stats-body-length")
    if st not in _SREQ: return ("free", "unknown-stats-type")
    return ("ok", "") if ln == 12 + _SREQ[st] else ("bad", "stats-body-length")
  if typ == W.STATS_REPLY:
    st = struct.unpack_from("!H", b)[0]; body = b[4:]
    if st == W.OFPST_DESC: return ("ok", "") if len(body) == 1056 else ("bad", "stats-body-length")
    if st == W.OFPST_AGGREGATE: return ("ok", "") if len(body) == 24 else ("bad", "stats-body-length")
    if st in _SREP_ENTRY: return ("ok", "") if len(body) % _SREP_ENTRY[st] == 0 else ("bad", "length%entry")
    if st == W.OFPST_VENDOR: return ("ok", "") if len(body) >= 4 else ("bad", "stats-body-length")
    if st == W.OFPST_FLOW:
      o = 0; res = ("ok", "")
      while o < len(body):
        if len(body) - o < 88: return ("bad", "entry.length")
        l = struct.unpack_from("!H", body, o)[0]
        if l < 88 or o + l > len(body): return ("bad", "entry.length")
        r = _actions(body[o+88:o+l])
        if r[0] == "bad": return r
        if r[0] == "free": res = r
        o += l
      return res
    return ("free", "unknown-stats-type")
  if typ == W.QUEUE_GET_CONFIG_REPLY:
    return _queues(u[16:])
  return ("ok", "")        # HELLO (a body is allowed), ERROR, ECHO_*, VENDOR, PACKET_IN at or above their minimum


def wellformed (u):
  return classify(u)[0]


def selftest ():
  for i in catalogue():
    units, tail, why = frame(i.data + i.data)
    assert [u for _, u in units] == [i.data, i.data] and why == "empty", i.name
    assert classify(i.data) == ("ok", ""), (i.name, classify(i.data))
  return True
