"""Reference model for C08 (component rendezvous and life-cycle).

Independent of POX: plain dicts / sets.  The model is *driven* by the harness: every
operation issued to the real core and every observation made in a callback / event
listener is reported here, and each report returns None (fine) or a pair
(clause, text) naming the oracle clause that the observation breaks.

Rendezvous (order-free; the statement does not fix an order among several ready waiters):
  * a waiter (callback or dependency-driven sink wiring) may run only if it has been
    declared, has not run yet, and every component it names is registered;
  * when a top-level operation returns, no declared waiter whose components are all
    registered may still be pending ("immediately once they are");
  * nothing escapes from register / call_when_ready / listen_to_dependencies because a
    callback failed (checked by the harness: an exception out of a core call);
  * a sink's dependency set is computed per listen_to_dependencies call (sink_deps); the
    object the caller passed as `components` belongs to the caller and is not changed by
    the call (checked by the harness), so a collection reused for a second sink names the
    same components there.
Life-cycle:
  * GoingUp once, raised by goUp; Up exactly once, after GoingUp, never while a deferral
    that has been taken is still unreleased; once goUp has returned and no deferral is
    outstanding Up must have been raised before the operation ends;
  * a quit takes effect when it is issued after start-up (or, issued during start-up, when
    its retry runs after start-up): GoingDown then Down, once each, in that operation;
    later quits raise nothing.
Where the statement is silent the model is silent (e.g. Up released after a quit, Up at
the release instant inside a GoingUp handler vs. at the end of goUp).
"""


class Model (object):
  def __init__ (self):
    self.comps = {}          # name -> generation of the current object
    self.reg_calls = []      # (name, generation) in call order == expected ComponentRegistered log
    self.declared = {}       # wid -> frozenset(deps)
    self.pending = {}        # wid -> frozenset(deps)
    self.silent = set()      # wids whose firing is not observable by a callback
    self.fired = {}          # wid -> dict(name -> generation bound at firing time)
    # life-cycle
    self.starting = True
    self.in_goup = False
    self.goup_returned = False
    self.outstanding = set()
    self.log = []
    self.running = True
    self.quit_pending = 0    # quit requests parked until start-up is over
    self.expect_down = False
    self.down_due = False

  # ---- rendezvous ---------------------------------------------------------
  def register (self, name):
    g = self.comps.get(name, -1) + 1
    self.comps[name] = g
    self.reg_calls.append((name, g))
    return g

  def declare (self, wid, deps, silent=False):
    deps = frozenset(deps)
    self.declared[wid] = deps
    self.pending[wid] = deps
    if silent: self.silent.add(wid)

  @staticmethod
  def sink_deps (explicit, handler_components):
    """Components a dependency-driven sink names in ONE listen_to_dependencies call: the value
    of the explicit `components` argument at call time (None, one name, or any collection of
    names) plus the component part of each of its _handle_<component>_<Event> methods."""
    if explicit is None: names = set()
    elif isinstance(explicit, str): names = set([explicit])
    else: names = set(explicit)
    return frozenset(names) | frozenset(handler_components)

  @staticmethod
  def listen_options (listen_args, component):
    """Extra addListeners() options a sink asked for `component` in one listen_to_dependencies call:
    its own entry listen_args[component], completed by the wildcard entry listen_args[None] ("add it to
    all") for every option the own entry does not set.  Priority defaults to 0."""
    listen_args = listen_args or {}
    opts = dict(listen_args.get(None, {}))
    opts.update(listen_args.get(component, {}))
    opts.setdefault("priority", 0)
    return opts

  def invoked (self, wid, registry):
    """A waiter ran; registry = names registered on the real core at that instant."""
    if wid not in self.declared:
      return ("fired-undeclared", "waiter %s ran but was never declared" % (wid,))
    if wid in self.fired:
      return ("fired-twice", "waiter %s ran a second time" % (wid,))
    deps = self.declared[wid]
    missing = sorted((deps - set(registry)) | (deps - set(self.comps) - set(["core"])))
    if missing:
      return ("fired-early", "waiter %s (needs %s) ran while %s not registered"
              % (wid, sorted(deps), missing))
    self.pending.pop(wid, None)
    self.fired[wid] = dict((n, self.comps.get(n, 0)) for n in deps)
    return None

  def ready (self, deps):
    return all(n == "core" or n in self.comps for n in deps)

  def quiescent (self):
    """End of a top-level operation.  Returns (errors, auto) where auto lists the silent
    waiters the model now considers wired (their wiring is verified by probing)."""
    errs, auto = [], []
    for wid in sorted(self.pending, key=repr):
      deps = self.pending[wid]
      if self.ready(deps):
        if wid in self.silent:
          auto.append(wid)
        else:
          errs.append(("never-fired", "waiter %s (needs %s) has all its components registered "
                       "(%s) but did not run in the operation that completed them"
                       % (wid, sorted(deps), sorted(self.comps)), wid))
    for wid in auto:
      deps = self.pending.pop(wid)
      self.fired[wid] = dict((n, self.comps.get(n, 0)) for n in deps)
    return errs, auto

  # ---- life-cycle -------------------------------------------------------
  def begin_goup (self):
    self.starting = False
    self.in_goup = True

  def end_goup (self):
    self.in_goup = False
    self.goup_returned = True

  def abort_goup (self):
    """goUp did not return (a listener's failure came out of it): start-up failed, goup_returned stays False."""
    self.in_goup = False

  def take (self, d):
    self.outstanding.add(d)

  def release (self, d):
    self.outstanding.discard(d)

  def quit_called (self):
    if self.starting:
      self.quit_pending += 1
    else:
      self._quit_effective()

  def thread_runs (self):
    """The body of a thread spawned by quit() runs (sequentially, between operations)."""
    if self.starting:
      return                  # it parks itself again
    self.quit_pending -= 1
    self._quit_effective()

  def _quit_effective (self):
    if self.running:
      self.running = False
      self.expect_down = True
      self.down_due = True

  def observe (self, ev):
    n = self.log.count(ev)
    err = None
    if ev == "GoingUp":
      if n: err = ("goingup-twice", "GoingUpEvent raised a second time")
      elif not self.in_goup: err = ("goingup-outside-goUp", "GoingUpEvent raised outside goUp")
    elif ev == "Up":
      if n: err = ("up-twice", "UpEvent raised %d times" % (n + 1))
      elif "GoingUp" not in self.log: err = ("up-before-goingup", "UpEvent before GoingUpEvent")
      elif self.outstanding:
        err = ("up-while-deferred", "UpEvent raised while %d deferral(s) taken and not released"
               % len(self.outstanding))
    elif ev == "GoingDown":
      if n: err = ("goingdown-twice", "GoingDownEvent raised a second time")
      elif not self.expect_down: err = ("goingdown-unexpected", "GoingDownEvent without an effective quit")
    elif ev == "Down":
      if n: err = ("down-twice", "DownEvent raised a second time")
      elif "GoingDown" not in self.log: err = ("down-before-goingdown", "DownEvent before GoingDownEvent")
    self.log.append(ev)
    return err

  def end_of_op (self):
    errs = []
    if self.goup_returned and not self.outstanding and "Up" not in self.log:
      errs.append(("up-missing", "goUp returned and no deferral is outstanding but UpEvent was not raised"))
    if self.down_due:
      self.down_due = False
      if "GoingDown" not in self.log or "Down" not in self.log:
        errs.append(("down-missing", "quit took effect but the log is %s" % (self.log,)))
    return errs

  def canon (self):
    return (tuple(sorted(self.comps)),
            tuple(sorted(tuple(sorted(d)) for d in self.pending.values())),
            self.starting, self.goup_returned, len(self.outstanding), tuple(self.log),
            self.running, self.quit_pending)
