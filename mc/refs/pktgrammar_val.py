"""Content-aware frame families for C15: additional groups registered into mc/refs/pktgrammar.GROUPS (used by
mc/props/c15.py only; importing this module is what adds them).

The tlv.* / sel.* groups of pktgrammar.py vary the TYPE and the LENGTH of every element and fill the body with a fixed
pattern; byte corruption of the corpus changes one byte at a time.  Neither reaches an element whose CONTENT steers the
code that prints, decodes or re-encodes it: an identifier that starts with an address-family number followed by an
address of the right or the wrong size, a text field that is not UTF-8, a name that looks like a dotted quad, ...
Several bytes must have particular values at once (sub-type, family, size), so these are enumerated here:

  val.*    every field of the protocols POX parses whose value is an identifier, an address with a family / type tag, or
           text (the CARRIERS below, listed from the protocol specifications, not from the parser) x every value of a
           content alphabet: family-tagged addresses (IANA address family x address size), bare addresses of the usual
           sizes, and texts (ASCII, numeric-looking, printf directives, NUL, control characters, malformed and
           well-formed multi-byte UTF-8, empty, long).  All enclosing lengths and checksums fit.
  sel.iplen  the IPv4 total length / IPv6 payload length / UDP length field below, at and above the bytes really
           present x every kind of upper-layer protocol (dispatched-on and unknown), i.e. a header that is complete
           while the data it announces is not

Nothing here imports POX.
"""
import struct
from . import pktcorpus as K
from .pktcorpus import M1, M2, A1, A2, S1, S2, pattern, r_eth, r_ipv4, r_ipv6, r_tcp, r_icmp, r_icmp6, ph4, ph6, ip4, dns_name, lldp_tlv, dhcp_msg
from .pktgrammar import group, pay, u4, u6, e4, e6, eu4, lldp_frame, LLDP3, dhcp_frame

# ---------------------------------------------------------------------------------------------
# the content alphabet
# ---------------------------------------------------------------------------------------------

FAMILIES = (0, 1, 2, 3, 6, 7, 16, 17, 255)          # IANA address family numbers: reserved, IPv4, IPv6, NSAP, 802, E.163, DNS, DN, reserved
ADDR_SIZES = (0, 1, 3, 4, 5, 6, 8, 15, 16, 17, 20)   # around the sizes of IPv4 (4), MAC (6), EUI-64 (8), IPv6 (16), NSAP (20)

def addr_bytes (n, salt=0):
  """n address bytes; the canonical IPv4 / MAC / IPv6 address when n is its size, else a cut / extended one."""
  canon = {4: A1, 6: M1, 16: S1}.get(n)
  if canon is not None and not salt: return canon
  return (S2 + pattern(max(0, n - 16), salt))[:n]

TEXTS = (("empty", b''), ("name", b'eth0'), ("quad", b'10.0.0.1'), ("quad3", b'1.2.3'), ("quad5", b'1.2.3.4.5'), ("quadbig", b'256.1.1.1'),
         ("v6", b'fe80::1'), ("mac", b'02:00:00:00:00:01'), ("int", b'12345'), ("neg", b'-1'), ("fmt", b'%s%d%n%('), ("brace", b'{0}{x}'),
         ("nul", b'\x00'), ("midnul", b'a\x00b'), ("ctl", b'\x1b[2J\r\n\x7f'), ("space", b' '), ("hi", b'\xff\xfe\xfd'), ("cut-utf8", b'ab\xc3'),
         ("utf8", b'\xe2\x82\xac\xc3\xa9'), ("overlong", b'\xc0\xaf'), ("surrogate", b'\xed\xa0\x80'), ("bom16", b'\xff\xfeh\x00'),
         ("dots", b'..'), ("dot", b'.'), ("slash", b'../../x'), ("long", b'a' * 200), ("max", b'\xa5' * 255))

def contents (maxlen=255, thorough=False):
  """(label, bytes) of the content alphabet that fit into maxlen bytes."""
  out = []
  for f in FAMILIES:
    for n in ADDR_SIZES:
      out.append(("af%d.n%d" % (f, n), bytes([f]) + addr_bytes(n)))
  for n in ADDR_SIZES:
    out.append(("addr.n%d" % n, addr_bytes(n)))
    if thorough: out.append(("addr.n%d.b" % n, addr_bytes(n, 1)))
  out.extend(("text." + l, t) for l, t in TEXTS)
  return [(l, c) for l, c in out if len(c) <= maxlen]


# ---------------------------------------------------------------------------------------------
# val.lldp
# ---------------------------------------------------------------------------------------------

ID_SUBTYPES = (0, 1, 2, 3, 4, 5, 6, 7, 8, 255)

@group("val.lldp", "LLDP: chassis id and port id - every subtype of %r x every content of the alphabet (address family of "
       "%r x address size of %r; bare addresses of those sizes; %d texts) as the id; port description, system name, "
       "system description - every content; management address - address string length x every family-tagged content "
       "(length consistent), with a 4-byte OID; organisationally specific - OUI (00-80-c2, 00-12-0f, 00-26-e1, 0) x "
       "subtype (0,1,2,3,4,255) x contents of <= 8 bytes and the texts" % (ID_SUBTYPES, FAMILIES, ADDR_SIZES, len(TEXTS)))
def _val_lldp (thorough):
  cs = contents(254, thorough)
  for tt, pos in ((1, 0), (2, 1)):
    for sub in ID_SUBTYPES:
      for lab, c in cs:
        tl = list(LLDP3); tl[pos] = lldp_tlv(tt, bytes([sub]) + c)
        yield "lldp:id%d.s%d.%s" % (tt, sub, lab), lldp_frame(tl)
  for t in (4, 5, 6):
    for lab, c in contents(255, thorough):
      yield "lldp:text%d.%s" % (t, lab), lldp_frame(LLDP3 + [lldp_tlv(t, c)])
  for lab, c in contents(32, thorough):
    if not lab.startswith("af"): continue
    v = bytes([len(c)]) + c + b'\x02' + struct.pack("!I", 3) + b'\x04' + b'\x2b\x06\x01\x02'
    yield "lldp:mgmt.%s" % lab, lldp_frame(LLDP3 + [lldp_tlv(8, v)])
  for oui in (b'\x00\x80\xc2', b'\x00\x12\x0f', b'\x00\x26\xe1', b'\0\0\0'):
    for sub in (0, 1, 2, 3, 4, 255):
      for lab, c in contents(255, thorough):
        if len(c) > 8 and not lab.startswith("text."): continue
        yield "lldp:org%s.s%d.%s" % (oui.hex(), sub, lab), lldp_frame(LLDP3 + [lldp_tlv(127, oui + bytes([sub]) + c)])


# ---------------------------------------------------------------------------------------------
# val.dhcp
# ---------------------------------------------------------------------------------------------

DHCP_TEXT_CODES = (12, 14, 15, 17, 18, 40, 43, 56, 60, 61, 64, 66, 67, 77, 81, 82, 97, 119, 124, 125)

@group("val.dhcp", "DHCP: options that carry text, an identifier or sub-options (%r) x every content of the alphabet "
       "(<= 255 bytes) as the option value, between a message type option and the end option; the sname and file "
       "fields x every content that fits; client hardware address: htype (0,1,6,32,255) x hlen (0,1,6,8,16,17,255)"
       % (DHCP_TEXT_CODES,))
def _val_dhcp (thorough):
  mt = b'\x35\x01\x05'
  for code in DHCP_TEXT_CODES:
    for lab, c in contents(255, thorough):
      yield "dhcp:c%d.%s" % (code, lab), dhcp_frame(mt + bytes([code, len(c)]) + c + b'\xff')
  for lab, c in contents(64, thorough):
    yield "dhcp:sname.%s" % lab, dhcp_frame(mt + b'\xff', sname=c)
  for lab, c in contents(128, thorough):
    yield "dhcp:file.%s" % lab, dhcp_frame(mt + b'\xff', file=c)
  m = dhcp_msg(2, mt + b'\xff', yi=A2, si=A1)
  for ht in (0, 1, 6, 32, 255):
    for hl in (0, 1, 6, 8, 16, 17, 255):
      yield "dhcp:htype%d.hlen%d" % (ht, hl), eu4(m[:1] + bytes([ht, hl]) + m[3:], 67, 68)


# ---------------------------------------------------------------------------------------------
# val.dns / val.eap
# ---------------------------------------------------------------------------------------------

@group("val.dns", "DNS (UDP port 53 and mDNS): every content of the alphabet of <= 63 bytes as a label of the question "
       "name, as a label of an answer's owner name, as a label inside CNAME RDATA, and every content (<= 255) as a TXT "
       "character string, as whole RDATA of A / AAAA / TXT / type 0 / type 65535 records")
def _val_dns (thorough):
  q = dns_name("www.example.com")
  qd = q + struct.pack("!HH", 1, 1)
  rr = lambda name, t, rd: name + struct.pack("!HHIH", t, 1, 300, len(rd)) + rd
  hdr = lambda qn, an, fl=0x8180: struct.pack("!HHHHHH", 0xbeef, fl, qn, an, 0, 0)
  def wraps (m):
    yield "s53", eu4(m, 53, 40000)
    yield "mdns", eu4(m, 5353, 5353, dst=ip4("224.0.0.251"), ttl=255)
  for lab, c in contents(255, thorough):
    ms = []
    if 0 < len(c) <= 63:
      name = bytes([len(c)]) + c + b'\x03com\x00'
      ms.append(("qname", hdr(1, 0, 0x0100) + name + struct.pack("!HH", 1, 1)))
      ms.append(("owner", hdr(1, 1) + qd + rr(name, 1, A1)))
      ms.append(("cname", hdr(1, 1) + qd + rr(b'\xc0\x0c', 5, name)))
    ms.append(("txt", hdr(1, 1) + qd + rr(b'\xc0\x0c', 16, bytes([len(c)]) + c)))
    for t in (1, 28, 16, 0, 65535):
      ms.append(("rd%d" % t, hdr(1, 1) + qd + rr(b'\xc0\x0c', t, c)))
    for where, m in ms:
      for w, f in wraps(m):
        if not thorough and w != "s53" and where.startswith("rd"): continue
        yield "dns:%s:%s.%s" % (w, where, lab), f


@group("val.eap", "EAP in EAPOL: code (1,2) x EAP type (1 identity, 2 notification, 3 nak, 4 MD5, 13, 254, 255) x every "
       "content of the alphabet as the type data (lengths consistent)")
def _val_eap (thorough):
  for code in (1, 2):
    for et in (1, 2, 3, 4, 13, 254, 255):
      for lab, c in contents(255, thorough):
        eap = struct.pack("!BBH", code, 7, 5 + len(c)) + bytes([et]) + c
        yield "eap:c%d.t%d.%s" % (code, et, lab), r_eth(struct.pack("!BBH", 2, 0, len(eap)) + eap, 0x888e)


# ---------------------------------------------------------------------------------------------
# sel.iplen
# ---------------------------------------------------------------------------------------------

IPLEN_DELTAS = (-9, -8, -1, 0, 1, 8, 1000)

@group("sel.iplen", "announced length against the bytes really present: IPv4 total length, IPv6 payload length and UDP "
       "length each = real %r (and 65535) x upper layer (UDP to an unknown port / to DNS / to VXLAN, TCP, ICMP echo, "
       "IGMP, GRE, protocols 253 and 0 (unknown), 59 (no next header)); IPv4 header checksum valid; the frame itself "
       "also cut 1 and 9 bytes short of the announced length; EAPOL start / logoff / key / unknown type and ARP with 0, "
       "1, 18 and 46 bytes of trailing padding" % (IPLEN_DELTAS,))
def _iplen (thorough):
  inner = r_ipv4(u4(pay), 17, src=ip4("192.168.0.1"), dst=ip4("192.168.0.2"))
  def uppers (six):
    ph = ph6 if six else ph4
    u = (lambda d, sp, dp: K.r_udp(d, sp, dp, ph(17)))
    yield "udp", 17, u(pattern(40), 1234, 4321)
    yield "dns", 17, u(struct.pack("!HHHHHH", 0xbeef, 0x0100, 1, 0, 0, 0) + dns_name("www.example.com") + struct.pack("!HH", 1, 1), 40000, 53)
    yield "vxlan", 17, u(struct.pack("!II", 0x08 << 24, 0x123456 << 8) + r_eth(inner, 0x0800), 49152, 4789)
    yield "tcp", 6, r_tcp(pattern(40), 40000, 80, ph(6))
    if six: yield "icmp6", 58, r_icmp6(128, 0, struct.pack("!HH", 1, 1) + pay, ph(58))
    else:
      yield "icmp", 1, r_icmp(8, 0, struct.pack("!HH", 1, 1) + pay)
      yield "igmp", 2, K.r_igmp(b'\x16\x00', ip4("239.1.2.3"))
    yield "gre", 47, struct.pack("!HH", 0, 0x0800) + inner
    yield "p253", 253, pattern(40)
    yield "p0", 0, pattern(40)
    yield "none", 59, pattern(8)
  def deltas (real):
    for d in IPLEN_DELTAS:
      if 0 <= real + d <= 65535: yield "%+d" % d, real + d
    yield "max", 65535
  for un, proto, seg in uppers(False):
    f = r_ipv4(seg, proto)
    for dn, v in deltas(len(f)):
      g = bytearray(f); g[2:4] = struct.pack("!H", v); g[10:12] = b'\0\0'
      g[10:12] = struct.pack("!H", K.R.csum(bytes(g[:20])))
      yield "ip4:%s.tl%s" % (un, dn), r_eth(bytes(g), 0x0800)
    for cut in (1, 9):
      yield "ip4:%s.cut%d" % (un, cut), r_eth(f[:-cut], 0x0800)
  for un, nh, seg in uppers(True):
    f = r_ipv6(seg, nh)
    for dn, v in deltas(len(f) - 40):
      yield "ip6:%s.pl%s" % (un, dn), r_eth(f[:4] + struct.pack("!H", v) + f[6:], 0x86dd)
    for cut in (1, 9):
      yield "ip6:%s.cut%d" % (un, cut), r_eth(f[:-cut], 0x86dd)
  for six in (False, True):
    for un, proto, seg in uppers(six):
      if proto != 17: continue
      for dn, v in deltas(len(seg)):
        s = seg[:4] + struct.pack("!H", v) + seg[6:]
        yield "udp%d:%s.len%s" % (6 if six else 4, un, dn), (e6(s, 17) if six else e4(s, 17))
  for pad in (0, 1, 18, 46):
    for t in (1, 2, 3, 4, 9):
      yield "eapol:t%d.pad%d" % (t, pad), r_eth(struct.pack("!BBH", 2, t, 0) + b'\0' * pad, 0x888e)
    arp = struct.pack("!HHBBH", 1, 0x0800, 6, 4, 1) + M1 + A1 + b'\0' * 6 + A2
    yield "arp:pad%d" % pad, r_eth(arp + pattern(pad), 0x0806)
