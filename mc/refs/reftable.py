"""Reference flow table: the OpenFlow 1.0 FLOW_MOD / timeout state machine (spec sections 3.4, 4.6),
written from the specification text; independent of pox.openflow.flow_table.

A match is a dict field -> value holding only the *specified* fields; nw_src / nw_dst values are
(address, prefix_len) pairs.  An exact match specifies all twelve fields with /32 prefixes.
"""
from mc.refs import ofwire as W

FIELDS = ("in_port", "dl_src", "dl_dst", "dl_vlan", "dl_vlan_pcp", "dl_type", "nw_tos", "nw_proto",
          "nw_src", "nw_dst", "tp_src", "tp_dst")


def _pfx (v):
  return v if isinstance(v, tuple) else (v, 32)

def _mask (plen):
  return 0 if plen <= 0 else (0xffffffff << (32 - plen)) & 0xffffffff


def is_exact (m):
  return all(f in m for f in FIELDS) and _pfx(m["nw_src"])[1] == 32 and _pfx(m["nw_dst"])[1] == 32


def identical (a, b):
  if set(a) != set(b): return False
  for f in a:
    if f in ("nw_src", "nw_dst"):
      (x, p), (y, q) = _pfx(a[f]), _pfx(b[f])
      if p != q or (x & _mask(p)) != (y & _mask(q)): return False
    elif a[f] != b[f]: return False
  return True


def subsumes (general, specific):
  """Every packet matching `specific` matches `general` (non-strict command semantics)."""
  for f, v in general.items():
    if f not in specific: return False
    if f in ("nw_src", "nw_dst"):
      (x, p), (y, q) = _pfx(v), _pfx(specific[f])
      if p > q or (x & _mask(p)) != (y & _mask(p)): return False
    elif specific[f] != v: return False
  return True


def overlaps (a, b):
  """Some packet can match both."""
  for f in a:
    if f not in b: continue
    if f in ("nw_src", "nw_dst"):
      (x, p), (y, q) = _pfx(a[f]), _pfx(b[f])
      m = _mask(min(p, q))
      if (x & m) != (y & m): return False
    elif a[f] != b[f]: return False
  return True


def matches (m, pkt):
  """pkt: dict of the twelve header fields as extracted per spec (None = not applicable)."""
  for f, v in m.items():
    if f in ("nw_src", "nw_dst"):
      x, p = _pfx(v)
      if pkt.get(f) is None or (pkt[f] & _mask(p)) != (x & _mask(p)): return False
    elif pkt.get(f) != v: return False
  return True


class Entry (object):
  __slots__ = ("match", "priority", "actions", "flags", "idle", "hard", "cookie", "created", "touched",
               "packets", "bytes")
  def __init__ (self, **kw):
    for k, v in kw.items(): setattr(self, k, v)
  def eff (self):
    return (1 << 16) + 1 if is_exact(self.match) else self.priority
  def outputs_to (self, port):
    return port in self.actions       # actions: tuple of output ports (enough for the alphabet)
  def view (self, now):
    return (tuple(sorted((k, _pfx(v) if k in ("nw_src", "nw_dst") else v) for k, v in self.match.items())),
            self.priority, self.actions, self.idle, self.hard, self.cookie, self.packets, self.bytes,
            int(now - self.created))


class RefTable (object):
  def __init__ (self, capacity=None):
    # capacity: number of entries the table can hold (None = unbounded)
    self.entries = []
    self.capacity = capacity

  # each command returns (messages, ) where messages is a list of expected switch->controller
  # messages: ("error", etype, code|None) | ("flow_removed", entry_view, reason|None-if-ambiguous)
  def add (self, now, match, priority, actions, flags=0, idle=0, hard=0, cookie=0, is_add=True):
    if flags & W.OFPFF_EMERG:
      return [("error", W.OFPET_FLOW_MOD_FAILED, None)]
    # identical match and priority: replaced, counters reset, no notification - the entry takes the place of the
    # old one, so a replacement needs no free slot; anything else needs one (spec 4.6: no room -> ALL_TABLES_FULL)
    replaces = any(identical(e.match, match) and e.priority == priority for e in self.entries)
    full = self.capacity is not None and not replaces and len(self.entries) >= self.capacity
    if flags & W.OFPFF_CHECK_OVERLAP:
      for e in self.entries:
        if e.eff() == Entry(match=match, priority=priority).eff() and overlaps(e.match, match):
          # refused for two reasons at once: the specification does not rank them
          return [("error", W.OFPET_FLOW_MOD_FAILED, None if full else W.OFPFMFC_OVERLAP)]
    if full:
      return [("error", W.OFPET_FLOW_MOD_FAILED, W.OFPFMFC_ALL_TABLES_FULL)]
    self.entries = [e for e in self.entries if not (identical(e.match, match) and e.priority == priority)]
    self.entries.append(Entry(match=match, priority=priority, actions=actions, flags=flags, idle=idle,
                              hard=hard, cookie=cookie, created=now, touched=now, packets=0, bytes=0))
    return []

  def modify (self, now, match, priority, actions, strict, **addkw):
    hit = False
    for e in self.entries:
      if (strict and identical(e.match, match) and e.priority == priority) or \
         (not strict and subsumes(match, e.match)):
        e.actions = actions; hit = True
    if hit: return []
    return self.add(now, match, priority, actions, is_add=False, **addkw)

  def delete (self, now, match, priority, strict, out_port=None):
    msgs = []; keep = []
    for e in self.entries:
      sel = (identical(e.match, match) and e.priority == priority) if strict else subsumes(match, e.match)
      if sel and out_port is not None and not e.outputs_to(out_port): sel = False
      if sel:
        if e.flags & W.OFPFF_SEND_FLOW_REM:
          msgs.append(("flow_removed", e.view(now), W.OFPRR_DELETE))
      else:
        keep.append(e)
    self.entries = keep
    return msgs

  def sweep (self, now):
    msgs = []; keep = []
    for e in self.entries:
      idle = e.idle > 0 and (now - e.touched) > e.idle
      hard = e.hard > 0 and (now - e.created) > e.hard
      if idle or hard:
        if e.flags & W.OFPFF_SEND_FLOW_REM:
          reason = None if (idle and hard) else (W.OFPRR_IDLE_TIMEOUT if idle else W.OFPRR_HARD_TIMEOUT)
          msgs.append(("flow_removed", e.view(now), reason))
      else:
        keep.append(e)
    self.entries = keep
    return msgs

  def candidates (self, pkt):
    """Entries a lookup may legitimately return: the matching ones of maximal effective priority."""
    ms = [e for e in self.entries if matches(e.match, pkt)]
    if not ms: return []
    top = max(e.eff() for e in ms)
    return [e for e in ms if e.eff() == top]

  def view (self, now):
    return sorted(e.view(now) for e in self.entries)
