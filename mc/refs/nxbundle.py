"""Layout of the Nicira bundle action (NXAST_BUNDLE / NXAST_BUNDLE_LOAD), transcribed from Open vSwitch's
nicira-ext.h (struct nx_action_bundle, 32 bytes, followed by n_slaves 16-bit port numbers and zero padding to a
multiple of 8 bytes).  Independent of POX: only `struct`.

  ovs_be16 type (0xffff)   ovs_be16 len        ovs_be32 vendor (0x00002320)   ovs_be16 subtype (12 | 13)
  ovs_be16 algorithm       ovs_be16 fields     ovs_be16 basis
  ovs_be32 slave_type (an NXM header, NXM_OF_IN_PORT)   ovs_be16 n_slaves   ovs_be16 ofs_nbits   ovs_be32 dst
  uint8_t zero[4]
"""
import struct

NX_VENDOR_ID = 0x00002320
NXAST_BUNDLE, NXAST_BUNDLE_LOAD = 12, 13
NXM_OF_IN_PORT_HEADER = 0x00000002      # vendor 0, field 0, no mask, 2 bytes


def bundle (algorithm, fields, basis, slaves, load=None, path=''):
  """slaves: port numbers; load: None | (dst NXM header, offset, nbits) -> pieces [(field path, bytes)]"""
  n = 32 + 2 * len(slaves)
  n += -n % 8
  if load is None: subtype, ofs_nbits, dst = NXAST_BUNDLE, 0, 0
  else: subtype, ofs_nbits, dst = NXAST_BUNDLE_LOAD, (load[1] << 6) | (load[2] - 1), load[0]
  out = [('type', struct.pack('!H', 0xffff)), ('len', struct.pack('!H', n)), ('vendor', struct.pack('!L', NX_VENDOR_ID)),
         ('subtype', struct.pack('!H', subtype)), ('algorithm', struct.pack('!H', algorithm)),
         ('fields', struct.pack('!H', fields)), ('basis', struct.pack('!H', basis)),
         ('slave_type', struct.pack('!L', NXM_OF_IN_PORT_HEADER)), ('n_slaves', struct.pack('!H', len(slaves))),
         ('ofs_nbits', struct.pack('!H', ofs_nbits)), ('dst', struct.pack('!L', dst)), ('zero', b'\0' * 4)]
  for i, s in enumerate(slaves):
    out.append(('slaves[%d]' % i, struct.pack('!H', s)))
  pad = n - 32 - 2 * len(slaves)
  if pad: out.append(('pad', b'\0' * pad))
  return [(path + f, b) for f, b in out]


assert sum(len(b) for f, b in bundle(0, 0, 0, [])) == 32
assert sum(len(b) for f, b in bundle(1, 2, 3, [1, 2, 3, 4, 5], (0x00010004, 0, 16))) == 48
