"""C14: wire-range lattices for the builder table of pktcorpus.py, plus small independent verifiers.

pktcorpus.KINDS gives every header field a handful of boundary values that take part in the k-deviation product
(every pair / triple of deviations).  This module adds, for the same fields, the WIDE lattice of the field's wire
range, used as single deviations only (each value once, in a stack's base vector):

    unsigned field of w bits   0, 1, 2, 2^(w-1)-1, 2^(w-1), 2^(w-1)+1, 2^w-2, 2^w-1, every single bit 1<<k,
                               every single bit cleared (2^w-1) ^ (1<<k)
    IPv4 address field         the 32 bit lattice (so 0.0.0.0, 127.255.255.255, 128.0.0.0, 128.0.0.1, 255.255.255.254,
                               255.255.255.255, every single-bit address, every all-ones-but-one-bit address)
    MAC address field          the 48 bit lattice;  IPv6 address field: the 128 bit lattice
    UDP / TCP port             the 16 bit lattice minus the ports that select an application parser

and the same lattices inside the elements of list valued fields (RIP entries, IGMPv3 group records, DHCP options, LLDP
TLVs, neighbour discovery options, TCP options), one element attribute at a time.  Field widths are written down here
from the RFC / IEEE layouts, not read from the library.  A wide deviation is (layer, field, "w<n>"): entry n of
wide_values(kind, field); values() / build() here understand both table deviations (integer index) and wide ones.

Nothing in this file calls the POX code that is checked; build() assembles objects through the table's make functions.
"""
import struct
from . import pktcorpus as K


# ---------------------------------------------------------------------------------------------
# lattices
# ---------------------------------------------------------------------------------------------

def lattice (bits):
  top = (1 << bits) - 1
  half = 1 << (bits - 1)
  vals = set([0, 1, 2, half - 1, half, half + 1, top - 1, top])
  for k in range(bits):
    vals.add(1 << k)
    vals.add(top ^ (1 << k))
  return sorted(v for v in vals if 0 <= v <= top)

def ip4_text (v): return "%d.%d.%d.%d" % (v >> 24, (v >> 16) & 255, (v >> 8) & 255, v & 255)
def mac_text (v): return ":".join("%02x" % ((v >> s) & 255) for s in range(40, -8, -8))
def ip6_text (v):
  import ipaddress
  return str(ipaddress.IPv6Address(v))

IP4W = [ip4_text(v) for v in lattice(32)]
MACW = [mac_text(v) for v in lattice(48)]
IP6W = [ip6_text(v) for v in lattice(128)]
APP_PORTS = frozenset([53, 67, 68, 520, 4789, 5353])       # IANA: DNS, BOOTP server / client, RIP, VXLAN, mDNS
PORTW = [v for v in lattice(16) if v not in APP_PORTS]

# (kind, field) -> width in bits | "ip4" | "mac" | "ip6" | "port".  Selector fields (ethertype, protocol, next header, ICMP
# type, IGMP type, EAPOL type, EAP code) are left to the table: their values decide which header follows.
SCALAR = dict(
  eth=dict(dst="mac", src="mac"),
  vlan=dict(pcp=3, cfi=1, id=12),                                        # IEEE 802.1Q
  llc=dict(dsap=8, ssap=8),
  arp=dict(opcode=16, hwsrc="mac", hwdst="mac", protosrc="ip4", protodst="ip4"),   # RFC 826
  mpls=dict(label=20, tc=3, ttl=8),                                      # RFC 3032
  eapol=dict(version=8), eap=dict(id=8),
  lldp=dict(ttl=16, chassis_subtype=8, port_subtype=8),
  ipv4=dict(tos=8, id=16, flags=3, ttl=8, srcip="ip4", dstip="ip4"),     # RFC 791
  udp=dict(srcport="port", dstport="port"),
  tcp=dict(srcport="port", dstport="port", seq=32, ack=32, res=4, flags=8, win=16, urg=16),
  icmp=dict(code=8), echo=dict(id=16, seq=16), unreach=dict(unused=16, next_mtu=16), time_exceeded=dict(unused=32),
  igmp=dict(max_response_time=8, address="ip4"),                         # RFC 2236
  gre=dict(key=32, seq=32, csum=16, recursion=3, ver=3),                 # RFC 1701
  vxlan=dict(vni=24),                                                    # RFC 7348
  dhcp=dict(op=8, hops=8, xid=32, secs=16, flags=16, ciaddr="ip4", yiaddr="ip4", siaddr="ip4", giaddr="ip4", chaddr="mac"),
  dns=dict(id=16, opcode=4, rcode=4),
  rip=dict(command=8, version=8),
  ipv6=dict(tc=8, flow=20, hop_limit=8, srcip="ip6", dstip="ip6"),       # RFC 8200
  icmpv6=dict(code=8), echo6=dict(id=16, seq=16), unreach6=dict(unused=32), toobig6=dict(mtu=32),
  nd_ra=dict(hop_limit=8, lifetime=16, reachable=32, retrans_timer=32), nd_ns=dict(target="ip6"), nd_na=dict(target="ip6"),
)
SCALAR["ipv6nn"] = SCALAR["ipv6"]


def _scalar_values (spec):
  if spec == "ip4": return IP4W
  if spec == "mac": return MACW
  if spec == "ip6": return IP6W
  if spec == "port": return PORTW
  return lattice(spec)


# ---- list valued fields: ONE attribute of ONE element over its lattice ----------------------------------------------------

def _rip ():
  out = []
  for a in IP4W:
    out.append([(a, 16, "0.0.0.0", 1)])                  # network
    out.append([("10.1.0.0", "mask:" + a, "0.0.0.0", 1)])  # mask (32 bits on the wire; RIP-2 does not demand contiguity)
    out.append([("10.1.0.0", 16, a, 1)])                 # next hop
  out.extend([("10.1.0.0", n, "0.0.0.0", 1)] for n in range(0, 33))      # every prefix length
  out.extend([("10.1.0.0", 16, "0.0.0.0", m)] for m in lattice(32))      # metric is a 32 bit field
  out.append([("128.0.0.0", 1, "128.0.0.0", 1), ("0.0.0.0", 1, "127.255.255.255", 2)])   # the two halves of a default route
  return out

def _igmp3 ():
  out = []
  for a in IP4W:
    out.append([(4, a, [], b"")])                          # group address
    out.append([(1, "239.1.2.3", [a], b"")])               # a source address
    out.append([(1, "239.1.2.3", ["10.0.0.1", a], b"\x01\x02\x03\x04")])
  out.extend([(t, "239.1.2.3", [], b"")] for t in lattice(8))             # record type
  # number of sources over the boundaries of its 16 bit count field that fit a 1500 byte datagram, auxiliary data words
  for n in (0, 1, 2, 3, 255, 256, 257, 360):
    out.append([(2, "239.1.2.3", [ip4_text(0x0a000001 + i) for i in range(n)], b"")])
  for w in (1, 2, 255):
    out.append([(2, "239.1.2.3", ["10.0.0.1"], K.pattern(4 * w))])
  out.append([(1 + i % 6, ip4_text(0xef010000 + i), ["10.0.0.%d" % (1 + j) for j in range(i % 3)], b"") for i in range(64)])
  return out

def _dhcp ():
  out = []
  for k in ("mask", "server", "request_ip", "bcast"):
    out.extend([(k, a)] for a in IP4W)
  for k in ("routers", "dns", "timesrv"):
    out.extend([(k, [a])] for a in IP4W)
    out.extend([(k, ["10.0.0.1", a])] for a in IP4W)
  for k in ("lease", "t1", "t2"):
    out.extend([(k, v)] for v in lattice(32))
  # every option class of the library on its own (a message that carries just that option)
  out.extend([("msgtype", t)] for t in (1, 2, 3, 4, 5, 6, 7, 8, 0, 255))
  out.extend([("overload", v)] for v in (1, 2, 3, 0, 255))
  out.extend([("params", list(p))] for p in ((1,), (1, 3, 6, 15), tuple(range(1, 255)), (0,), (255,)))
  out.extend([("raw", c, K.pattern(n))] for c in (61, 224, 254, 128) for n in (0, 1, 2, 255))
  for k in ("domain", "host", "vendor", "errmsg"):
    out.extend([(k, K.pattern(n))] for n in (0, 1, 2, 254, 255))
  return out

def _lldp ():
  out = []
  for a in IP4W:
    out.append([("management_address", 1, K.ip4(a), 2, 3, b"\x2b\x06")])
  for v in lattice(32):
    out.append([("management_address", 1, b"\x0a\x00\x00\x01", 2, v, b"")])
  for v in lattice(8):
    out.append([("management_address", v, b"\x0a\x00\x00\x01", 2, 3, b"")])
    out.append([("management_address", 1, b"\x0a\x00\x00\x01", v, 3, b"")])
    out.append([("organizationally_specific", b"\x00\x26\xe1", v, b"x")])
  for v in lattice(16):
    out.append([("system_capabilities", v, 0)])
    out.append([("system_capabilities", 0xffff, v)])
  for v in lattice(24):
    out.append([("organizationally_specific", struct.pack("!I", v)[1:], 1, b"x")])
  for t in range(9, 127):                                                 # every TLV type the library has no class for
    out.append([("unknown", t, b"\x00\xff")])
  for n in (0, 1, 2, 255, 256, 510, 511):                                 # information string lengths around the 9 bit field
    out.append([("system_description", K.pattern(n))])
    out.append([("unknown", 126, K.pattern(n))])
  for n in (0, 1, 506, 507):
    out.append([("organizationally_specific", b"\x00\x12\x0f", 1, K.pattern(n))])
  return out

def _nd (kinds):
  out = []
  if "slla" in kinds: out.extend([("slla", m)] for m in MACW)
  if "tlla" in kinds: out.extend([("tlla", m)] for m in MACW)
  if "mtu" in kinds: out.extend([("mtu", v)] for v in lattice(32))
  if "prefix" in kinds:
    out.extend([("prefix", v, True, False, 1, 2, "2001:db8::")] for v in lattice(8))
    out.extend([("prefix", 64, f1, f2, 1, 2, "2001:db8::")] for f1 in (False, True) for f2 in (False, True))
    out.extend([("prefix", 64, True, True, v, 2, "2001:db8::")] for v in lattice(32))
    out.extend([("prefix", 64, True, True, 1, v, "2001:db8::")] for v in lattice(32))
    out.extend([("prefix", 64, True, True, 1, 2, a)] for a in IP6W)
  if "generic" in kinds:
    out.extend([("generic", t, K.pattern(6))] for t in lattice(8) if t not in (1, 2, 3, 4, 5))
    out.extend([("generic", 14, K.pattern(8 * n - 2))] for n in (1, 2, 3, 32, 255))
  return out

def _tcp ():
  out = []
  out.extend([("MSS", v)] for v in lattice(16))
  out.extend([("WS", v)] for v in lattice(8))
  out.extend([("NOP",), ("NOP",), ("TS", v, 1)] for v in lattice(32))
  out.extend([("NOP",), ("NOP",), ("TS", 1, v)] for v in lattice(32))
  out.extend([("NOP",), ("NOP",), ("SACK", ((v, 7),))] for v in lattice(32))
  out.extend([("NOP",), ("NOP",), ("SACK", ((7, v),))] for v in lattice(32))
  out.extend([("NOP",), ("NOP",), ("SACK", tuple((10 * i, 10 * i + 5) for i in range(n)))] for n in (1, 2, 3, 4))
  out.extend([("UNK", k, b"ab")] for k in lattice(8) if k not in (0, 1, 2, 3, 4, 5, 8, 30))
  out.extend([("UNK", 254, K.pattern(n))] for n in (0, 1, 2, 3, 37, 38))
  out.extend([("NOP",)] * n for n in (1, 2, 3, 4, 5, 39, 40))
  return out

_LISTS = None
def _lists ():
  global _LISTS
  if _LISTS is None:
    _LISTS = {("rip", "entries"): _rip(), ("igmp3", "records"): _igmp3(), ("dhcp", "options"): _dhcp(), ("lldp", "tlvs"): _lldp(),
              ("nd_rs", "options"): _nd(("slla", "generic")), ("nd_ns", "options"): _nd(("slla", "generic")),
              ("nd_na", "options"): _nd(("tlla",)), ("nd_ra", "options"): _nd(("slla", "mtu", "prefix")),
              ("tcp", "options"): _tcp()}
  return _LISTS


def wide_values (kind, field):
  spec = SCALAR.get(kind, {}).get(field)
  if spec is not None: return _scalar_values(spec)
  return _lists().get((kind, field), [])


def is_wide (dev):
  return isinstance(dev[2], str)


def wide_deviations (st, layers=None):
  """[(layer, field, 'w<n>')] of a stack: every value of the wide lattice of every field the stack does not pin, minus the
  values the table already has for that field.  layers: restrict to these layer indices."""
  out = []
  for li, (k, pins) in enumerate(st["layers"]):
    if layers is not None and li not in layers: continue
    for f, vals in K.KINDS[k]["fields"].items():
      if f in pins: continue
      have = set(repr(v) for v in vals)
      for n, v in enumerate(wide_values(k, f)):
        if repr(v) not in have: out.append((li, f, "w%d" % n))
  return out


def values (st, devs):
  """Per-layer field values: base vector with table deviations (integer index) and wide deviations ('w<n>') applied."""
  vs = K.values(st, tuple(d for d in devs if not is_wide(d)))
  for d in devs:
    if is_wide(d):
      li, f, w = d
      vs[li][f] = wide_values(st["layers"][li][0], f)[int(w[1:])]
  return vs


def build (P, st, devs, plen):
  """pktcorpus.build with wide deviations."""
  vs = values(st, devs)
  if plen < 0: payload = K.zero_checksum_payload(st, vs)
  else: payload = K.pattern(plen) if st["payload"] else None
  inner = payload
  objs = []
  for (k, pins), v in reversed(list(zip(st["layers"], vs))):
    inner = K.KINDS[k]["make"](P, v, inner)
    objs.append(inner)
  objs.reverse()
  return inner, objs, vs, payload


# ---------------------------------------------------------------------------------------------
# additions to the table (additive: new mnemonics, one new kind, new stacks)
# ---------------------------------------------------------------------------------------------

_table_dhcp_options = K._dhcp_options
def _dhcp_options (P, opts):
  """pktcorpus._dhcp_options plus the option classes it has no mnemonic for."""
  out = []
  for o in opts:
    if o[0] == "overload": out.append(P.dhcp.DHCPOptionOverloadOption(o[1]))
    else: out.extend(_table_dhcp_options(P, [o]))
  return out
K._dhcp_options = _dhcp_options

# IPv6 header announcing "no next header" (59) in front of payload bytes.  RFC 8200 4.7: octets past the end of a header whose
# Next Header field is 59 "must be ignored and passed on unchanged if the packet is forwarded".  A kind of its own so that
# its violation keys are not those of the ordinary IPv6 payload path.
if "ipv6nn" not in K.KINDS:
  K.KINDS["ipv6nn"] = dict(K.KINDS["ipv6"])
  K.stack("eth/ipv6/none/raw", [K.E(0x86dd), ("ipv6nn", dict(next_header_type=[59], ext=[[]]))])


# ---------------------------------------------------------------------------------------------
# independent verifiers for length / count fields that rfc1071.verify_frame does not walk
# ---------------------------------------------------------------------------------------------

def u16 (b, o): return (b[o] << 8) | b[o + 1]


def _l3 (frame):
  """(ethertype, offset of the L3 header) behind the Ethernet header and any 802.1Q tags."""
  if len(frame) < 14: return None, 0
  et, off = u16(frame, 12), 14
  while et == 0x8100 and len(frame) >= off + 4:
    et, off = u16(frame, off + 2), off + 4
  return et, off


def eapol_issues (frame):
  """IEEE 802.1X-2004 7.5.5: Packet Body Length = length of the packet body; RFC 3748 section 4: EAP Length = code, identifier,
  length and data.  (frames carry no trailer padding.)  -> [(where, field, expected, actual)]"""
  et, off = _l3(frame)
  if et != 0x888e or len(frame) < off + 4: return []
  out = []
  body = len(frame) - off - 4
  typ = frame[off + 1]
  if u16(frame, off + 2) != body:
    out.append(("eapol", "bodylen", body, u16(frame, off + 2)))
  if typ == 0 and body >= 4 and u16(frame, off + 6) != body:
    out.append(("eap", "length", body, u16(frame, off + 6)))
  return out


def igmp3_issues (frame, records):
  """RFC 3376 4.2: an IGMPv3 membership report emitted for `records` = [(type, group, [sources], aux bytes)]: number of group
  records, and per record aux data length (32 bit words) and number of sources (network byte order), must be the counts of
  what was asked for, and the records must fill the message exactly.  -> [(where, field, expected, actual)]"""
  et, off = _l3(frame)
  if et != 0x0800 or len(frame) < off + 20: return []
  hl = (frame[off] & 15) * 4
  if frame[off + 9] != 2 or hl < 20: return []
  m = frame[off + hl:]
  if len(m) < 8 or m[0] != 0x22: return []
  out = []
  if u16(m, 6) != len(records):
    out.append(("igmp3", "num_records", len(records), u16(m, 6)))
    return out
  o = 8
  for t, grp, srcs, aux in records:
    if len(m) < o + 8:
      out.append(("igmp3", "record_bytes", "8 more at offset %d" % o, len(m) - o)); return out
    if m[o + 1] != len(aux) // 4: out.append(("igmp3", "aux_data_len", len(aux) // 4, m[o + 1]))
    if u16(m, o + 2) != len(srcs): out.append(("igmp3", "num_sources", len(srcs), u16(m, o + 2)))
    if out: return out
    o += 8 + 4 * len(srcs) + len(aux)
  return out
