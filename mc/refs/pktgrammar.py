"""Structure-aware frame families for C15 (used by mc/props/c15.py only).

The corpus of mc/refs/pktcorpus.py holds a few valid frames per parser path; byte corruption and truncation of those
frames never produce a frame whose *structure* differs consistently from the corpus (a TLV whose length field says 16
AND that is 16 bytes long AND whose enclosing lengths and checksums still fit), nor a frame much longer or much
deeper than the corpus frames.  This module enumerates such frames exhaustively within stated finite bounds:

  tlv.*     for every type-length-value container of the protocols POX parses (IPv4 options, TCP options incl. MPTCP
            subtypes, DHCP options, LLDP TLVs with their sub-typed bodies, IPv6 extension headers, ICMPv6 ND options,
            IGMPv3 group records, GRE optional fields, ARP address lengths, EAPOL/EAP lengths, RIP entries, DNS
            sections/names/RRs): every element type of a stated type set x every declared length of a stated length
            set, the element body sized to fit the declared length ("consistent"), placed alone, before and after a
            well-formed sibling; all enclosing length fields and checksums are valid (computed with struct +
            refs/rfc1071, never with POX)
  sel.*     every value of a dispatch/selector field (ethertype / 802.3 length, IP protocol, IPv6 next header, UDP
            ports, ICMP and ICMPv6 type, IGMP type, GRE flag word, VXLAN flags, LLC control) over a fixed well-formed
            payload, checksums valid
  deep.*    every repeatable or self-nesting unit (MPLS label stack, VLAN tag stack, IPv6 extension header chain,
            IP-in-GRE, Ethernet-in-GRE, Ethernet-in-VXLAN, ICMP / ICMPv6 errors quoting ICMP errors, and the element
            lists of every TLV container) repeated N times for N on a ladder 1,2,3,4,6,8,12,16,... up to the largest
            frame an ofp_packet_in can carry (65535 - 18 bytes) or the protocol's own limit; plus plain payload sizes
            on the same ladder

Nothing here imports POX.  Every generator is deterministic and yields (label, frame bytes); labels are unique within
a group.  `GROUPS[name] = (generator(thorough), description)`.
"""
import struct
from . import rfc1071 as R
from . import pktcorpus as K
from .pktcorpus import (M1, M2, A1, A2, S1, S2, pattern, r_eth, r_eth8023, r_vlan, r_ipv4, r_udp, r_tcp, r_icmp,
                        r_icmp6, r_igmp, r_ipv6, ph4, ph6, ip4, ip6, dns_name, lldp_tlv, dhcp_msg)

MAX_FRAME = 65535 - 18          # largest data field of an ofp_packet_in (16-bit message length, 18-byte header)

GROUPS = {}

def group (name, desc):
  def deco (fn):
    assert name not in GROUPS
    GROUPS[name] = (fn, desc)
    return fn
  return deco


def cases (name, thorough=False):
  seen = set()
  for label, frame in GROUPS[name][0](thorough):
    assert label not in seen, (name, label)
    seen.add(label)
    yield label, bytes(frame)


def ladder (limit, start=1):
  """start.., then 1,2,3,4,6,8,12,16,24,32,... (powers of two and the values half way between) and limit itself."""
  out = []
  n = 1
  while n <= limit:
    for v in (n, n + n // 2):
      if start <= v <= limit and v not in out: out.append(v)
    n *= 2
  for v in (start, 2, 3, limit - 1, limit):
    if start <= v <= limit and v not in out: out.append(v)
  return sorted(out)


pay = pattern(18)
u4 = lambda d, sp=1234, dp=4321, src=A1, dst=A2: r_udp(d, sp, dp, ph4(17, src, dst))
u6 = lambda d, sp=1234, dp=4321: r_udp(d, sp, dp, ph6(17))
e4 = lambda seg, proto, **kw: r_eth(r_ipv4(seg, proto, **kw), 0x0800)
e6 = lambda seg, nh, **kw: r_eth(r_ipv6(seg, nh, **kw), 0x86dd)
eu4 = lambda d, sp=1234, dp=4321, **kw: e4(u4(d, sp, dp), 17, **kw)
i6 = lambda t, c, rest, **kw: e6(r_icmp6(t, c, rest, ph6(58)), 58, **kw)


def body (canon, n, salt=0):
  """n bytes: the canonical body `canon` cut or extended (with the deterministic pattern) to n bytes."""
  if n <= 0: return b''
  return (canon + pattern(max(0, n - len(canon)), salt))[:n]


def placements (alphabet, good):
  """alone, before a well-formed sibling, after a well-formed sibling"""
  for lab, a in alphabet:
    yield lab, [a]
    yield lab + "+good", [a, good]
    yield "good+" + lab, [good, a]


# =============================================================================================
# tlv.*
# =============================================================================================

ND_BODY = {133: b'\0' * 4, 134: struct.pack("!BBHII", 64, 0xc0, 1800, 0, 0), 135: b'\0\0\0\0' + S2,
           136: b'\x60\0\0\0' + S2, 137: b'\0\0\0\0' + S2 + S1}
ND_CANON = {1: M1, 2: M2, 3: b'\x40\xc0' + struct.pack("!III", 86400, 14400, 0) + ip6("2001:db8::"),
            4: b'\0' * 6 + r_ipv6(u6(pay), 17)[:48], 5: b'\0\0' + struct.pack("!I", 1500)}

def nd_option (t, units, salt=0):
  return bytes([t, units]) + body(ND_CANON.get(t, b''), max(units, 1) * 8 - 2, salt)

ND_TYPES = (0, 1, 2, 3, 4, 5, 6, 7, 13, 14, 24, 25, 31, 253, 255)
ND_UNITS = (0, 1, 2, 3, 4, 5, 6, 32)

@group("tlv.nd", "ICMPv6 neighbour discovery (types 133..137): one option of every type of %r x every length of %r "
       "units (8 bytes each; body sized to fit), alone / before / after a well-formed option; thorough: all ordered pairs "
       "of types (1,2,3,5,14) x units 1..5" % (ND_TYPES, ND_UNITS))
def _nd (thorough):
  alpha = [("t%d.u%d" % (t, u), nd_option(t, u)) for t in ND_TYPES for u in ND_UNITS]
  for msg in sorted(ND_BODY):
    good = nd_option(1 if msg != 136 else 2, 1)
    for lab, opts in placements(alpha, good):
      yield "nd%d:%s" % (msg, lab), i6(msg, 0, ND_BODY[msg] + b''.join(opts), hop=255)
    if thorough:
      small = [("t%d.u%d" % (t, u), nd_option(t, u, 1)) for t in (1, 2, 3, 5, 14) for u in (1, 2, 3, 4, 5)]
      for la, a in small:
        for lb, b in small:
          yield "nd%d:%s,%s" % (msg, la, lb), i6(msg, 0, ND_BODY[msg] + a + b, hop=255)


def tcp_seg (optbytes, data, hdr_len=None, ph=None, **kw):
  """TCP segment whose option area is optbytes[:hdr_len-20] (padded with NOPs to hdr_len when shorter); bytes of
  optbytes beyond the header continue in the payload (an option that overruns the header)."""
  if hdr_len is None:
    hdr_len = min(60, 20 + ((len(optbytes) + 3) & ~3))
  area = optbytes[:hdr_len - 20]
  area += b'\x01' * (hdr_len - 20 - len(area))
  spill = optbytes[hdr_len - 20:]
  return r_tcp(spill + data, 40000, 80, ph or ph4(6), options=area, **kw)

TCP_KNOWN = (0, 1, 2, 3, 4, 5, 8, 30, 34, 254)
TCP_SPILL_L = (5, 8, 10, 12, 20, 39, 40, 41, 42, 43, 44, 45, 60, 255)
MSS = b'\x02\x04\x05\xb4'

@group("tlv.tcp", "TCP options over IPv4: every kind 0..255 x every declared length 2..40 with a body that fits the "
       "header (NOP padded); every kind x length 0,1; every kind x lengths %r declared in a 24-byte header so that the "
       "option overruns the header into >= 300 bytes of data, and the same at the end of a 60-byte header; kinds %r "
       "also before/after an MSS option; MPTCP (kind 30): every subtype 0..15 x flag nibble (0,1,15) x length 3..40, "
       "DSS: every flag value 0..31 x length 4..28; thorough: the same over IPv6" % (TCP_SPILL_L, TCP_KNOWN))
def _tcp (thorough):
  data = pattern(300)
  wraps = [("4", lambda seg: e4(seg, 6), ph4(6))]
  if thorough: wraps.append(("6", lambda seg: e6(seg, 6), ph6(6)))
  for w, wrap, ph in wraps:
    for k in range(256):
      for L in (0, 1):
        yield "tcp%s:k%d.l%d" % (w, k, L), wrap(tcp_seg(bytes([k, L]) + pattern(2), pay, ph=ph))
      for L in range(2, 41):
        opt = bytes([k, L]) + pattern(L - 2, k)
        yield "tcp%s:k%d.l%d" % (w, k, L), wrap(tcp_seg(opt, pay, ph=ph))
        if k in TCP_KNOWN and L <= 36:
          yield "tcp%s:k%d.l%d+mss" % (w, k, L), wrap(tcp_seg(opt + MSS, pay, ph=ph))
          yield "tcp%s:mss+k%d.l%d" % (w, k, L), wrap(tcp_seg(MSS + opt, pay, ph=ph))
      for L in TCP_SPILL_L:
        opt = bytes([k, L]) + pattern(L - 2, k)
        yield "tcp%s:k%d.l%d.over24" % (w, k, L), wrap(tcp_seg(opt, data, hdr_len=24, ph=ph))
        if k in TCP_KNOWN or k % 16 == 9:
          yield "tcp%s:k%d.l%d.over60" % (w, k, L), wrap(tcp_seg(b'\x01' * 36 + opt, data, hdr_len=60, ph=ph))
    for sub in range(16):
      for low in (0, 1, 15):
        for L in range(3, 41):
          opt = bytes([30, L, (sub << 4) | low]) + pattern(L - 3, sub)
          yield "tcp%s:mp%d.f%d.l%d" % (w, sub, low, L), wrap(tcp_seg(opt, pay, ph=ph))
    for fl in range(32):
      for L in range(4, 29):
        opt = bytes([30, L, 0x20, fl]) + pattern(L - 4, fl)
        yield "tcp%s:dss.f%d.l%d" % (w, fl, L), wrap(tcp_seg(opt, pay, ph=ph))


IP4OPT_L = (0, 1, 2, 3, 4, 7, 8, 11, 12, 39, 40)

@group("tlv.ip4opt", "IPv4 options: every option type 0..255 x declared length %r, body sized to fit, header padded "
       "with EOL; payload UDP" % (IP4OPT_L,))
def _ip4opt (thorough):
  for t in range(256):
    for L in IP4OPT_L:
      o = bytes([t, L]) + pattern(max(0, L - 2), t)
      o = o[:40]
      o += b'\0' * (-len(o) % 4)
      yield "ip4opt:t%d.l%d" % (t, L), e4(u4(pay), 17, options=o)


DHCP_L = (0, 1, 2, 3, 4, 5, 7, 8, 9, 16, 255)

def dhcp_frame (opts, **kw):
  return eu4(dhcp_msg(2, opts, yi=A2, si=A1, **kw), 67, 68)

@group("tlv.dhcp", "DHCP options: every code 0..255 x every length of %r (value sized to fit), (a) after a message "
       "type option and before the end option, (b) the same option twice (RFC 3396 concatenation), thorough (c) "
       "alone without end option; option overload (52) values 0..4 with well-formed / garbage option areas in sname "
       "and file; magic cookie present / wrong / absent" % (DHCP_L,))
def _dhcp (thorough):
  mt = b'\x35\x01\x05'
  for c in range(256):
    for L in DHCP_L:
      o = bytes([c, L]) + body(A1 + A2, L, c)
      yield "dhcp:c%d.l%d" % (c, L), dhcp_frame(mt + o + b'\xff')
      yield "dhcp:c%d.l%d.twice" % (c, L), dhcp_frame(mt + o + o + b'\xff')
      if thorough:
        yield "dhcp:c%d.l%d.alone" % (c, L), dhcp_frame(o)
  inner = b'\x0c\x02h1\x03\x04' + A1 + b'\xff'
  for v in range(5):
    for nm, sn, fl in (("good", inner, inner), ("garbage", pattern(64), pattern(128)), ("noend", b'\x0c\x3e' + b'h' * 62, b'\x0f\x7e' + b'd' * 126)):
      yield "dhcp:overload%d.%s" % (v, nm), dhcp_frame(mt + b'\x34\x01' + bytes([v]) + b'\xff', sname=sn, file=fl)
  m = dhcp_msg(2, mt + b'\xff', yi=A2, si=A1)
  yield "dhcp:cookie.wrong", eu4(m[:236] + b'\x63\x82\x53\x64' + m[240:], 67, 68)
  yield "dhcp:cookie.absent", eu4(m[:236], 67, 68)
  yield "dhcp:cookie.only", eu4(m[:240], 67, 68)
  for hl in (0, 1, 6, 16, 17, 255):
    yield "dhcp:hlen%d" % hl, eu4(m[:2] + bytes([hl]) + m[3:], 67, 68)


LLDP3 = [lldp_tlv(1, b'\x04' + M1), lldp_tlv(2, b'\x07' + b'eth0'), lldp_tlv(3, struct.pack("!H", 120))]
LLDP_L = (0, 1, 2, 3, 4, 5, 6, 7, 8, 9, 10, 255, 256, 511)
LLDP_MAC = K.mac("01:80:c2:00:00:0e")
LLDP_CANON = {1: b'\x04' + M1, 2: b'\x07eth0', 3: b'\x00\x78', 7: b'\x00\x14\x00\x04',
              8: b'\x05\x01' + A1 + b'\x02\x00\x00\x00\x03\x00', 127: b'\x00\x26\xe1\x00dpid:1'}

def lldp_frame (tlvs, end=True):
  return r_eth(b''.join(tlvs) + (lldp_tlv(0, b'') if end else b''), 0x88cc, dst=LLDP_MAC)

@group("tlv.lldp", "LLDP: every TLV type 0..127 x every length of %r (value sized to fit) as fourth TLV; types "
       "0,1,2,3,4,8,127 also in place of each mandatory TLV; chassis id and port id: every subtype 0..8,255 x id length "
       "0..8,16,254; TTL length 0..4; management address: address length x interface subtype x OID length "
       "consistent and off by one; organisationally specific: lengths 0..6; with and without End TLV" % (LLDP_L,))
def _lldp (thorough):
  for t in range(128):
    for L in LLDP_L:
      x = lldp_tlv(t, body(LLDP_CANON.get(t, b''), L, t))
      yield "lldp:t%d.l%d" % (t, L), lldp_frame(LLDP3 + [x])
      if t in (0, 1, 2, 3, 4, 8, 127):
        for pos in range(3):
          tl = list(LLDP3); tl[pos] = x
          yield "lldp:t%d.l%d.at%d" % (t, L, pos), lldp_frame(tl)
      if thorough or L in (0, 1, 511):
        yield "lldp:t%d.l%d.noend" % (t, L), lldp_frame(LLDP3 + [x], end=False)
  for tt, pos in ((1, 0), (2, 1)):
    for sub in (0, 1, 2, 3, 4, 5, 6, 7, 8, 255):
      for n in (0, 1, 2, 3, 4, 5, 6, 7, 8, 16, 254):
        tl = list(LLDP3); tl[pos] = lldp_tlv(tt, bytes([sub]) + body(M1, n, sub))
        yield "lldp:id%d.s%d.n%d" % (tt, sub, n), lldp_frame(tl)
  for n in range(5):
    tl = list(LLDP3); tl[2] = lldp_tlv(3, pattern(n))
    yield "lldp:ttl.n%d" % n, lldp_frame(tl)
  # management address: [address string length = 1 + address][address subtype][address][interface numbering
  # subtype][interface number (4)][OID string length][OID]; "present" is the number of bytes actually there
  for asl in (0, 1, 2, 5, 6, 17, 32, 255):
    for present in sorted(set((max(asl - 1, 0), asl, asl + 1))):
      for oidl in (0, 1, 4, 128, 255):
        for opresent in sorted(set((oidl, max(oidl - 1, 0)))):
          v = (bytes([asl]) + body(b'\x01' + A1, present, asl) + b'\x02' + struct.pack("!I", 3) + bytes([oidl])
               + pattern(opresent, 3))
          if len(v) > 511: continue
          yield "lldp:mgmt.a%d.%d.o%d.%d" % (asl, present, oidl, opresent), lldp_frame(LLDP3 + [lldp_tlv(8, v)])
  for n in range(12):
    yield "lldp:mgmt.short%d" % n, lldp_frame(LLDP3 + [lldp_tlv(8, body(b'\x05\x01' + A1 + b'\x02\x00\x00\x00\x03\x00', n))])
  for n in range(7):
    yield "lldp:org.n%d" % n, lldp_frame(LLDP3 + [lldp_tlv(127, body(b'\x00\x26\xe1\x00', n))])
  for n in (0, 1, 2, 3, 4, 5):
    yield "lldp:cap.n%d" % n, lldp_frame(LLDP3 + [lldp_tlv(7, pattern(n))])


def ext_hdr (t, hlen, salt=0):
  """(type, body) as r_ipv6 wants it; hlen is the Hdr Ext Len field (8-byte units beyond the first 8)."""
  if t == 44: return (44, body(b'\x00\x00\x00\x12\x34\x56\x78', 7, salt))
  return (t, body(b'\x01\x04\x00\x00\x00\x00' if t in (0, 60) else b'\x00\x00\x00\x00\x00\x00', 8 * (hlen + 1) - 2, salt))

EXT_TYPES = (0, 43, 44, 50, 51, 60, 135, 139, 140, 253, 254)
EXT_LENS = (0, 1, 2, 3, 31, 255)

@group("tlv.ip6ext", "IPv6 extension headers: every header type of %r x Hdr Ext Len %r (body sized to fit) alone, and "
       "every ordered pair of types (lengths 0 and 1), in front of UDP / TCP / ICMPv6 echo / no-next-header / unknown "
       "protocol" % (EXT_TYPES, EXT_LENS))
def _ip6ext (thorough):
  uppers = [("udp", 17, u6(pay)), ("tcp", 6, r_tcp(pay, 40000, 80, ph6(6))),
            ("icmp6", 58, r_icmp6(128, 0, struct.pack("!HH", 1, 1) + pay, ph6(58))), ("none", 59, b''), ("unk", 253, pay)]
  for un, nh, seg in uppers:
    for t in EXT_TYPES:
      for hl in EXT_LENS:
        if t == 44 and hl: continue
        yield "ip6ext:%d.l%d/%s" % (t, hl, un), e6(seg, nh, ext=[ext_hdr(t, hl)])
    for a in EXT_TYPES:
      for b in EXT_TYPES:
        for la, lb in ((0, 0), (1, 0), (0, 1)) if thorough else ((0, 0), (1, 1)):
          yield "ip6ext:%d.l%d,%d.l%d/%s" % (a, la, b, lb, un), e6(seg, nh, ext=[ext_hdr(a, la), ext_hdr(b, lb, 1)])
  # the payload length field against the real length: shorter (trailer), equal, longer (clamped)
  f = r_ipv6(u6(pay), 17, ext=[ext_hdr(0, 0)])
  for d in (-9, -8, -1, 1, 8, 9):
    g = f[:4] + struct.pack("!H", len(f) - 40 + d) + f[6:]
    yield "ip6ext:plen%+d" % d, r_eth(g, 0x86dd)


def igmp_rec (rtype, nsrc, auxw, fmt, salt=0):
  return struct.pack(fmt, rtype, auxw, nsrc) + ip4("239.1.2.%d" % (rtype & 0xff)) + pattern(4 * nsrc, salt) + pattern(4 * auxw, salt + 1)

def igmp_frame (first2, rest, **kw):
  return e4(r_igmp(first2, rest), 2, dst=ip4("224.0.0.22"), ttl=1, options=b'\x94\x04\x00\x00', **kw)

@group("tlv.igmp", "IGMPv3 reports: one group record of every type 0..7,255 x source count 0..3 x aux words 0..2 "
       "(record sized to fit), alone / before / after a well-formed record, record count field = / < / > number of "
       "records, source count in network and in host (little-endian) order; IGMPv3 queries with 0..3 sources")
def _igmp (thorough):
  for fmt, fn in (("!BBH", "be"), ("<BBH", "le")):
    good = igmp_rec(4, 1, 0, fmt, 7)
    alpha = [("r%d.s%d.a%d" % (t, n, a), igmp_rec(t, n, a, fmt)) for t in (0, 1, 2, 3, 4, 5, 6, 7, 255) for n in range(4) for a in range(3)]
    for lab, recs in placements(alpha, good):
      for dn in (0, -1, 1):
        cnt = len(recs) + dn
        yield "igmp3:%s:%s.cnt%+d" % (fn, lab, dn), igmp_frame(b'\x22\x00', struct.pack("!HH", 0, cnt) + b''.join(recs))
  for n in range(4):
    for dn in (0, 1):
      yield "igmp3q:s%d%+d" % (n, dn), igmp_frame(b'\x11\x64', ip4("239.1.2.3") + struct.pack("!BBH", 2, 125, n + dn) + pattern(4 * n))


GRE_PROTOS = (0x0800, 0x6558, 0x86dd, 0x88b5)

def gre_any (flags, proto, payload, routing_entries=1, csum_ok=True):
  h = struct.pack("!HH", flags, proto)
  if flags & 0xc000: h += b'\0\0\0\0'
  if flags & 0x2000: h += struct.pack("!I", 0xdeadbeef)
  if flags & 0x1000: h += struct.pack("!I", 7)
  if flags & 0x4000:
    for i in range(routing_entries):
      h += struct.pack("!HBB", 0x0800, 0, 4) + A2
    h += b'\0\0\0\0'
  if flags & 0x8000:
    c = R.csum(h + payload)
    if not csum_ok: c ^= 0x5555
    h = h[:4] + struct.pack("!H", c) + h[6:]
  return h + payload

@group("sel.gre", "GRE: every value of the flag byte (C,R,K,S,s,recursion) x version 0,1,2,7 x protocol %r with the "
       "optional fields the flags announce (checksum valid; routing list of 1 entry + terminator), payload of the "
       "announced kind; routing lists of 0..3 entries; wrong checksum" % (GRE_PROTOS,))
def _gre (thorough):
  inner4 = r_ipv4(u4(pay), 17, src=ip4("192.168.0.1"), dst=ip4("192.168.0.2"))
  pl = {0x0800: inner4, 0x6558: r_eth(inner4, 0x0800), 0x86dd: r_ipv6(u6(pay), 17), 0x88b5: pay}
  for hi in range(256):
    for ver in (0, 1, 2, 7):
      for proto in GRE_PROTOS:
        if not thorough and proto != 0x0800 and ver not in (0, 1): continue
        yield "gre:f%02x.v%d.p%04x" % (hi, ver, proto), e4(gre_any((hi << 8) | ver, proto, pl[proto]), 47)
  for n in range(4):
    yield "gre:routing%d" % n, e4(gre_any(0x4000, 0x0800, inner4, routing_entries=n), 47)
    yield "gre:routing%d.csum" % n, e4(gre_any(0xc000, 0x0800, inner4, routing_entries=n), 47)
  yield "gre:badcsum", e4(gre_any(0x8000, 0x0800, inner4, csum_ok=False), 47)
  yield "gre:over-ipv6", e6(gre_any(0, 0x0800, inner4), 47)


@group("tlv.arp", "ARP / RARP: hardware type (1,6,32,0,65535) x protocol type (0x0800,0x86dd,0x1234) x hardware "
       "address length (0,1,6,8,20,255) x protocol address length (0,4,16,255) with addresses of the announced "
       "lengths x opcode (0,1,2,3,4,8,9,65535)")
def _arp (thorough):
  for et in (0x0806, 0x8035):
    for ht in (1, 6, 32, 0, 65535):
      for pt in (0x0800, 0x86dd, 0x1234):
        for hl in (0, 1, 6, 8, 20, 255):
          for pl in (0, 4, 16, 255):
            for op in (0, 1, 2, 3, 4, 8, 9, 65535):
              if not thorough and (hl, pl) != (6, 4) and op not in (1, 4):
                continue
              a = (struct.pack("!HHBBH", ht, pt, hl, pl, op) + body(M1, hl) + body(A1, pl) + body(M2, hl, 1) + body(A2, pl, 1))
              yield "arp:%04x.h%d.p%04x.hl%d.pl%d.op%d" % (et, ht, pt, hl, pl, op), r_eth(a, et)


EAP_TYPES = (0, 1, 2, 3, 4, 5, 6, 13, 25, 254, 255)

@group("tlv.eap", "EAPOL: version 0..3 x packet type 0..5,255 x body length 0..6 (body sized to fit; length field "
       "= / < / > body); EAP inside EAPOL: code 0..7 x EAP type %r x EAP length 4..10 consistent with the EAPOL "
       "length, one less and one more" % (EAP_TYPES,))
def _eap (thorough):
  for ver in range(4):
    for t in (0, 1, 2, 3, 4, 5, 255):
      for n in range(7):
        for d in (0, -1, 1):
          if n + d < 0: continue
          yield "eapol:v%d.t%d.n%d%+d" % (ver, t, n, d), r_eth(struct.pack("!BBH", ver, t, n + d) + pattern(n), 0x888e)
  for code in range(8):
    for et in EAP_TYPES:
      for n in range(4, 11):
        for d in (0, -1, 1):
          eap = struct.pack("!BBH", code, 7, n + d) + body(bytes([et]) + b'hello', n - 4)
          yield "eap:c%d.t%d.n%d%+d" % (code, et, n, d), r_eth(struct.pack("!BBH", 2, 0, len(eap)) + eap, 0x888e)


@group("tlv.rip", "RIP: command (0,1,2,3,255) x version (0,1,2,3) x 0..3, 25, 26 entries x address family of the "
       "first entry (0,2,0xffff,1) x trailing partial entry of 0/1/19 bytes; non-zero must-be-zero field")
def _rip (thorough):
  ent = lambda afi, i: struct.pack("!HH", afi, 0) + ip4("10.%d.0.0" % i) + ip4("255.255.0.0") + ip4("0.0.0.0") + struct.pack("!I", 1 + i % 16)
  for cmd in (0, 1, 2, 3, 255):
    for ver in (0, 1, 2, 3):
      for n in (0, 1, 2, 3, 25, 26):
        for afi in (0, 2, 0xffff, 1):
          for tail in (0, 1, 19):
            if not thorough and cmd not in (1, 2) and tail: continue
            b = struct.pack("!BBH", cmd, ver, 0) + b''.join(ent(afi if i == 0 else 2, i) for i in range(n)) + pattern(tail)
            yield "rip:c%d.v%d.n%d.afi%d.t%d" % (cmd, ver, n, afi, tail), eu4(b, 520, 520, dst=ip4("224.0.0.9"), ttl=1)
  yield "rip:mbz", eu4(struct.pack("!BBH", 2, 2, 7) + ent(2, 1), 520, 520)
  yield "rip:srcport", eu4(struct.pack("!BBH", 2, 2, 0) + ent(2, 1), 520, 40000)


DNS_RTYPES = (1, 2, 5, 6, 12, 13, 15, 16, 28, 33, 41, 255, 0, 65535)
DNS_RDLEN = (0, 1, 2, 3, 4, 5, 15, 16, 17, 255)

def dns_names ():
  q = dns_name("www.example.com")
  return [("plain", q), ("root", b'\x00'), ("ptr12", b'\xc0\x0c'), ("lbl+ptr", b'\x03web\xc0\x10'),
          ("ptr-self", None), ("ptr-fwd", b'\xc0\xff'), ("ptr-end", b'\xc0'), ("lbl63", bytes([63]) + b'a' * 63 + b'\x00'),
          ("lbl64", bytes([0x40]) + b'a' * 64 + b'\x00'), ("lbl80", bytes([0x80]) + b'a' * 4 + b'\x00'),
          ("unterminated", b'\x03www'), ("long255", b''.join(bytes([31]) + b'b' * 31 for _ in range(8)) + b'\x00'),
          ("ptr-hdr", b'\xc0\x00'), ("ptr-ptr", b'\xc0\x0e')]

@group("tlv.dns", "DNS over UDP ports 53 (either side) and 5353, IPv4 and IPv6: section counts 0..2 each with that "
       "many / one fewer / one more records present; one answer RR of every type of %r x RDLENGTH %r (RDATA sized to "
       "fit); every name form (plain, root, compression pointer backward / to itself / forward / cut, pointer chain, "
       "label of 63, reserved label types 0x40 / 0x80, unterminated, 255-byte name) as question name, as RR owner "
       "name and inside RDATA of NS/CNAME/PTR/MX" % (DNS_RTYPES, DNS_RDLEN))
def _dns (thorough):
  q = dns_name("www.example.com")
  qd = q + struct.pack("!HH", 1, 1)
  rr = lambda name, t, rd, rdlen=None: name + struct.pack("!HHIH", t, 1, 300, len(rd) if rdlen is None else rdlen) + rd
  hdr = lambda qn, an, ns, ar, fl=0x8180: struct.pack("!HHHHHH", 0xbeef, fl, qn, an, ns, ar)
  def wraps (m):
    yield "4.s53", eu4(m, 53, 40000)
    yield "4.d53", eu4(m, 40000, 53)
    yield "4.mdns", eu4(m, 5353, 5353, dst=ip4("224.0.0.251"), ttl=255)
    yield "6.d53", e6(u6(m, 40000, 53), 17)
  arec = rr(b'\xc0\x0c', 1, A1)
  for qn in range(3):
    for an in range(3):
      for ns in range(2):
        for ar in range(2):
          for d in (0, -1, 1):
            recs = max(0, an + ns + ar + d)
            m = hdr(qn, an, ns, ar) + qd * qn + arec * recs
            for w, f in wraps(m):
              if not thorough and w != "4.s53" and (qn, ns, ar) != (1, 0, 0): continue
              yield "dns:%s:q%d.a%d.n%d.r%d%+d" % (w, qn, an, ns, ar, d), f
  for t in DNS_RTYPES:
    for L in DNS_RDLEN:
      canon = {1: A1, 28: S2, 2: b'\x02ns\xc0\x10', 5: b'\x03web\xc0\x10', 12: b'\x03ptr\xc0\x10', 15: b'\x00\x0a\x04mail\xc0\x10',
               16: b'\x05hello', 6: b'\x02ns\xc0\x10\x04root\xc0\x10' + b'\0' * 20}.get(t, b'')
      m = hdr(1, 1, 0, 0) + qd + rr(b'\xc0\x0c', t, body(canon, L, t))
      for w, f in wraps(m):
        if not thorough and w not in ("4.s53", "4.mdns"): continue
        yield "dns:%s:rr%d.l%d" % (w, t, L), f
  for nm, n in dns_names():
    qname = n if n is not None else b'\xc0\x0c'
    m1 = hdr(1, 0, 0, 0, 0x0100) + qname + struct.pack("!HH", 1, 1)
    owner = n if n is not None else struct.pack("!H", 0xc000 | (12 + len(qd)))
    m2 = hdr(1, 1, 0, 0) + qd + rr(owner, 1, A1)
    ms = [("qname", m1), ("owner", m2)]
    for t in (2, 5, 12, 15):
      pre = b'\x00\x0a' if t == 15 else b''
      inner = n if n is not None else struct.pack("!H", 0xc000 | (12 + len(qd) + 2 + 10 + len(pre)))
      ms.append(("rd%d" % t, hdr(1, 1, 0, 0) + qd + rr(b'\xc0\x0c', t, pre + inner)))
    for where, m in ms:
      for w, f in wraps(m):
        if not thorough and w not in ("4.s53", "4.mdns"): continue
        yield "dns:%s:name.%s.%s" % (w, nm, where), f
  for n in (0, 1, 11, 12, 13):
    yield "dns:short%d" % n, eu4(pattern(n), 40000, 53)


# =============================================================================================
# sel.*
# =============================================================================================

ETH_KNOWN = (0x0800, 0x0806, 0x8035, 0x8100, 0x86dd, 0x8847, 0x8848, 0x888e, 0x88cc, 0x88a8, 0x9100, 0x88e7, 0x8809, 0x8863,
             0x8864, 0x0600, 0x05ff, 0x05dc, 0x05dd, 0xffff)

@group("sel.ethertype", "Ethernet type/length: quick - every value 0..1600 (the 802.3 length range and its border), "
       "every known type +-0,1,2, every multiple of 0x0101; thorough - all 65536 values; payload = 46 bytes starting "
       "as an LLC UI header, as a SNAP header and as an IPv4 header; the same under one VLAN tag for 0..1600 and the "
       "known types")
def _ethertype (thorough):
  if thorough:
    vals = list(range(65536))
  else:
    s = set(range(1601))
    for k in ETH_KNOWN:
      for d in (-2, -1, 0, 1, 2):
        if 0 <= k + d <= 0xffff: s.add(k + d)
    s.update(range(0, 65536, 0x0101))
    vals = sorted(s)
  ip = r_ipv4(u4(pay), 17)
  pls = [("llc", b'\x42\x42\x03' + pattern(43)), ("snap", b'\xaa\xaa\x03\x00\x00\x00\x08\x00' + ip), ("ip", ip)]
  for v in vals:
    for pn, p in pls:
      if pn != "llc" and v > 1600 and not thorough and v not in ETH_KNOWN: continue
      yield "eth:%04x.%s" % (v, pn), r_eth(p, v)
  s = set(range(1601)); s.update(ETH_KNOWN)
  for v in sorted(s):
    for pn, p in pls[:2] if not thorough else pls:
      yield "vlan:%04x.%s" % (v, pn), r_eth(r_vlan(p, v), 0x8100)


@group("sel.ipproto", "IPv4 protocol and IPv6 next header: every value 0..255 over payloads (a UDP datagram, 40 "
       "pattern bytes, empty); IPv4 also as non-first fragment and with version / IHL / total length at their borders")
def _ipproto (thorough):
  for p in range(256):
    for pn, seg in (("udp", u4(pay)), ("pat", pattern(40)), ("empty", b'')):
      yield "ip4:p%d.%s" % (p, pn), e4(seg, p)
      yield "ip6:nh%d.%s" % (p, pn), e6(seg, p)
    yield "ip4:p%d.frag" % p, e4(pattern(24), p, flags=1, frag=185)
  f = r_ipv4(u4(pay), 17)
  def patch (vhl=None, tl=None):
    g = bytearray(f)
    if vhl is not None: g[0] = vhl
    if tl is not None: g[2:4] = struct.pack("!H", tl)
    g[10:12] = b'\0\0'
    g[10:12] = struct.pack("!H", R.csum(bytes(g[:20])))
    return bytes(g)
  for vhl in range(256):
    yield "ip4:vhl%02x" % vhl, r_eth(patch(vhl=vhl), 0x0800)
  for tl in (0, 19, 20, 21, 27, 28, 29, len(f) - 1, len(f) + 1, 1500, 65535):
    yield "ip4:tl%d" % tl, r_eth(patch(tl=tl), 0x0800)


UDP_PORTS = (53, 67, 68, 520, 4789, 5353)

@group("sel.udpport", "UDP: source and destination port each in {0, every port POX dispatches on %r +-0,1, 65535} x "
       "payload (empty, 1 byte, 8 zero bytes, 64 pattern bytes, 300 pattern bytes); length field = / < / > real; "
       "checksum 0 and wrong; over IPv4 and IPv6" % (UDP_PORTS,))
def _udpport (thorough):
  ports = sorted(set([0, 65535, 1234] + [p + d for p in UDP_PORTS for d in (-1, 0, 1)]))
  pls = (("e", b''), ("1", b'\x01'), ("z8", b'\0' * 8), ("p64", pattern(64)), ("p300", pattern(300)))
  for sp in ports:
    for dp in ports:
      if sp not in UDP_PORTS and dp not in UDP_PORTS and (sp, dp) != (1234, 1234): continue
      for pn, d in pls:
        yield "udp4:%d>%d.%s" % (sp, dp, pn), eu4(d, sp, dp)
        if thorough or sp == 1234 or dp == 1234:
          yield "udp6:%d>%d.%s" % (sp, dp, pn), e6(u6(d, sp, dp), 17)
  for dp in (4321,) + UDP_PORTS:
    d = u4(pattern(64), 1234, dp)
    for dl in (-64, -9, -8, -1, 1, 8):
      g = d[:4] + struct.pack("!H", (len(d) + dl) & 0xffff) + d[6:]
      yield "udp4:>%d.len%+d" % (dp, dl), e4(g, 17)
    yield "udp4:>%d.csum0" % dp, e4(d[:6] + b'\0\0' + d[8:], 17)
    yield "udp4:>%d.csumbad" % dp, e4(d[:6] + b'\x12\x34' + d[8:], 17)


@group("sel.icmp", "ICMP (IPv4): every type 0..255 x code (0,1,255) x body (none, 4 bytes, echo-like 4+18, error-like "
       "4 + quoted IPv4 header + 8, error-like quoting a full datagram, quoting 19 bytes), checksum valid; ICMPv6: "
       "every type 0..255 x code (0,1,255) x body (none, 4 bytes, 4+18, 4 + quoted IPv6 header + UDP, ND-like 4+16+8, "
       "4 + 39 bytes), checksum valid")
def _icmp (thorough):
  orig = r_ipv4(u4(pay), 17)
  orig6 = r_ipv6(u6(pay), 17, src=S2, dst=S1)
  b4 = (("none", b''), ("4", b'\0\0\0\0'), ("echo", struct.pack("!HH", 0x1234, 1) + pay), ("err28", b'\0\0\0\0' + orig[:28]),
        ("errfull", b'\0\0\0\0' + orig), ("err19", b'\0\0\0\0' + orig[:19]))
  b6 = (("none", b''), ("4", b'\0\0\0\0'), ("echo", struct.pack("!HH", 0x1234, 1) + pay), ("err", b'\0\0\0\0' + orig6),
        ("nd", b'\0\0\0\0' + S2 + b'\x01\x01' + M1), ("err39", b'\0\0\0\0' + orig6[:39]))
  for t in range(256):
    for c in (0, 1, 255):
      if not thorough and c == 255 and t % 8: continue
      for bn, b in b4:
        yield "icmp4:t%d.c%d.%s" % (t, c, bn), e4(r_icmp(t, c, b), 1)
      for bn, b in b6:
        yield "icmp6:t%d.c%d.%s" % (t, c, bn), i6(t, c, b, hop=255)


@group("sel.igmptype", "IGMP: every value 0..255 of the type byte x message length 8, 12, 16, 7, checksum valid")
def _igmptype (thorough):
  for t in range(256):
    for n in (8, 12, 16, 7):
      rest = body(ip4("239.1.2.3") + struct.pack("!BBH", 2, 125, 0) + b'\0\0\0\0', n - 4)
      yield "igmp:t%d.n%d" % (t, n), igmp_frame(bytes([t, 0x64]), rest)


@group("sel.l2", "VXLAN: every flag byte 0..255 x inner frame (Ethernet/IPv4/UDP, 13 bytes, empty); LLC: DSAP/SSAP of "
       "(00,42,aa,ab,f0,ff) x every control byte 0..255, with SNAP OUI 0 / non-zero where SSAP and DSAP are SNAP, 802.3 "
       "length = / < / > the data; MPLS: label / TC / S / TTL at their borders x first payload nibble 0..15; VLAN TCI "
       "borders x inner type")
def _l2 (thorough):
  inner = r_eth(r_ipv4(u4(pay), 17), 0x0800)
  for fl in range(256):
    for pn, p in (("eth", inner), ("13", pattern(13)), ("e", b'')):
      yield "vxlan:f%02x.%s" % (fl, pn), eu4(struct.pack("!II", fl << 24, 0x123456 << 8) + p, 49152, 4789)
  for sap in (0x00, 0x42, 0xaa, 0xab, 0xf0, 0xff):
    for ssap in ((sap,) if not thorough else (0x00, 0x42, 0xaa, 0xab, 0xf0, 0xff)):
      for ctl in range(256):
        for on, oui in (("z", b'\0\0\0'), ("c", b'\x00\x00\x0c')):
          d = bytes([sap, ssap, ctl]) + (b'\x01' if ctl & 3 != 3 else b'') + oui + b'\x08\x00' + r_ipv4(u4(pay), 17)
          yield "llc:%02x.%02x.c%02x.%s" % (sap, ssap, ctl, on), r_eth8023(d)
  d = b'\xaa\xaa\x03\x00\x00\x00\x08\x00' + r_ipv4(u4(pay), 17)
  for dl in (-len(d), -40, -9, -8, -6, -5, -4, -3, -1, 1, 100):
    yield "llc:len%+d" % dl, r_eth(d, len(d) + dl)
  for label in (0, 1, 2, 3, 15, 16, 0xfffff):
    for tc in (0, 7):
      for s in (0, 1):
        for ttl in (0, 1, 255):
          for nib in range(16):
            p = bytes([(nib << 4) | 5]) + r_ipv4(u4(pay), 17)[1:]
            m = struct.pack("!I", (label << 12) | (tc << 9) | (s << 8) | ttl)
            if not s: m += struct.pack("!I", (17 << 12) | (1 << 8) | 64)
            yield "mpls:l%d.tc%d.s%d.ttl%d.n%x" % (label, tc, s, ttl, nib), r_eth(m + p, 0x8847)
  for vid in (0, 1, 0xffe, 0xfff):
    for pcp in (0, 7):
      for cfi in (0, 1):
        for et, p in ((0x0800, r_ipv4(u4(pay), 17)), (0x0806, struct.pack("!HHBBH", 1, 0x0800, 6, 4, 1) + M1 + A1 + b'\0' * 6 + A2),
                      (0x88b5, pay), (21, b'\x42\x42\x03' + pay), (0x8100, r_vlan(pay, 0x88b5)), (0x88cc, b''.join(LLDP3) + b'\0\0')):
          yield "vlan:v%d.p%d.c%d.%04x" % (vid, pcp, cfi, et), r_eth(r_vlan(p, et, vid=vid, pcp=pcp, cfi=cfi), 0x8100)


# =============================================================================================
# deep.*  (repetition / nesting / size ladders)
# =============================================================================================

def fits (frame):
  return len(frame) <= MAX_FRAME

def _lad (limit, thorough, quick_cap=None):
  """ladder of repetition counts; quick may cap the top (the cap is part of the stated bound)."""
  if not thorough and quick_cap is not None: limit = min(limit, quick_cap)
  return ladder(limit)


DEEP_DESC = ("N on the ladder 1,2,3,4,6,8,12,16,24,... up to the largest N whose frame fits an ofp_packet_in "
             "(%d bytes) or the protocol's own length limit" % MAX_FRAME)

def _emit (label, frame, unit, cuts=True):
  """the frame, the frame cut one byte short, the frame cut in the middle of its innermost unit"""
  if not fits(frame): return
  yield label, frame
  if not cuts: return
  yield label + ".cut1", frame[:-1]
  if unit > 1: yield label + ".cutunit", frame[:len(frame) - unit // 2]

def _cuts (n, top, thorough):
  """quick tier: the two cut variants for N <= 64, for powers of two and for the largest N"""
  return thorough or n <= 64 or n >= top - 1 or not (n & (n - 1))

def _nest (label, base, wrap, unit, outer, limit=None, thorough=False):
  """base wrapped N times by wrap(); yields outer(level N) for N on the ladder (only the current level is kept)"""
  top = (MAX_FRAME - len(outer(base))) // unit
  if limit is not None: top = min(top, limit)
  want = set(ladder(top))
  cur = base
  for n in range(1, top + 1):
    cur = wrap(cur)
    if n in want:
      for x in _emit("%s:n%d" % (label, n), outer(cur), unit, _cuts(n, top, thorough)): yield x

QUAD_CAP = 384     # quick tier: levels of the nestings whose checksums make packing quadratic in the depth

@group("deep.mpls", "MPLS label stack: N entries with S=0 + bottom entry + payload (types 0x8847, 0x8848), and N entries "
       "without a bottom entry; " + DEEP_DESC + "; each frame (quick tier: N <= 64, powers of two, the largest N) also cut one byte short and cut in the middle of the last entry")
def _deep_mpls (thorough):
  bos = struct.pack("!I", (2 << 12) | (1 << 8) | 64)
  ent = struct.pack("!I", (1 << 12) | 64)
  for et in (0x8847, 0x8848):
    top = (MAX_FRAME - 14 - 4 - 8) // 4
    for n in ladder(top):
      for x in _emit("mpls%04x:n%d" % (et, n), r_eth(ent * n + bos + b'payload!', et), 4, _cuts(n, top, thorough)): yield x
      yield "mpls%04x:n%d.nobos" % (et, n), r_eth(ent * n, et)


@group("deep.vlan", "VLAN tag stack: N tags (0x8100) over an unknown type, over IPv4/UDP and over an LLC header; "
       + DEEP_DESC + "; each frame (quick tier: N <= 64, powers of two, the largest N) also cut one byte short and in the middle of the last tag")
def _deep_vlan (thorough):
  tag = lambda et: struct.pack("!HH", 0x2001, et)
  inner = {"raw": (0x88b5, b'payload!'), "ip": (0x0800, r_ipv4(u4(pay), 17)), "llc": (11, b'\x42\x42\x03payload!')}
  for nm in sorted(inner):
    et, p = inner[nm]
    top = (MAX_FRAME - 14 - len(p)) // 4
    for n in ladder(top):
      for x in _emit("vlan.%s:n%d" % (nm, n), r_eth(tag(0x8100) * (n - 1) + tag(et) + p, 0x8100), 4, _cuts(n, top, thorough)): yield x


@group("deep.encap", "tunnel nesting: IPv4-in-GRE-in-IPv4 (24 bytes a level), Ethernet-in-GRE (38 bytes a level), "
       "Ethernet-in-VXLAN (50 bytes a level; quick tier up to %d levels), innermost IPv4/UDP; " % QUAD_CAP + DEEP_DESC
       + "; each frame (quick tier: N <= 64, powers of two, the largest N) also cut one byte short and cut in the middle of the innermost level")
def _deep_encap (thorough):
  base = r_ipv4(u4(pay), 17)
  eth = lambda d: r_eth(d, 0x0800)
  ident = lambda d: d
  for x in _nest("gre-ip", base, lambda d: r_ipv4(struct.pack("!HH", 0, 0x0800) + d, 47), 24, eth, None, thorough): yield x
  for x in _nest("gre-eth", eth(base), lambda d: eth(r_ipv4(struct.pack("!HH", 0, 0x6558) + d, 47)), 38, ident, None, thorough): yield x
  for x in _nest("vxlan", eth(base), lambda d: eu4(struct.pack("!II", 0x08000000, 0x123456 << 8) + d, 49152, 4789), 50, ident,
                 None if thorough else QUAD_CAP, thorough): yield x


@group("deep.quote", "ICMP errors quoting ICMP errors: IPv4 types 3 and 11 (28 bytes a level), ICMPv6 types 1, 2, 3 "
       "(48 bytes a level), innermost a UDP datagram, all checksums valid; quick tier up to %d levels; " % QUAD_CAP
       + DEEP_DESC + "; each frame (quick tier: N <= 64, powers of two, the largest N) also cut one byte short and cut in the middle of the innermost level")
def _deep_quote (thorough):
  cap = None if thorough else QUAD_CAP
  for typ in (3, 11):
    for x in _nest("icmp%d" % typ, r_ipv4(u4(pay), 17), lambda d: r_ipv4(r_icmp(typ, 1, b'\0\0\0\0' + d), 1), 28,
                   lambda d: r_eth(d, 0x0800), cap, thorough): yield x
  for typ in (1, 2, 3):
    for x in _nest("icmp6.%d" % typ, r_ipv6(u6(pay), 17), lambda d: r_ipv6(r_icmp6(typ, 0, b'\0\0\0\0' + d, ph6(58)), 58), 48,
                   lambda d: r_eth(d, 0x86dd), cap, thorough): yield x


@group("deep.list", "element lists repeated N times, " + DEEP_DESC + ": IPv6 extension headers (hop-by-hop, destination "
       "options, routing, fragment; 8 bytes each), TCP options (NOP, MSS, SACK-permitted, timestamps, unknown, MPTCP "
       "DSS; up to 40 bytes), IPv4 options, DHCP options (pad, host name, router list, unknown, RFC 3396 pieces of "
       "255 bytes), LLDP TLVs (system name, unknown, organisational, management address), ICMPv6 ND options (SLLA, "
       "prefix, MTU, unknown) in RA and NS, IGMPv3 group records and sources in one record, GRE routing entries, RIP "
       "entries, DNS questions and answers, EAP/EAPOL body bytes")
def _deep_list (thorough):
  # IPv6 extension headers
  for t in (0, 60, 43, 44):
    lim = (MAX_FRAME - 14 - 40 - 8 - len(pay)) // 8
    for n in _lad(lim, thorough, 2048):
      f = e6(u6(pay), 17, ext=[ext_hdr(t, 0, i & 7) for i in range(n)])
      if fits(f): yield "ip6ext%d:n%d" % (t, n), f
  # TCP / IPv4 options fill the 40-byte option area
  units = (("nop", b'\x01'), ("mss", MSS), ("sackperm", b'\x04\x02'), ("ts", b'\x08\x0a' + pattern(8)), ("unk", b'\xfe\x04ab'),
           ("unk2", b'\xfd\x02'), ("dss", b'\x1e\x04\x20\x00'), ("sack", b'\x05\x0a' + pattern(8)), ("ws", b'\x03\x03\x07'))
  for un, u in units:
    for n in range(1, 40 // len(u) + 1):
      yield "tcpopt.%s:n%d" % (un, n), e4(tcp_seg(u * n, pay), 6)
  for un, u in (("nop", b'\x01'), ("ra", b'\x94\x04\x00\x00'), ("rr", b'\x07\x07\x04' + A1), ("unk", b'\x9e\x02')):
    for n in range(1, 40 // len(u) + 1):
      o = u * n
      yield "ip4opt.%s:n%d" % (un, n), e4(u4(pay), 17, options=o + b'\0' * (-len(o) % 4))
  # DHCP options: the options area may fill the UDP datagram
  room = MAX_FRAME - 14 - 20 - 8 - 240 - 4
  for un, u in (("pad", b'\x00'), ("host", b'\x0c\x02h1'), ("routers", b'\x03\x08' + A1 + A2), ("unk", b'\xe0\x03abc'),
                ("vendor255", b'\x2b\xff' + pattern(255)), ("dns252", b'\x06\xfc' + A1 * 63), ("msgtype", b'\x35\x01\x05')):
    for n in _lad(room // len(u), thorough, 4096):
      f = dhcp_frame(b'\x35\x01\x05' + u * n + b'\xff')
      if fits(f): yield "dhcpopt.%s:n%d" % (un, n), f
  # LLDP TLVs
  for un, u in (("sysname", lldp_tlv(5, b'sw1')), ("unk", lldp_tlv(9, b'unknown')), ("org", lldp_tlv(127, b'\x00\x26\xe1\x00dpid:1')),
                ("mgmt", lldp_tlv(8, b'\x05\x01' + A1 + b'\x02' + struct.pack("!I", 3) + b'\x00')), ("big", lldp_tlv(6, pattern(511))),
                ("ttl", lldp_tlv(3, b'\x00\x78')), ("empty", lldp_tlv(4, b''))):
    for n in _lad((MAX_FRAME - 14 - 21 - 2) // len(u), thorough, 4096):
      yield "lldptlv.%s:n%d" % (un, n), lldp_frame(LLDP3 + [u * n])
  # ND options (the IPv6 payload length limits the message to 65535 bytes; the frame limit is tighter)
  for msg in (134, 135):
    for un, u in (("slla", nd_option(1, 1)), ("prefix", nd_option(3, 4)), ("mtu", nd_option(5, 1)), ("unk", nd_option(14, 1)), ("unk32", nd_option(14, 32))):
      lim = (MAX_FRAME - 14 - 40 - 4 - len(ND_BODY[msg])) // len(u)
      for n in _lad(lim, thorough, 2048):
        yield "ndopt%d.%s:n%d" % (msg, un, n), i6(msg, 0, ND_BODY[msg] + u * n, hop=255)
  # IGMPv3: many records, many sources in one record, long aux data
  for fmt, fn in (("!BBH", "be"), ("<BBH", "le")):
    lim = (MAX_FRAME - 14 - 24 - 8) // 8
    for n in _lad(lim, thorough, 2048):
      recs = b''.join(igmp_rec(1 + i % 6, 0, 0, fmt) for i in range(n))
      yield "igmprec.%s:n%d" % (fn, n), igmp_frame(b'\x22\x00', struct.pack("!HH", 0, n) + recs)
    for n in _lad((MAX_FRAME - 14 - 24 - 8 - 8) // 4, thorough, 4096):
      yield "igmpsrc.%s:n%d" % (fn, n), igmp_frame(b'\x22\x00', struct.pack("!HH", 0, 1) + igmp_rec(1, n, 0, fmt))
    for n in ladder(255):
      yield "igmpaux.%s:n%d" % (fn, n), igmp_frame(b'\x22\x00', struct.pack("!HH", 0, 1) + igmp_rec(1, 1, n, fmt))
  # GRE routing entries
  inner4 = r_ipv4(u4(pay), 17)
  for n in _lad((MAX_FRAME - 14 - 20 - 12 - len(inner4)) // 8, thorough, 2048):
    yield "greroute:n%d" % n, e4(gre_any(0x4000, 0x0800, inner4, routing_entries=n), 47)
  # RIP entries
  ent = lambda i: struct.pack("!HH", 2, 0) + struct.pack("!I", 0x0a000000 + (i << 8)) + ip4("255.255.255.0") + ip4("0.0.0.0") + struct.pack("!I", 1 + i % 16)
  for n in _lad((MAX_FRAME - 14 - 20 - 8 - 4) // 20, thorough, 1024):
    yield "ripent:n%d" % n, eu4(struct.pack("!BBH", 2, 2, 0) + b''.join(ent(i) for i in range(n)), 520, 520)
  # DNS questions / answers
  q = dns_name("www.example.com") + struct.pack("!HH", 1, 1)
  a = b'\xc0\x0c' + struct.pack("!HHIH", 1, 1, 300, 4) + A1
  for n in _lad((MAX_FRAME - 14 - 20 - 8 - 12) // len(q), thorough, 1024):
    yield "dnsq:n%d" % n, eu4(struct.pack("!HHHHHH", 1, 0x0100, n, 0, 0, 0) + q * n, 40000, 53)
  for n in _lad((MAX_FRAME - 14 - 20 - 8 - 12 - len(q)) // len(a), thorough, 1024):
    yield "dnsa:n%d" % n, eu4(struct.pack("!HHHHHH", 1, 0x8180, 1, n, 0, 0) + q + a * n, 53, 40000)
  # a chain of N compression pointers: the question name is a pointer to a pointer to ... to the name
  for n in ladder(8000):
    qn = struct.pack("!H", 0xc000 | 18) + struct.pack("!HH", 1, 1)
    blob = b''.join(struct.pack("!H", 0xc000 | (18 + 2 * i)) for i in range(1, n)) + dns_name("a.b")
    yield "dnsptr:n%d" % n, eu4(struct.pack("!HHHHHH", 1, 0x0100, 1, 0, 0, 0) + qn + blob, 40000, 53)


@group("deep.size", "payload size ladder (N bytes of pattern, " + DEEP_DESC + ") behind every header that carries "
       "opaque data: Ethernet unknown type, LLC, SNAP, VLAN, MPLS, IPv4 unknown protocol, IPv4 fragment, UDP, TCP, ICMP "
       "echo, IGMP trailer, GRE unknown protocol, VXLAN-inner, IPv6 unknown next header, IPv6/UDP, ICMPv6 echo, EAPOL "
       "key, ARP trailer, LLDP trailer behind End TLV")
def _deep_size (thorough):
  wr = (("eth", 14, lambda p: r_eth(p, 0x88b5)),
        ("llc", 17, lambda p: r_eth(b'\x42\x42\x03' + p, min(1500, len(p) + 3))),
        ("snap", 22, lambda p: r_eth(b'\xaa\xaa\x03\x00\x00\x0c\x20\x00' + p, min(1500, len(p) + 8))),
        ("vlan", 18, lambda p: r_eth(r_vlan(p, 0x88b5), 0x8100)),
        ("mpls", 18, lambda p: r_eth(struct.pack("!I", (16 << 12) | (1 << 8) | 64) + p, 0x8847)),
        ("ip4", 34, lambda p: e4(p, 253)),
        ("ip4frag", 34, lambda p: e4(p, 17, flags=1, frag=185)),
        ("udp4", 42, lambda p: eu4(p)),
        ("tcp4", 54, lambda p: e4(r_tcp(p, 40000, 80, ph4(6)), 6)),
        ("icmp4", 42, lambda p: e4(r_icmp(8, 0, struct.pack("!HH", 1, 1) + p), 1)),
        ("igmp", 46, lambda p: igmp_frame(b'\x16\x00', ip4("239.1.2.3") + p)),
        ("gre", 38, lambda p: e4(struct.pack("!HH", 0, 0x88b5) + p, 47)),
        ("vxlan", 64, lambda p: eu4(struct.pack("!II", 0x08000000, 0x123456 << 8) + r_eth(p, 0x88b5), 49152, 4789)),
        ("ip6", 54, lambda p: e6(p, 253)),
        ("udp6", 62, lambda p: e6(u6(p), 17)),
        ("icmp6", 62, lambda p: i6(128, 0, struct.pack("!HH", 1, 1) + p)),
        ("eapolkey", 18, lambda p: r_eth(struct.pack("!BBH", 2, 3, len(p) & 0xffff) + p, 0x888e)),
        ("arp", 42, lambda p: r_eth(struct.pack("!HHBBH", 1, 0x0800, 6, 4, 1) + M1 + A1 + M2 + A2 + p, 0x0806)),
        ("lldp", 37, lambda p: r_eth(b''.join(LLDP3) + b'\0\0' + p, 0x88cc, dst=LLDP_MAC)))
  for nm, over, f in wr:
    for n in [0] + ladder(MAX_FRAME - over):
      if not thorough and 64 < n < MAX_FRAME - over - 1 and (n & (n - 1)): continue     # quick: powers of two above 64
      fr = f(pattern(n))
      if fits(fr): yield "size.%s:n%d" % (nm, n), fr


def describe ():
  return {n: d for n, (_, d) in GROUPS.items()}
