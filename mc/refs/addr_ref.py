"""Reference model for C16 (address types).  Independent of pox: only the standard library
(`ipaddress`, integer arithmetic) and the RFC texts.

  IPv4 text            RFC 791 dotted decimal
  IPv4 classful guess  RFC 791 section 3.2 (class A/B/C), D/E = host; 0.0.0.0 = default network
  IPv6 text            RFC 4291 section 2.2 (parsing: ipaddress.IPv6Address), RFC 5952 section 4/5 (printing)
  Ethernet             IEEE 802 canonical hex text, I/G and U/L bits, 802.1D table 7-10 reserved range
  dpid text            pox's documented canonical form: 6 hex bytes joined by '-', '|<decimal high 16 bits>'
"""
import ipaddress, sys


# ----------------------------------------------------------------------------- IPv4
def v4_int (octs):
  return (octs[0] << 24) | (octs[1] << 16) | (octs[2] << 8) | octs[3]

def v4_octs (n):
  return [(n >> 24) & 255, (n >> 16) & 255, (n >> 8) & 255, n & 255]

def v4_text (n):
  return "%d.%d.%d.%d" % tuple(v4_octs(n))

def v4_raw (n):
  return bytes(v4_octs(n))

def v4_mask (bits):
  return (0xffffffff << (32 - bits)) & 0xffffffff

def signed32 (n):
  return n - (1 << 32) if n & 0x80000000 else n

def v4_net_order_int (n):
  """The integer a C program gets when it reads the 4 network-order bytes as a native uint32."""
  return int.from_bytes(v4_raw(n), sys.byteorder)

def v4_classful_bits (n):
  if n == 0: return 0
  top = n >> 24
  if top < 128: return 8
  if top < 192: return 16
  if top < 224: return 24
  return 32

def v4_contains (net, bits, addr):
  """Independent verdict: is addr inside net/bits (net must be a proper network address)."""
  return ipaddress.IPv4Address(addr) in ipaddress.IPv4Network((net, bits))

def mask_bits (m, width):
  """prefix length of a contiguous mask, or None."""
  full = (1 << width) - 1
  for b in range(width + 1):
    if m == (full << (width - b)) & full: return b
  return None


# ----------------------------------------------------------------------------- IPv6
def v6_int (groups):
  n = 0
  for g in groups: n = (n << 16) | g
  return n

def v6_groups (n):
  return [(n >> (112 - 16 * i)) & 0xffff for i in range(8)]

def v6_raw (n):
  return n.to_bytes(16, "big")

def v6_mask (bits):
  full = (1 << 128) - 1
  return (full << (128 - bits)) & full

def v6_is_mapped (n):
  return (n >> 32) == 0xffff

def v6_contains (net, bits, addr):
  return ipaddress.IPv6Address(addr) in ipaddress.IPv6Network((net, bits))

def v6_fmt (n, zero_drop=True, section_drop=True, mixed=False):
  """RFC 5952 style printer with the knobs pox offers.  zero_drop: suppress leading zeros in
  a group (4.1); section_drop: replace the leftmost longest run of >= 2 zero groups by '::'
  (4.2); mixed: print the low 32 bits as dotted decimal (section 5)."""
  groups = v6_groups(n)
  head = groups[:6] if mixed else groups
  f = "%x" if zero_drop else "%04x"
  best_len, best_pos = 0, -1
  if section_drop:
    i = 0
    while i < len(head):
      if head[i] == 0:
        j = i
        while j < len(head) and head[j] == 0: j += 1
        if j - i > best_len: best_len, best_pos = j - i, i
        i = j
      else:
        i += 1
  if best_len >= 2:
    s = ":".join(f % g for g in head[:best_pos]) + "::" + ":".join(f % g for g in head[best_pos + best_len:])
  else:
    s = ":".join(f % g for g in head)
  if mixed:
    v4 = v4_text(n & 0xffffffff)
    s = s + v4 if s.endswith("::") else s + ":" + v4
  return s

def v6_canonical (n):
  """The canonical text: RFC 5952, with mixed notation for IPv4-mapped addresses (section 5)."""
  return v6_fmt(n, True, True, v6_is_mapped(n))

def v6_parse (s):
  """RFC 4291 text -> int, or None when the text is not a valid IPv6 address."""
  try:
    return int(ipaddress.IPv6Address(s))
  except ValueError:
    return None

def v6_text_class (s):
  """Name the way in which a text deviates from the RFC 4291 grammar (used in violation keys)."""
  body = s
  tail = None
  if "." in s:
    body, _, tail = s.rpartition(":")
    body = body + ":x"           # stand-in group for the dotted part (counts as two groups)
  if ":::" in s: return "triple-colon"
  if s.count("::") > 1: return "double-compression"
  parts = body.split(":")
  groups = [p for p in parts if p != ""]
  ngroups = len(groups) + (1 if tail is not None else 0)
  hexd = "0123456789abcdefABCDEF"
  for g in groups:
    if g == "x" and tail is not None: continue
    if any(c not in hexd for c in g): return "non-hex-group"
  for g in groups:
    if g == "x" and tail is not None: continue
    if len(g) > 4:
      return "group-out-of-range" if int(g, 16) > 0xffff else "group-longer-than-4-digits"
  if tail is not None:
    o = tail.split(".")
    if len(o) != 4 or not all(x.isdigit() and len(x) <= 3 and int(x) <= 255 and x.isascii() for x in o):
      return "bad-ipv4-tail"
  if "::" not in s:
    if s.startswith(":"): return "leading-single-colon"
    if s.endswith(":"): return "trailing-single-colon"
    if ngroups != 8: return "wrong-group-count-no-compression"
  else:
    if s.startswith(":") and not s.startswith("::"): return "leading-single-colon"
    if s.endswith(":") and not s.endswith("::"): return "trailing-single-colon"
    if ngroups >= 8: return "compression-with-8-or-more-groups"
    if ngroups == 7 and (s.startswith("::") or s.endswith("::")): return "edge-compression-of-one-group"
    if ngroups == 7: return "inner-compression-of-one-group"
  return "well-formed"


# ----------------------------------------------------------------------------- Ethernet
def eth_text (bs, sep=":"):
  return sep.join("%02x" % b for b in bs)

def eth_flags (bs):
  return dict(multicast=bool(bs[0] & 1), local=bool(bs[0] & 2), glob=not (bs[0] & 2),
              bridge_filtered=(list(bs[:5]) == [0x01, 0x80, 0xc2, 0x00, 0x00] and bs[5] <= 0x0f),
              broadcast=(list(bs) == [0xff] * 6))


# ----------------------------------------------------------------------------- dpid
def dpid_text (d, always_long=False):
  s = "-".join("%02x" % ((d >> sh) & 0xff) for sh in (40, 32, 24, 16, 8, 0))
  hi = d >> 48
  if hi or always_long: s += "|%d" % hi
  return s


# ----------------------------------------------------------------------------- self test
def self_test ():
  """Cross-check the hand-written parts of the reference against the stdlib; returns a list of
  complaints (empty when the reference is self-consistent)."""
  bad = []
  vals = [0, 1, 0xffff, 1 << 127, (1 << 128) - 1, v6_int([0x2001, 0xdb8, 0, 0, 1, 0, 0, 1]),
          v6_int([1, 0, 0, 2, 0, 0, 0, 3]), v6_int([0, 0, 1, 0, 0, 1, 0, 0]), v6_int([1, 0, 2, 0, 3, 0, 4, 0]),
          v6_int([0, 0, 0, 0, 0, 0xffff, 0x102, 0x304]), v6_int([0, 0, 0, 0, 0, 0, 0x102, 0x304])]
  for pat in range(256):
    vals.append(v6_int([0xabcd if pat & (1 << i) else 0 for i in range(8)]))
  for n in vals:
    a = ipaddress.IPv6Address(n)
    if v6_fmt(n) != a.compressed and not v6_is_mapped(n): bad.append("v6_fmt(%x) != compressed" % n)
    if v6_fmt(n, False, False) != a.exploded: bad.append("v6_fmt exploded %x" % n)
    for zd in (True, False):
      for sd in (True, False):
        for mx in (True, False):
          if v6_parse(v6_fmt(n, zd, sd, mx)) != n: bad.append("v6_fmt(%x,%s,%s,%s) does not re-parse" % (n, zd, sd, mx))
    if v6_groups(n) != [int(x, 16) for x in a.exploded.split(":")]: bad.append("v6_groups %x" % n)
  for b in range(33):
    if v4_mask(b) != int(ipaddress.IPv4Network((0, b)).netmask): bad.append("v4_mask %d" % b)
    if mask_bits(v4_mask(b), 32) != b: bad.append("mask_bits v4 %d" % b)
  for b in range(129):
    if v6_mask(b) != int(ipaddress.IPv6Network((0, b)).netmask): bad.append("v6_mask %d" % b)
    if mask_bits(v6_mask(b), 128) != b: bad.append("mask_bits v6 %d" % b)
  if mask_bits(0xff00ff00, 32) is not None: bad.append("mask_bits accepts a non-contiguous mask")
  for n in (0, 1, 0x7f000001, 0x80000000, 0xffffffff, 0x01020304):
    if v4_text(n) != str(ipaddress.IPv4Address(n)): bad.append("v4_text %x" % n)
  for s, c in (("1:2:3:4:5:6:7", "wrong-group-count-no-compression"), (":1:2:3:4:5:6:7", "leading-single-colon"),
               ("1:2:3:4:5:6:7:", "trailing-single-colon"), (":::", "triple-colon"), ("1::2::3", "double-compression"),
               ("1:2:3:4:5:6:7::", "edge-compression-of-one-group"), ("1::8", "well-formed"),
               ("1:2:3:4:5:6:7:8::", "compression-with-8-or-more-groups"), ("0x1::", "non-hex-group"),
               ("00001::", "group-longer-than-4-digits"), ("10000::", "group-out-of-range"),
               ("::1.2.3", "bad-ipv4-tail"), ("::ffff:1.2.3.4", "well-formed"), ("1:2:3:4:5:1.2.3.4", "wrong-group-count-no-compression")):
    if v6_text_class(s) != c: bad.append("v6_text_class(%r) = %s, expected %s" % (s, v6_text_class(s), c))
  return bad
