"""Frame families for C11 (used by mc/props/c11.py only).

Byte-level assembly from the RFC / IEEE layouts with struct; does not import POX.  Every frame is a valid frame of
its family (lengths and checksums right, no trailer padding) and, except ARP and the deliberately short ones,
longer than the switch's miss_send_len (128) so that a packet-in that is cut short shows.

The families are chosen where the controller-side match extraction (ofp_match.from_packet on the - possibly
truncated - packet-in data, fragments NOT special-cased) and the switch-side one (flow table lookup on the whole
frame, fragments per the specification: transport ports 0) could disagree, and where the switch's parse /
re-serialise cycle could change a frame."""
import struct


def csum (b):
  if len(b) & 1: b += b"\0"
  s = sum(struct.unpack("!%dH" % (len(b) // 2), b))
  while s >> 16: s = (s & 0xffff) + (s >> 16)
  return (~s) & 0xffff


def _addr (m): return 0x0a000000 + m[5]


def ipv4 (proto, payload, sip, dip, flags=0, frag=0, options=b"", ident=7, tos=0):
  assert len(options) % 4 == 0
  hl = 20 + len(options)
  h = struct.pack("!BBHHHBBHLL", 0x40 | (hl >> 2), tos, hl + len(payload), ident, (flags << 13) | frag, 64, proto, 0, sip, dip) + options
  return h[:10] + struct.pack("!H", csum(h)) + h[12:] + payload


def udp (sip, dip, sport, dport, pay, claimed=None):
  ln = 8 + len(pay) if claimed is None else claimed
  u = struct.pack("!HHHH", sport, dport, ln, 0) + pay
  c = csum(struct.pack("!LLBBH", sip, dip, 0, 17, ln) + u) or 0xffff
  return u[:6] + struct.pack("!H", c) + u[8:]


def tcp (sip, dip, sport, dport, pay):
  t = struct.pack("!HHLLBBHHH", sport, dport, 0x01020304, 0, 5 << 4, 0x18, 8192, 0, 0) + pay
  c = csum(struct.pack("!LLBBH", sip, dip, 0, 6, len(t)) + t)
  return t[:16] + struct.pack("!H", c) + t[18:]


def icmp_echo (pay, ident=0x4242, seq=1):
  m = struct.pack("!BBHHH", 8, 0, 0, ident, seq) + pay
  return m[:2] + struct.pack("!H", csum(m)) + m[4:]


def eth (dst, src, etype, payload): return dst + src + struct.pack("!H", etype) + payload
def eth8023 (dst, src, payload): return dst + src + struct.pack("!H", len(payload)) + payload


def _pay (tag, size): return bytes((tag + 3 * i) & 0xff or 1 for i in range(size))


def _udp_dgram (src, dst, tag, size):
  return udp(_addr(src), _addr(dst), 1000 + src[5], 2000 + dst[5], _pay(tag, size))


def f_tcp (src, dst, tag=0, size=108):
  return eth(dst, src, 0x0800, ipv4(6, tcp(_addr(src), _addr(dst), 1000 + src[5], 2000 + dst[5], _pay(tag, size)), _addr(src), _addr(dst)))

def f_icmp (src, dst, tag=0, size=120):
  return eth(dst, src, 0x0800, ipv4(1, icmp_echo(_pay(tag, size)), _addr(src), _addr(dst)))

def f_frag_first (src, dst, tag=0, size=120):
  # first fragment (MF, offset 0) of a UDP datagram of 8+size+64 bytes: carries the UDP header and `size` payload bytes
  whole = udp(_addr(src), _addr(dst), 1000 + src[5], 2000 + dst[5], _pay(tag, size + 64))
  return eth(dst, src, 0x0800, ipv4(17, whole[:8 + size], _addr(src), _addr(dst), flags=1, frag=0))

def f_frag_mid (src, dst, tag=0, size=128):
  return eth(dst, src, 0x0800, ipv4(17, _pay(tag, size), _addr(src), _addr(dst), flags=1, frag=16))

def f_frag_last (src, dst, tag=0, size=124):
  return eth(dst, src, 0x0800, ipv4(17, _pay(tag, size), _addr(src), _addr(dst), flags=0, frag=32))

def f_frag_first_tcp (src, dst, tag=0, size=108):
  whole = tcp(_addr(src), _addr(dst), 1000 + src[5], 2000 + dst[5], _pay(tag, size + 64))
  return eth(dst, src, 0x0800, ipv4(6, whole[:20 + size], _addr(src), _addr(dst), flags=1, frag=0))

def f_frag_first_icmp (src, dst, tag=0, size=120):
  whole = icmp_echo(_pay(tag, size + 64))
  return eth(dst, src, 0x0800, ipv4(1, whole[:8 + size], _addr(src), _addr(dst), flags=1, frag=0))

def f_ipopt (src, dst, tag=0, size=112):
  # record route option (type 7, length 7, pointer 4, one empty slot) + end of option list
  opts = b"\x07\x07\x04\0\0\0\0\0"
  return eth(dst, src, 0x0800, ipv4(17, _udp_dgram(src, dst, tag, size), _addr(src), _addr(dst), options=opts))

def f_ipopt_max (src, dst, tag=0, size=80):
  # 40 option bytes (header length 60): 39-byte record route + end of option list
  opts = b"\x07\x27\x04" + b"\0" * 36 + b"\0"
  return eth(dst, src, 0x0800, ipv4(17, _udp_dgram(src, dst, tag, size), _addr(src), _addr(dst), options=opts))

def _vlan (vid, pcp, etype, payload): return struct.pack("!HH", (pcp << 13) | vid, etype) + payload

def f_vlan (src, dst, tag=0, size=116):
  return eth(dst, src, 0x8100, _vlan(100, 3, 0x0800, ipv4(17, _udp_dgram(src, dst, tag, size), _addr(src), _addr(dst))))

def f_vlan_prio (src, dst, tag=0, size=116):
  # priority-tagged: VLAN id 0
  return eth(dst, src, 0x8100, _vlan(0, 5, 0x0800, ipv4(17, _udp_dgram(src, dst, tag, size), _addr(src), _addr(dst))))

def f_vlan_arp (src, dst, tag=0, size=0):
  return eth(dst, src, 0x8100, _vlan(100, 0, 0x0806, _arp(src, dst)))

def f_snap (src, dst, tag=0, size=112):
  # 802.3 length, LLC aa aa 03, SNAP oui 0 + ethertype: IPv4 inside
  return eth8023(dst, src, b"\xaa\xaa\x03\0\0\0\x08\x00" + ipv4(17, _udp_dgram(src, dst, tag, size), _addr(src), _addr(dst)))

def f_snap_oui (src, dst, tag=0, size=140):
  # SNAP with a non-zero OUI (protocol id is not an ethertype)
  return eth8023(dst, src, b"\xaa\xaa\x03\x00\x00\x0c\x20\x00" + _pay(tag, size))

def f_llc (src, dst, tag=0, size=140):
  # 802.3 length + plain LLC (no SNAP): dsap/ssap 0xe0 (Novell), UI
  return eth8023(dst, src, b"\xe0\xe0\x03" + _pay(tag, size))

def _arp (src, dst):
  bc = dst[0] & 1
  op = 1 if bc else 2
  tha = b"\0" * 6 if bc else dst
  tpa = 0x0a000063 if bc else _addr(dst)
  return struct.pack("!HHBBH6sL6sL", 1, 0x0800, 6, 4, op, src, _addr(src), tha, tpa)

def f_arp (src, dst, tag=0, size=0):
  # request when the destination is a group address, reply otherwise
  return eth(dst, src, 0x0806, _arp(src, dst))

def f_ipv6 (src, dst, tag=0, size=100):
  s6 = b"\xfe\x80" + b"\0" * 13 + src[5:6]; d6 = b"\xfe\x80" + b"\0" * 13 + dst[5:6]
  pay = _pay(tag, size)
  u = struct.pack("!HHHH", 1000 + src[5], 2000 + dst[5], 8 + len(pay), 0) + pay
  c = csum(s6 + d6 + struct.pack("!LL", len(u), 17) + u) or 0xffff
  u = u[:6] + struct.pack("!H", c) + u[8:]
  return eth(dst, src, 0x86dd, struct.pack("!LHBB", 6 << 28, len(u), 17, 64) + s6 + d6 + u)

def f_other (src, dst, tag=0, size=140):
  # an ethertype POX has no parser for (IEEE local experimental)
  return eth(dst, src, 0x88b5, _pay(tag, size))

def f_short (src, dst, tag=0, size=0):
  # header only plus 4 bytes: a runt frame with an unknown ethertype
  return eth(dst, src, 0x88b5, _pay(tag, 4))

def f_ip_runt (src, dst, tag=0, size=0):
  # IPv4 ethertype, but only 8 bytes follow (not a whole IP header): a bridge forwards it all the same
  return eth(dst, src, 0x0800, ipv4(17, b"", _addr(src), _addr(dst))[:8])


# name -> (builder, key suffix).  "udp" (the frame the harness has always used) is built by c11.udp_frame.
FAMILIES = {
  "tcp": f_tcp, "icmp": f_icmp,
  "frag-first": f_frag_first, "frag-mid": f_frag_mid, "frag-last": f_frag_last,
  "frag-first-tcp": f_frag_first_tcp, "frag-first-icmp": f_frag_first_icmp,
  "ipopt": f_ipopt, "ipopt-max": f_ipopt_max,
  "vlan": f_vlan, "vlan-prio": f_vlan_prio, "vlan-arp": f_vlan_arp,
  "snap": f_snap, "snap-oui": f_snap_oui, "llc": f_llc,
  "arp": f_arp, "ipv6": f_ipv6, "other": f_other, "short": f_short, "ip-runt": f_ip_runt,
}
