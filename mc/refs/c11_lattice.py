"""Frame-content lattice for C11 (used by mc/props/c11.py only).

One BASE frame (Ethernet II / IPv4 / UDP, 162 bytes, the frame the harness has always used) and, for every header
field a bridge or an OpenFlow 1.0 switch could look at, the frames that differ from the base in THAT field only
(boundary values: 0, 1, max-1, max, every single bit, the values with an assigned meaning), plus valid messages of
every upper-layer protocol a packet library commonly decodes (so that a decode / re-encode cycle in the path shows).

Byte-level assembly from the RFC / IEEE layouts with struct; does not import POX.  Every frame is a valid frame:
lengths and checksums right, no trailer padding.  An ideal bridge looks at the two addresses only, so it treats all
of them alike.

  VALUES : ordered dict  name -> builder(src_mac, dst_mac) -> bytes      name = "<field>:<value>"
  QUICK  : the boundary subset of names for the quick tier of the multi-switch plans
  field(name) -> "<field>"   (the violation-key class)
"""
import struct
from collections import OrderedDict
from mc.refs.c11_frames import csum, eth, eth8023, _pay, _addr, tcp as _tcp

VALUES = OrderedDict()
QUICK = set()


# violation-key class of a value: its field, a few sibling fields share a class
KEYCLASS = {"udp-dst": "udp-port", "udp-src": "udp-port", "udp-ports": "udp-port", "tcp-dst": "tcp-port", "tcp-src": "tcp-port",
            "arp-spa": "arp-addr", "arp-tpa": "arp-addr", "dl-vlan-cfi": "dl-vlan-pcp", "vlan-stack": "vlan-inner"}

PORTPROTO = {53: "dns", 5353: "dns", 67: "dhcp", 68: "dhcp", 520: "rip", 4789: "vxlan"}
L3NAME = {0x0800: "ipv4", 0x0806: "arp", 0x8035: "arp", 0x86dd: "ipv6", 0x888e: "eapol", 0x88cc: "lldp"}

def field (name):
  f = name.split(":")[0]
  if f in ("udp-dst", "udp-src", "udp-ports"):
    # a port with an assigned protocol carries a message of that protocol: the protocol is the class
    for p in name.split(":")[1].split("-"):
      if int(p) in PORTPROTO: return PORTPROTO[int(p)]
  if f == "eth-pad":
    # the frame `rest` padded to the Ethernet minimum: class by what the (innermost) ethertype says follows
    fr = VALUES[name.split(":", 1)[1]](b"\x02\0\0\0\0\x01", b"\x02\0\0\0\0\x02")
    et = struct.unpack("!H", fr[12:14])[0]; tagged = et == 0x8100
    if tagged: et = struct.unpack("!H", fr[16:18])[0]
    return "padded-" + ("vlan-" if tagged else "") + (L3NAME.get(et, "other") if et >= 0x600 else "llc")
  return KEYCLASS.get(f, f)

def _add (name, fn, quick=False):
  assert name not in VALUES, name
  VALUES[name] = fn
  if quick: QUICK.add(name)


# ---- layers ---------------------------------------------------------------------------------------------------------
def ip4 (proto, payload, sip, dip, tos=0, ident=7, flags=0, frag=0, ttl=64, options=b""):
  hl = 20 + len(options)
  h = struct.pack("!BBHHHBBHLL", 0x40 | (hl >> 2), tos, hl + len(payload), ident, (flags << 13) | frag, ttl, proto, 0, sip, dip) + options
  return h[:10] + struct.pack("!H", csum(h)) + h[12:] + payload

def udp4 (sip, dip, sport, dport, pay):
  u = struct.pack("!HHHH", sport, dport, 8 + len(pay), 0) + pay
  c = csum(struct.pack("!LLBBH", sip, dip, 0, 17, len(u)) + u) or 0xffff
  return u[:6] + struct.pack("!H", c) + u[8:]

def icmp4 (typ, code, rest):
  m = struct.pack("!BBH", typ, code, 0) + rest
  return m[:2] + struct.pack("!H", csum(m)) + m[4:]

PAY = _pay(0, 120)

def udp_frame (src, dst, sport=None, dport=None, pay=PAY, sip=None, dip=None, **ipkw):
  sip = _addr(src) if sip is None else sip
  dip = _addr(dst) if dip is None else dip
  sport = 1000 + src[5] if sport is None else sport
  dport = 2000 + dst[5] if dport is None else dport
  return eth(dst, src, 0x0800, ip4(17, udp4(sip, dip, sport, dport, pay), sip, dip, **ipkw))

def tcp_frame (src, dst, sport=None, dport=None):
  sip, dip = _addr(src), _addr(dst)
  sport = 1000 + src[5] if sport is None else sport
  dport = 2000 + dst[5] if dport is None else dport
  return eth(dst, src, 0x0800, ip4(6, _tcp(sip, dip, sport, dport, _pay(0, 108)), sip, dip))

def ip_frame (src, dst, proto, payload, **kw):
  sip, dip = kw.pop("sip", _addr(src)), kw.pop("dip", _addr(dst))
  return eth(dst, src, 0x0800, ip4(proto, payload, sip, dip, **kw))

def inner_udp (src, dst, size=60):
  """A whole IPv4/UDP datagram (what tunnels and ICMP errors carry)."""
  return ip4(17, udp4(_addr(src), _addr(dst), 1000 + src[5], 2000 + dst[5], _pay(0, size)), _addr(src), _addr(dst))

def vlan_tag (vid, pcp, etype, payload, cfi=0): return struct.pack("!HH", (pcp << 13) | (cfi << 12) | vid, etype) + payload


BASE = "base:udp"
_add(BASE, lambda s, d: udp_frame(s, d), True)

BITS8 = [1 << i for i in range(8)]
BITS16 = [1 << i for i in range(16)]
BITS32 = [1 << i for i in range(32)]


# ---- ICMP: tp_src = type, tp_dst = code --------------------------------------------------------------------------------
ICMP_ERRORS = (3, 4, 5, 11, 12)          # carry the offending datagram's header + 8 bytes
ICMP_ASSIGNED = (0, 3, 4, 5, 8, 9, 10, 11, 12, 13, 14, 15, 16, 17, 18, 30, 40, 41, 42, 43)

def icmp_body (typ, src, dst):
  if typ in ICMP_ERRORS:
    # unused / gateway / pointer word, then the IP header and the first 8 bytes of a 28-byte datagram (whole)
    word = struct.pack("!L", _addr(dst)) if typ == 5 else b"\0\0\0\0"
    return word + ip4(17, udp4(_addr(dst), _addr(src), 2000, 1000, b""), _addr(dst), _addr(src))
  if typ in (13, 14): return struct.pack("!HHLLL", 0x4242, 1, 5, 0, 0) + _pay(0, 0)
  if typ in (17, 18): return struct.pack("!HHL", 0x4242, 1, 0xffffff00 if typ == 18 else 0)
  if typ == 9: return struct.pack("!BBHLL", 1, 2, 1800, _addr(src), 0)          # router advertisement, one address
  if typ == 10: return b"\0\0\0\0"                                               # router solicitation
  return struct.pack("!HH", 0x4242, 1) + _pay(0, 116)                            # identifier, sequence, data

def icmp_frame (typ, code):
  return lambda s, d: ip_frame(s, d, 1, icmp4(typ, code, icmp_body(typ, s, d)))

for t in range(256):
  _add("icmp-type:%d" % t, icmp_frame(t, 0), t in ICMP_ASSIGNED or t in (1, 2, 19, 127, 128, 254, 255))
# (codes: on the commonest types only, so that a value differs from an everyday frame in its code alone)
for t, codes in ((3, list(range(1, 16)) + [16, 32, 64, 128, 255]), (5, [1, 2, 3]), (11, [1]), (8, [1, 128, 255]), (0, [1, 255])):
  for c in codes:
    _add("icmp-code:%d-%d" % (t, c), icmp_frame(t, c), c in (1, 15, 128, 255))
_add("icmp-len:echo-no-data", lambda s, d: ip_frame(s, d, 1, icmp4(8, 0, struct.pack("!HH", 0x4242, 1))), True)
_add("icmp-len:echo-odd", lambda s, d: ip_frame(s, d, 1, icmp4(8, 0, struct.pack("!HH", 0x4242, 1) + _pay(0, 117))), True)


# ICMP errors the way routers send them: the header and the first 8 bytes of a LONGER datagram
def icmp_quote (typ, code):
  def f (s, d):
    word = struct.pack("!L", _addr(d)) if typ == 5 else b"\0\0\0\0"
    whole = ip4(17, udp4(_addr(d), _addr(s), 2000, 1000, _pay(0, 100)), _addr(d), _addr(s))
    return ip_frame(s, d, 1, icmp4(typ, code, word + whole[:28]))
  return f
for t, c in ((3, 1), (3, 3), (3, 4), (4, 0), (5, 1), (11, 0), (11, 1)):
  _add("icmp-quote:%d-%d" % (t, c), icmp_quote(t, c), c == 0 or t == 3)


# ---- IPv4 protocol number (nw_proto) ------------------------------------------------------------------------------------------
def igmp (typ, mrt, group, extra=b""):
  m = struct.pack("!BBHL", typ, mrt, 0, group) + extra
  return m[:2] + struct.pack("!H", csum(m)) + m[4:]

def igmp3_report (records):
  body = b"".join(struct.pack("!BBHL", rt, 0, len(srcs), g) + b"".join(struct.pack("!L", x) for x in srcs) for rt, g, srcs in records)
  m = struct.pack("!BBHHH", 0x22, 0, 0, 0, len(records)) + body
  return m[:2] + struct.pack("!H", csum(m)) + m[4:]

def gre (proto, payload, key=None, seq=None, with_csum=False):
  flags = (0x8000 if with_csum else 0) | (0x2000 if key is not None else 0) | (0x1000 if seq is not None else 0)
  opt = (struct.pack("!L", key) if key is not None else b"") + (struct.pack("!L", seq) if seq is not None else b"")
  if not with_csum: return struct.pack("!HH", flags, proto) + opt + payload
  m = struct.pack("!HHHH", flags, proto, 0, 0) + opt + payload
  return m[:4] + struct.pack("!H", csum(m)) + m[6:]

def proto_payload (p, s, d):
  if p == 1: return icmp4(8, 0, icmp_body(8, s, d))
  if p == 2: return igmp(0x16, 0, 0xe0000005)
  if p == 6: return _tcp(_addr(s), _addr(d), 1000 + s[5], 2000 + d[5], _pay(0, 108))
  if p == 17: return udp4(_addr(s), _addr(d), 1000 + s[5], 2000 + d[5], PAY)
  if p == 47: return gre(0x0800, inner_udp(s, d))
  if p in (4, 94): return inner_udp(s, d, 90)                   # IP in IP
  return _pay(p, 120)

PROTO_ASSIGNED = (0, 1, 2, 4, 6, 8, 17, 41, 43, 44, 46, 47, 50, 51, 58, 59, 60, 88, 89, 94, 103, 112, 115, 132, 136, 253, 254, 255)
for p in range(256):
  _add("nw-proto:%d" % p, (lambda p: lambda s, d: ip_frame(s, d, p, proto_payload(p, s, d)))(p), p in PROTO_ASSIGNED or p in BITS8 or p == 127)


# ---- IPv4 type of service (nw_tos), addresses (nw_src / nw_dst), the other header fields --------------------------------------
for v in range(256):
  _add("nw-tos:%d" % v, (lambda v: lambda s, d: udp_frame(s, d, tos=v))(v), v in BITS8 or v in (0, 3, 0x7f, 0xb8, 0xfc, 0xfe, 0xff))

ADDRS = [0, 1, 2 ** 31 - 1, 2 ** 31, 2 ** 32 - 1] + BITS32[1:31] + [0x7f000001, 0xe0000001, 0xa9fe0001, 0x0a0000ff]
for a in ADDRS:
  q = a in (0, 1, 2 ** 31 - 1, 2 ** 31, 2 ** 32 - 1, 1 << 8, 1 << 16, 1 << 24, 1 << 30, 0xe0000001)
  _add("nw-src:%08x" % a, (lambda a: lambda s, d: udp_frame(s, d, sip=a))(a), q)
  _add("nw-dst:%08x" % a, (lambda a: lambda s, d: udp_frame(s, d, dip=a))(a), q)

for v in (0, 1, 255): _add("ip-ttl:%d" % v, (lambda v: lambda s, d: udp_frame(s, d, ttl=v))(v), True)
for v in (0, 1, 0x8000, 0xffff): _add("ip-id:%d" % v, (lambda v: lambda s, d: udp_frame(s, d, ident=v))(v), v in (0, 0xffff))
# flags: 2 = don't fragment, 4 = the reserved bit; non-initial fragments carry no transport header (plain data).
# (Fragments with offset 0 and MF are the frag-first* families of the family plans.)
_add("ip-frag:df", lambda s, d: udp_frame(s, d, flags=2), True)
_add("ip-frag:reserved-bit", lambda s, d: udp_frame(s, d, flags=4), True)
for fl, off in ((0, 1), (1, 1), (0, 8191), (1, 8190), (2, 1)):
  _add("ip-frag:flags%d-off%d" % (fl, off), (lambda fl, off: lambda s, d: ip_frame(s, d, 17, _pay(0, 128), flags=fl, frag=off))(fl, off), off in (1, 8191) and fl == 0)
# options: no-operation padding, router alert (what IGMP senders add), timestamp, strict source route
for nm, o in (("nop", b"\x01\x01\x01\x00"), ("router-alert", b"\x94\x04\x00\x00"), ("timestamp", b"\x44\x0c\x05\x00" + b"\0" * 8),
              ("ssrr", b"\x89\x0b\x04" + b"\x0a\0\0\x63" * 2 + b"\x00")):
  _add("ip-opt:%s" % nm, (lambda o: lambda s, d: udp_frame(s, d, options=o))(o), nm == "router-alert")


# ---- transport ports (tp_src / tp_dst), with a valid message where the port number has an assigned meaning -------------------------
def dns_name (n): return b"".join(bytes([len(x)]) + x.encode() for x in n.split(".")) + b"\0"

def dns_query (): return struct.pack("!HHHHHH", 0x1234, 0x0100, 1, 0, 0, 0) + dns_name("host.example.com") + struct.pack("!HH", 1, 1)

def dns_response ():
  q = dns_name("host.example.com") + struct.pack("!HH", 1, 1)
  rrs = b"".join(b"\xc0\x0c" + struct.pack("!HHLH", 1, 1, 300, 4) + struct.pack("!L", 0x0a000100 + i) for i in range(6))
  return struct.pack("!HHHHHH", 0x1234, 0x8180, 1, 6, 0, 0) + q + rrs

def dhcp (op, mtype, chaddr, pad_to=0, extra=b""):
  b = struct.pack("!BBBBLHHLLLL", op, 1, 6, 0, 0x3903f326, 0, 0x8000 if op == 1 else 0, 0, 0x0a000042 if op == 2 else 0, 0x0a000001 if op == 2 else 0, 0)
  b += chaddr + b"\0" * 10 + b"\0" * 64 + b"\0" * 128 + b"\x63\x82\x53\x63"
  b += b"\x35\x01" + bytes([mtype]) + extra + b"\xff"
  if len(b) < pad_to: b += b"\0" * (pad_to - len(b))
  return b

def rip (cmd, entries):
  return struct.pack("!BBH", cmd, 2, 0) + b"".join(struct.pack("!HHLLLL", afi, 0, a, m, nh, metric) for afi, a, m, nh, metric in entries)

def vxlan (inner): return struct.pack("!BBHL", 0x08, 0, 0, 42 << 8) + inner

def l7 (port, s, d, reply=False):
  if port == 53: return dns_response() if reply else dns_query()
  if port == 5353: return dns_response() if reply else dns_query()
  if port in (67, 68):
    if (port == 67) != reply: return dhcp(1, 1, s, extra=b"\x37\x04\x01\x03\x06\x0f" + b"\x3d\x07\x01" + s)
    return dhcp(2, 2, d, pad_to=300, extra=b"\x36\x04\x0a\x00\x00\x01" + b"\x33\x04\x00\x00\x0e\x10" + b"\x01\x04\xff\xff\xff\x00")
  if port == 520: return rip(2, [(2, 0x0a000100 + (i << 8), 0xffffff00, 0, 1 + i) for i in range(5)]) if reply else rip(1, [(0, 0, 0, 0, 16)])
  if port == 4789: return vxlan(udp_frame(s, d, pay=_pay(0, 60)))
  return PAY

WELL_KNOWN = (53, 67, 68, 520, 4789, 5353)
PORTS = [0, 1, 2 ** 15 - 1, 2 ** 15, 2 ** 16 - 1] + BITS16[1:15] + list(WELL_KNOWN) + [6633, 6653]
for p in PORTS:
  q = p in (0, 1, 2 ** 15 - 1, 2 ** 15, 2 ** 16 - 1) or p in WELL_KNOWN
  _add("udp-dst:%d" % p, (lambda p: lambda s, d: udp_frame(s, d, dport=p, pay=l7(p, s, d)))(p), q)
  _add("udp-src:%d" % p, (lambda p: lambda s, d: udp_frame(s, d, sport=p, pay=l7(p, s, d, True)))(p), q)
  if p not in WELL_KNOWN or p == 53:
    _add("tcp-dst:%d" % p, (lambda p: lambda s, d: tcp_frame(s, d, dport=p))(p), p in (0, 2 ** 16 - 1, 6633))
    _add("tcp-src:%d" % p, (lambda p: lambda s, d: tcp_frame(s, d, sport=p))(p), p in (0, 2 ** 16 - 1))
# both ports equal / both assigned
_add("udp-ports:68-67", lambda s, d: udp_frame(s, d, sport=68, dport=67, pay=l7(67, s, d), sip=0, dip=0xffffffff), True)
_add("udp-ports:67-68", lambda s, d: udp_frame(s, d, sport=67, dport=68, pay=l7(68, s, d)), True)
_add("udp-ports:520-520", lambda s, d: udp_frame(s, d, sport=520, dport=520, pay=l7(520, s, d, True)), True)
_add("udp-ports:5353-5353", lambda s, d: udp_frame(s, d, sport=5353, dport=5353, pay=l7(5353, s, d, True)), False)
_add("udp-ports:53-53", lambda s, d: udp_frame(s, d, sport=53, dport=53, pay=l7(53, s, d, True)), False)
_add("udp-len:empty", lambda s, d: udp_frame(s, d, pay=b""), True)
_add("udp-len:odd", lambda s, d: udp_frame(s, d, pay=_pay(0, 121)), True)


# ---- other IPv4 payload messages --------------------------------------------------------------------------------------------
_add("igmp:v1-report", lambda s, d: ip_frame(s, d, 2, igmp(0x12, 0, 0xe0000005), dip=0xe0000005, ttl=1), False)
_add("igmp:v2-report-router-alert", lambda s, d: ip_frame(s, d, 2, igmp(0x16, 0, 0xe0000005), dip=0xe0000005, ttl=1, options=b"\x94\x04\0\0"), True)
_add("igmp:v2-leave", lambda s, d: ip_frame(s, d, 2, igmp(0x17, 0, 0xe0000005), dip=0xe0000002, ttl=1), False)
_add("igmp:v2-query", lambda s, d: ip_frame(s, d, 2, igmp(0x11, 100, 0), dip=0xe0000001, ttl=1), False)
_add("igmp:v3-query", lambda s, d: ip_frame(s, d, 2, igmp(0x11, 100, 0xe0000005, struct.pack("!BBHLL", 2, 125, 2, 0x0a000001, 0x0a000002)), dip=0xe0000001, ttl=1), True)
_add("igmp:v3-report", lambda s, d: ip_frame(s, d, 2, igmp3_report([(1, 0xe0000005, [0x0a000001, 0x0a000002]), (4, 0xe0000006, [])]), dip=0xe0000016, ttl=1), True)
_add("gre:key", lambda s, d: ip_frame(s, d, 47, gre(0x0800, inner_udp(s, d), key=0xdeadbeef)), True)
_add("gre:seq", lambda s, d: ip_frame(s, d, 47, gre(0x0800, inner_udp(s, d), seq=1)), False)
_add("gre:csum", lambda s, d: ip_frame(s, d, 47, gre(0x0800, inner_udp(s, d), with_csum=True)), True)
_add("gre:csum-key-seq", lambda s, d: ip_frame(s, d, 47, gre(0x0800, inner_udp(s, d), key=1, seq=0xffffffff, with_csum=True)), False)
_add("gre:ethernet", lambda s, d: ip_frame(s, d, 47, gre(0x6558, udp_frame(s, d, pay=_pay(0, 60)))), True)
_add("gre:ipv6", lambda s, d: ip_frame(s, d, 47, gre(0x86dd, ip6(17, udp6(s, d, _pay(0, 40)), s, d))), False)


# ---- VLAN tag (dl_vlan / dl_vlan_pcp), stacked tags, what the tag carries -------------------------------------------------------------
def tagged (vid, pcp=0, cfi=0): return lambda s, d: eth(d, s, 0x8100, vlan_tag(vid, pcp, 0x0800, udp_frame(s, d)[14:], cfi))

for vid in [0, 1, 2, 4094, 4095] + [1 << i for i in range(2, 12)]:
  _add("dl-vlan:%d" % vid, tagged(vid), vid in (0, 1, 4094, 4095, 2048))
for pcp in range(8):
  _add("dl-vlan-pcp:%d" % pcp, tagged(1, pcp), pcp in (1, 7))
  if pcp: _add("dl-vlan-pcp:%d-vid0" % pcp, tagged(0, pcp), pcp == 7)
_add("dl-vlan-cfi:1", tagged(100, 0, 1), True)

def arp (op, s, d, spa=None, tpa=None, htype=1, ptype=0x0800):
  spa = _addr(s) if spa is None else spa
  tpa = _addr(d) if tpa is None else tpa
  return struct.pack("!HHBBH6sL6sL", htype, ptype, 6, 4, op, s, spa, b"\0" * 6 if op == 1 else d, tpa)

def lldp_tlvs (s): return b"\x02\x07\x04" + s + b"\x04\x02\x07\x31" + b"\x06\x02\x00\x78" + b"\x00\x00"

def ip6 (nh, payload, s, d, tc=0, flow=0, hlim=64):
  s6 = b"\xfe\x80" + b"\0" * 13 + s[5:6]; d6 = b"\xfe\x80" + b"\0" * 13 + d[5:6]
  return struct.pack("!LHBB", (6 << 28) | (tc << 20) | flow, len(payload), nh, hlim) + s6 + d6 + payload

def _ph6 (s, d, ln, nh): return b"\xfe\x80" + b"\0" * 13 + s[5:6] + b"\xfe\x80" + b"\0" * 13 + d[5:6] + struct.pack("!LL", ln, nh)

def udp6 (s, d, pay):
  u = struct.pack("!HHHH", 1000 + s[5], 2000 + d[5], 8 + len(pay), 0) + pay
  c = csum(_ph6(s, d, len(u), 17) + u) or 0xffff
  return u[:6] + struct.pack("!H", c) + u[8:]

def icmp6 (s, d, typ, code, body):
  m = struct.pack("!BBH", typ, code, 0) + body
  return m[:2] + struct.pack("!H", csum(_ph6(s, d, len(m), 58) + m)) + m[4:]

def mpls (labels, payload):
  return b"".join(struct.pack("!L", (l << 12) | (tc << 9) | ((i == len(labels) - 1) << 8) | ttl) for i, (l, tc, ttl) in enumerate(labels)) + payload

def eapol (typ, body, ver=2): return struct.pack("!BBH", ver, typ, len(body)) + body

def ether_payload (etype, s, d):
  """A valid payload for ethertypes with an assigned format, opaque data for the others."""
  if etype == 0x0800: return udp_frame(s, d)[14:]
  if etype in (0x0806, 0x8035): return arp(2 if etype == 0x0806 else 4, s, d)
  if etype == 0x86dd: return ip6(17, udp6(s, d, _pay(0, 100)), s, d)
  if etype in (0x8100, 0x88a8, 0x9100): return vlan_tag(7, 0, 0x0800, udp_frame(s, d)[14:])
  if etype in (0x8847, 0x8848): return mpls([(16, 0, 64)], udp_frame(s, d)[14:])
  if etype == 0x888e: return eapol(1, b"")
  if etype == 0x88cc: return lldp_tlvs(s)
  return _pay(etype & 0xff, 140)

# inside a tag
for et in (0x0806, 0x86dd, 0x8100, 0x88a8, 0x8847, 0x888e, 0x88cc, 0x88b5, 0x0600, 0xffff):
  _add("vlan-inner:%04x" % et, (lambda et: lambda s, d: eth(d, s, 0x8100, vlan_tag(100, 0, et, ether_payload(et, s, d))))(et), et in (0x0806, 0x86dd, 0x8100, 0x88cc, 0x88b5))
# 802.3 length + LLC inside a tag
_add("vlan-inner:llc-snap", lambda s, d: eth(d, s, 0x8100, struct.pack("!H", 100) + eth8023(d, s, b"\xaa\xaa\x03\0\0\0\x08\x00" + udp_frame(s, d)[14:])[12:]), True)
_add("vlan-stack:3", lambda s, d: eth(d, s, 0x8100, vlan_tag(1, 0, 0x8100, vlan_tag(2, 0, 0x8100, vlan_tag(3, 0, 0x0800, udp_frame(s, d)[14:])))), False)


# ---- ethertype (dl_type) --------------------------------------------------------------------------------------------------------
ETYPES = (0x0600, 0x0601, 0x0800, 0x0801, 0x0806, 0x0842, 0x1000, 0x2000, 0x22f3, 0x4000, 0x8000, 0x8035, 0x8100, 0x8137, 0x86dd, 0x8808, 0x8809,
          0x880b, 0x8847, 0x8848, 0x8863, 0x8864, 0x8870, 0x888e, 0x88a8, 0x88b5, 0x88bb, 0x88cc, 0x88e5, 0x88f7, 0x8906, 0x9100, 0xfffe, 0xffff)
for et in ETYPES:
  if et in (0x0800, 0x88b5): continue          # the base frame / the "other" family
  _add("dl-type:%04x" % et, (lambda et: lambda s, d: eth(d, s, et, ether_payload(et, s, d)))(et),
       et in (0x0600, 0x0806, 0x8035, 0x8100, 0x86dd, 0x8847, 0x8848, 0x888e, 0x88a8, 0x88cc, 0x9100, 0xffff))

# 802.3 length field + LLC (dl_type: the SNAP protocol id, or 0x05ff "not an ethertype")
BPDU = b"\x00\x00\x00\x00\x00" + struct.pack("!H6sLH6sHHHHH", 0x8000, b"\x02\0\0\0\0\x63", 0, 0x8000, b"\x02\0\0\0\0\x63", 0x8001, 0, 20 << 8, 2 << 8, 15 << 8)
_add("llc:bpdu-42", lambda s, d: eth8023(d, s, b"\x42\x42\x03" + BPDU), True)
_add("llc:null-00", lambda s, d: eth8023(d, s, b"\x00\x00\x03" + _pay(0, 130)), False)
_add("llc:global-ff", lambda s, d: eth8023(d, s, b"\xff\xff\x03" + _pay(0, 130)), True)
_add("llc:i-format", lambda s, d: eth8023(d, s, b"\xf0\xf0\x00\x00" + _pay(0, 130)), True)
_add("llc:snap-arp", lambda s, d: eth8023(d, s, b"\xaa\xaa\x03\0\0\0\x08\x06" + arp(2, s, d)), True)
_add("llc:snap-ipv6", lambda s, d: eth8023(d, s, b"\xaa\xaa\x03\0\0\0\x86\xdd" + ip6(17, udp6(s, d, _pay(0, 100)), s, d)), False)
_add("llc:snap-vlan", lambda s, d: eth8023(d, s, b"\xaa\xaa\x03\0\0\0\x81\x00" + vlan_tag(5, 0, 0x0800, udp_frame(s, d)[14:])), False)
_add("llc:len-3", lambda s, d: eth8023(d, s, b"\xe0\xe0\x03"), True)
_add("llc:len-1500", lambda s, d: eth8023(d, s, b"\xe0\xe0\x03" + _pay(0, 1497)), True)


# ---- ARP / RARP (nw_proto = opcode, nw_src / nw_dst = protocol addresses) ------------------------------------------------------
for op in (0, 1, 2, 3, 4, 8, 9, 10, 255, 256, 0x8000, 0xffff):
  _add("arp-op:%d" % op, (lambda op: lambda s, d: eth(d, s, 0x0806, arp(op, s, d)))(op), op in (0, 1, 3, 255, 256, 0xffff))
for a in (0, 1, 2 ** 31, 2 ** 32 - 1):
  _add("arp-spa:%08x" % a, (lambda a: lambda s, d: eth(d, s, 0x0806, arp(2, s, d, spa=a)))(a), a in (0, 2 ** 32 - 1))
  _add("arp-tpa:%08x" % a, (lambda a: lambda s, d: eth(d, s, 0x0806, arp(2, s, d, tpa=a)))(a), a in (0, 2 ** 32 - 1))
_add("arp-shape:htype-6", lambda s, d: eth(d, s, 0x0806, arp(2, s, d, htype=6)), True)
_add("arp-shape:ipv6-addresses", lambda s, d: eth(d, s, 0x0806, struct.pack("!HHBBH", 1, 0x86dd, 6, 16, 2) + s + b"\xfe\x80" + b"\0" * 13 + s[5:6] + d + b"\xfe\x80" + b"\0" * 13 + d[5:6]), True)
_add("arp-shape:rarp-request", lambda s, d: eth(d, s, 0x8035, arp(3, s, d, spa=0, tpa=0)), False)
_add("arp-shape:gratuitous", lambda s, d: eth(d, s, 0x0806, arp(1, s, d, tpa=_addr(s))), False)


# ---- IPv6 -------------------------------------------------------------------------------------------------------------------
def ext (nh, body6): return bytes([nh, (len(body6) + 2) // 8 - 1]) + body6           # extension header: len(body6) % 8 == 6

def v6 (nh, payload, **kw): return lambda s, d: eth(d, s, 0x86dd, ip6(nh, payload(s, d), s, d, **kw))

LLOPT = lambda t, m: bytes([t, 1]) + m
_add("ipv6:tcp", v6(6, lambda s, d: _tcp6(s, d)), False)
_add("ipv6-ext:hop-by-hop", v6(0, lambda s, d: ext(17, b"\x01\x04\0\0\0\0") + udp6(s, d, _pay(0, 100))), True)
_add("ipv6-ext:dest-opts", v6(60, lambda s, d: ext(17, b"\x01\x04\0\0\0\0") + udp6(s, d, _pay(0, 100))), False)
_add("ipv6-ext:routing", v6(43, lambda s, d: bytes([17, 0, 253, 0]) + b"\0" * 4 + udp6(s, d, _pay(0, 100))), False)
_add("ipv6-ext:fragment-first", v6(44, lambda s, d: struct.pack("!BBHL", 17, 0, 1, 99) + udp6(s, d, _pay(0, 160))[:104]), True)
_add("ipv6-ext:fragment-later", v6(44, lambda s, d: struct.pack("!BBHL", 17, 0, 104, 99) + _pay(0, 64)), False)
_add("ipv6:no-next-header", v6(59, lambda s, d: b""), True)
_add("ipv6:unknown-next-header", v6(253, lambda s, d: _pay(0, 100)), True)
_add("ipv6:traffic-class-flow-max", v6(17, lambda s, d: udp6(s, d, _pay(0, 100)), tc=255, flow=0xfffff), True)
_add("ipv6:hop-limit-0", v6(17, lambda s, d: udp6(s, d, _pay(0, 100)), hlim=0), False)
_add("ipv6:hop-limit-255", v6(17, lambda s, d: udp6(s, d, _pay(0, 100)), hlim=255), False)
_add("icmpv6:echo-request", v6(58, lambda s, d: icmp6(s, d, 128, 0, struct.pack("!HH", 0x4242, 1) + _pay(0, 100))), True)
_add("icmpv6:echo-reply", v6(58, lambda s, d: icmp6(s, d, 129, 0, struct.pack("!HH", 0x4242, 1) + _pay(0, 100))), False)
_add("icmpv6:router-solicitation", v6(58, lambda s, d: icmp6(s, d, 133, 0, b"\0\0\0\0" + LLOPT(1, s)), hlim=255), False)
_add("icmpv6:router-advertisement", v6(58, lambda s, d: icmp6(s, d, 134, 0, struct.pack("!BBHLL", 64, 0, 1800, 0, 0) + LLOPT(1, s)
                                        + struct.pack("!BBHL", 5, 1, 0, 1500) + struct.pack("!BBBBLLL", 3, 4, 64, 0xc0, 86400, 14400, 0) + b"\x20\x01\x0d\xb8" + b"\0" * 12), hlim=255), True)
_add("icmpv6:neighbor-solicitation", v6(58, lambda s, d: icmp6(s, d, 135, 0, b"\0\0\0\0" + b"\xfe\x80" + b"\0" * 13 + d[5:6] + LLOPT(1, s)), hlim=255), True)
_add("icmpv6:neighbor-advertisement", v6(58, lambda s, d: icmp6(s, d, 136, 0, b"\x60\0\0\0" + b"\xfe\x80" + b"\0" * 13 + s[5:6] + LLOPT(2, s)), hlim=255), False)
_add("icmpv6:mld-report", v6(58, lambda s, d: icmp6(s, d, 131, 0, b"\0\0\0\0" + b"\xff\x02" + b"\0" * 13 + b"\x05"), hlim=1), False)
_add("icmpv6:dest-unreachable", v6(58, lambda s, d: icmp6(s, d, 1, 4, b"\0\0\0\0" + ip6(17, udp6(d, s, b""), d, s))), True)
_add("icmpv6:unassigned-type-200", v6(58, lambda s, d: icmp6(s, d, 200, 0, _pay(0, 100))), True)

def _tcp6 (s, d):
  t = struct.pack("!HHLLBBHHH", 1000 + s[5], 2000 + d[5], 0x01020304, 0, 5 << 4, 0x18, 8192, 0, 0) + _pay(0, 100)
  c = csum(_ph6(s, d, len(t), 6) + t)
  return t[:16] + struct.pack("!H", c) + t[18:]


# ---- MPLS, EAPOL ----------------------------------------------------------------------------------------------------------------------
_add("mpls:two-labels", lambda s, d: eth(d, s, 0x8847, mpls([(1048575, 7, 255), (16, 0, 1)], udp_frame(s, d)[14:])), True)
_add("mpls:explicit-null", lambda s, d: eth(d, s, 0x8847, mpls([(0, 0, 64)], udp_frame(s, d)[14:])), False)
_add("mpls:ipv6-payload", lambda s, d: eth(d, s, 0x8847, mpls([(2, 0, 64)], ip6(17, udp6(s, d, _pay(0, 100)), s, d))), False)
_add("eapol:eap-request-identity", lambda s, d: eth(d, s, 0x888e, eapol(0, struct.pack("!BBHB", 1, 1, 5 + 8, 1) + b"identity")), True)
_add("eapol:eap-success", lambda s, d: eth(d, s, 0x888e, eapol(0, struct.pack("!BBH", 3, 1, 4))), False)
_add("eapol:logoff", lambda s, d: eth(d, s, 0x888e, eapol(2, b"", ver=1)), False)
_add("eapol:key", lambda s, d: eth(d, s, 0x888e, eapol(3, b"\x02" + _pay(0, 94))), True)


# ---- station addresses (dl_src / dl_dst): the address host 1 uses instead of 02:00:00:00:00:01 -------------------------------------
# (unicast: the group bit - bit 0 of the first octet - stays clear)
MACS = OrderedDict()
for i in range(48):
  if i == 40: continue
  MACS["bit%d" % i] = (1 << i).to_bytes(6, "big")
MACS["zero"] = b"\0" * 6
MACS["max"] = b"\xfe" + b"\xff" * 5
MACS["global-oui"] = bytes.fromhex("001122334455")
MACS["near-link-local"] = bytes.fromhex("0080c2000000")
MACS["near-lldp"] = bytes.fromhex("0080c200000e")
MACS["near-broadcast"] = bytes.fromhex("feffffffffff")[:5] + b"\xfe"
MACS_QUICK = ("bit0", "bit8", "bit41", "bit47", "zero", "max", "near-link-local")

def mac_of (name):
  """'dl-addr:<which>' values: the station address of host 1 for the whole history (frames are the base frame)."""
  return MACS[name.split(":", 1)[1]]

for k in MACS:
  _add("dl-addr:%s" % k, lambda s, d: udp_frame(s, d), k in MACS_QUICK)


# ---- link-layer padding: frames shorter than the Ethernet minimum, as they are on a wire (zeros up to 60 bytes) -------------
def padded (fn): return lambda s, d: fn(s, d).ljust(60, b"\0")

for nm in ("arp-op:1", "arp-op:2", "dl-type:8035", "vlan-inner:0806", "llc:len-3", "llc:snap-arp", "igmp:v2-query", "icmp-len:echo-no-data", "udp-len:empty",
           "ipv6:no-next-header", "dl-type:888e"):
  assert len(VALUES[nm](b"\x02\0\0\0\0\x01", b"\x02\0\0\0\0\x02")) < 60, nm
  _add("eth-pad:" + nm, padded(VALUES[nm]), True)


def build (name, src, dst): return VALUES[name](src, dst)
