"""OpenFlow 1.0 switch -> controller message ENCODERS, transcribed from the specification
(openflow-spec-v1.0.0 section 5), independent of pox.openflow.libopenflow_01.  Complements
mc/refs/ofwire.py (which has the controller -> switch encoders and the switch -> controller decoders);
the decoders there are the cross-check for these encoders (see selftest())."""
import struct
from mc.refs import ofwire as W


def error (xid, etype, code, data=b""):
  return W.msg(W.ERROR, xid, struct.pack("!HH", etype, code) + data)

def barrier_reply (xid):
  return W.msg(W.BARRIER_REPLY, xid)

def get_config_reply (xid, flags=0, miss_send_len=128):
  return W.msg(W.GET_CONFIG_REPLY, xid, struct.pack("!HH", flags, miss_send_len))

def features_reply (xid, dpid, ports=(), n_buffers=0, n_tables=1, capabilities=0, actions=0xfff):
  # struct ofp_switch_features: datapath_id, n_buffers, n_tables, pad[3], capabilities, actions, ports[]
  return W.msg(W.FEATURES_REPLY, xid,
               struct.pack("!QLB3xLL", dpid, n_buffers, n_tables, capabilities, actions) + b"".join(ports))

def packet_in (xid, data, in_port=1, buffer_id=W.NO_BUFFER, reason=W.OFPR_NO_MATCH, total_len=None):
  # struct ofp_packet_in: buffer_id, total_len, in_port, reason, pad, data[]
  if total_len is None: total_len = len(data)
  return W.msg(W.PACKET_IN, xid, struct.pack("!LHHBx", buffer_id, total_len, in_port, reason) + data)

def flow_removed (xid, m, cookie=0, priority=0x8000, reason=W.OFPRR_IDLE_TIMEOUT, duration_sec=0,
                  duration_nsec=0, idle_timeout=0, packet_count=0, byte_count=0):
  # struct ofp_flow_removed: match, cookie, priority, reason, pad, duration_sec, duration_nsec,
  #                          idle_timeout, pad[2], packet_count, byte_count
  return W.msg(W.FLOW_REMOVED, xid, m + struct.pack("!QHBxLLH2xQQ", cookie, priority, reason, duration_sec,
                                                     duration_nsec, idle_timeout, packet_count, byte_count))

def port_status (xid, reason, desc):
  # struct ofp_port_status: reason, pad[7], desc (ofp_phy_port, 48 bytes)
  return W.msg(W.PORT_STATUS, xid, struct.pack("!B7x", reason) + desc)

def stats_reply (xid, stype, body=b"", flags=0):
  return W.msg(W.STATS_REPLY, xid, struct.pack("!HH", stype, flags) + body)

def desc_stats_body (mfr=b"mfr", hw=b"hw", sw=b"sw", serial=b"1", dp=b"dp"):
  return struct.pack("!256s256s256s32s256s", mfr, hw, sw, serial, dp)

def flow_stats_entry (m, actions=b"", table_id=0, duration_sec=0, duration_nsec=0, priority=0x8000, idle=0,
                      hard=0, cookie=0, packet_count=0, byte_count=0):
  # struct ofp_flow_stats: length, table_id, pad, match, duration_sec, duration_nsec, priority,
  #                        idle_timeout, hard_timeout, pad2[6], cookie, packet_count, byte_count, actions[]
  return (struct.pack("!HBx", 88 + len(actions), table_id) + m +
          struct.pack("!LLHHH6xQQQ", duration_sec, duration_nsec, priority, idle, hard, cookie, packet_count,
                      byte_count) + actions)

def port_stats_entry (port_no, counters=(0,) * 12):
  return struct.pack("!H6x12Q", port_no, *counters)

def aggregate_stats_body (packet_count=0, byte_count=0, flow_count=0):
  return struct.pack("!QQL4x", packet_count, byte_count, flow_count)


def selftest ():
  """Encoders agree with the (separately transcribed) decoders of ofwire.py."""
  d = W.decode(error(7, 1, 2, b"abc"))
  assert (d["t"], d["xid"], d["etype"], d["code"], d["data"]) == ("ERROR", 7, 1, 2, b"abc")
  d = W.decode(packet_in(9, b"x" * 61, in_port=3, buffer_id=5, reason=1))
  assert (d["len"], d["buffer_id"], d["total_len"], d["in_port"], d["reason"], d["data"]) == (79, 5, 61, 3, 1, b"x" * 61)
  d = W.decode(flow_removed(1, W.match_fields(in_port=2), cookie=3, priority=4, reason=1, duration_sec=5,
                            duration_nsec=6, idle_timeout=7, packet_count=8, byte_count=9))
  assert d["len"] == 88 and d["match"]["in_port"] == 2
  assert [d[k] for k in ("cookie", "priority", "reason", "duration_sec", "duration_nsec", "idle_timeout",
                         "packet_count", "byte_count")] == [3, 4, 1, 5, 6, 7, 8, 9]
  d = W.decode(port_status(2, W.OFPPR_MODIFY, W.phy_port(3, b"\1\2\3\4\5\6", b"eth3", state=1)))
  assert d["len"] == 64 and d["reason"] == 2 and d["desc"]["port_no"] == 3 and d["desc"]["name"] == b"eth3"
  d = W.decode(stats_reply(4, W.OFPST_FLOW, flow_stats_entry(W.match_fields(in_port=1), W.a_output(2), cookie=9)))
  assert d["wellformed"] and d["flows"][0]["cookie"] == 9 and d["flows"][0]["actions"] == W.a_output(2)
  d = W.decode(stats_reply(4, W.OFPST_PORT, port_stats_entry(1, tuple(range(12)))))
  assert d["wellformed"] and d["ports"][0]["collisions"] == 11
  d = W.decode(stats_reply(4, W.OFPST_DESC, desc_stats_body()))
  assert d["len"] == 1068 and d["desc"][0] == b"mfr"
  d = W.decode(features_reply(1, 0x42, [W.phy_port(1, b"\0" * 5 + b"\1", b"p1")]))
  assert d["dpid"] == 0x42 and len(d["ports"]) == 1 and d["ports"][0]["port_no"] == 1
  d = W.decode(get_config_reply(3, 1, 99)); assert (d["flags"], d["miss_send_len"]) == (1, 99)
  return True
