"""C09 reference: the switch's side of the OpenFlow 1.0 handshake, and the connection life-cycle
the property statement describes.  Independent of pox: byte layouts are transcribed from the
OpenFlow 1.0 specification (struct + mc.refs.ofwire), the life-cycle model is a few dicts and lists.

Three pieces:
  * encoders for switch -> controller messages (features reply, desc stats reply, barrier reply,
    error, port status, packet in) -- ofwire only had the controller -> switch direction;
  * Peer: a faithful scripted switch.  It learns xids from the bytes the controller wrote and can
    only answer a request it has actually received;
  * Ref: the reference life-cycle (stage per connection, who is live, who was announced, which
    port-status messages must be delivered and in which order, what the registry must contain).
"""
import struct
from mc.refs import ofwire as W

HS_KINDS = ("hello", "features", "desc", "barrier", "barrier-unsup")
ASYNC_KINDS = ("ps-add", "ps-mod", "ps-del", "echo", "pktin", "err-xid", "err-code")
# which incoming messages make a controller that follows the handshake write to the socket
SENDS_IN_HANDSHAKE = ("hello", "features", "echo", "echo-pad")
SENDS_WHEN_UP = ("hello", "echo", "echo-pad")


def mac (dpid, port):
  return struct.pack("!HBBH", 0x0200, dpid & 0xff, 0, port & 0xffff)


# ---- switch -> controller encoders (OpenFlow 1.0 section 5) ----------------------
def features_reply (xid, dpid, ports=(1, 2)):
  # ofp_switch_features: datapath_id(8) n_buffers(4) n_tables(1) pad(3) capabilities(4) actions(4) ports[]
  body = struct.pack("!QLB3xLL", dpid, 256, 1, 0x000000c7, 0x00000fff)
  for p in ports:
    body += W.phy_port(p, mac(dpid, p), b"eth%d" % p)
  return W.msg(W.FEATURES_REPLY, xid, body)

def desc_stats_reply (xid):
  # ofp_stats_reply: type(2) flags(2) body; ofp_desc_stats = 256+256+256+32+256
  body = struct.pack("!256s256s256s32s256s", b"ref mfr", b"ref hw", b"ref sw", b"0001", b"ref dp")
  return W.msg(W.STATS_REPLY, xid, struct.pack("!HH", W.OFPST_DESC, 0) + body)

def barrier_reply (xid):
  return W.msg(W.BARRIER_REPLY, xid)

def error_msg (xid, etype, code, data=b""):
  return W.msg(W.ERROR, xid, struct.pack("!HH", etype, code) + data)

def port_status (reason, port_no, serial, dpid, xid=0):
  # ofp_port_status: reason(1) pad(7) desc(48).  The serial number is carried in the hardware
  # address so that every message of a script is distinguishable.
  hw = struct.pack("!HBBH", 0x0200, dpid & 0xff, 0xee, serial)
  return W.msg(W.PORT_STATUS, xid, struct.pack("!B7x", reason) + W.phy_port(port_no, hw, b"p%d" % port_no))

def packet_in (serial, in_port=1, xid=0):
  frame = bytes.fromhex("020000000001") + bytes.fromhex("020000000002") + b"\x88\xb5" + bytes([serial]) * 46
  return W.msg(W.PACKET_IN, xid, struct.pack("!LHHBx", W.NO_BUFFER, len(frame), in_port, W.OFPR_NO_MATCH) + frame)


PS_REASON = {"ps-add": W.OFPPR_ADD, "ps-mod": W.OFPPR_MODIFY, "ps-del": W.OFPPR_DELETE}

def ps_ident (kind, serial):
  """(reason, port number, serial) of the port-status message a script item stands for."""
  port = {"ps-add": 10 + serial, "ps-mod": 1, "ps-del": 2}[kind]
  return (PS_REASON[kind], port, serial)


# ---- the lattice of UNRELATED errors ------------------------------------------------
# kind "err:<xid choice>:<type>.<code>:<body choice>".  An error is the barrier-unsupported error only when it carries
# the xid of the handshake's barrier request AND type/code BAD_REQUEST/BAD_TYPE; everything in this lattice differs from
# that in the xid or in the type/code, whatever its body looks like, and therefore never completes a handshake.
ERR_XIDS = ("other", "zero", "max", "hello", "features", "desc", "setconfig", "flowmod", "barrier-1", "barrier+1", "barrier")
ERR_CODES = ((1, 1), (1, 0), (1, 6), (1, 5), (0, 0), (0, 1), (2, 0), (3, 0), (4, 0), (5, 0), (0xffff, 0xffff))
ERR_BODIES = ("empty", "1byte", "4bytes", "barrier", "barrier-hdr-xid0", "hello", "features-req", "desc-req", "setconfig", "flowmod64")

def err_kinds (xids=ERR_XIDS, codes=ERR_CODES, bodies=ERR_BODIES):
  out = []
  for x in xids:
    for t, c in codes:
      if x == "barrier" and (t, c) == (1, 1): continue      # that IS the barrier-unsupported error
      for b in bodies: out.append("err:%s:%d.%d:%s" % (x, t, c, b))
  return out


class Peer (object):
  """Scripted switch on one connection."""
  def __init__ (self, dpid):
    self.dpid = dpid
    self.buf = b""
    self.got = []               # type names of complete messages received from the controller
    self.features_xid = None
    self.desc_xid = None
    self.barrier_xid = None     # the first barrier request = the handshake's
    self.barrier_raw = None
    self.hello_seen = False
    self.ports = (1, 2)         # port numbers listed in the features reply (48 bytes each)
    self.xid_mode = "default"   # xid of the messages the switch ORIGINATES (hello, port status, echo request, packet in)
    self.first = {}             # type name -> (xid, raw bytes) of the first controller message of that type
    self.freq_xids = []         # xid of every features request received
    self.freq_answered = 1      # how many of them were answered (the first one by the handshake's features reply)

  def own_xid (self, default):
    """The switch chooses the xids of its own messages freely: the script's default, 0, 0xffffffff, or the
    xid of the controller request it has received last and not answered yet ('pending')."""
    m = self.xid_mode
    if m == "zero": return 0
    if m == "max": return 0xffffffff
    if m == "pending":
      for x in (self.barrier_xid, self.desc_xid, self.features_xid):
        if x is not None: return x
    return default

  def absorb (self, data):
    """Bytes the controller wrote.  Returns the list of message type names."""
    self.buf += data
    msgs, self.buf = W.split(self.buf)
    names = []
    for m in msgs:
      d = W.decode(m)
      names.append(d["t"])
      self.first.setdefault(d["t"], (d["xid"], m))
      if d["type"] == W.FEATURES_REQUEST: self.freq_xids.append(d["xid"])
      if d["type"] == W.HELLO: self.hello_seen = True
      elif d["type"] == W.FEATURES_REQUEST and self.features_xid is None: self.features_xid = d["xid"]
      elif d["type"] == W.STATS_REQUEST and len(m) >= 12:
        if struct.unpack_from("!H", m, 8)[0] == W.OFPST_DESC and self.desc_xid is None: self.desc_xid = d["xid"]
      elif d["type"] == W.BARRIER_REQUEST and self.barrier_xid is None:
        self.barrier_xid = d["xid"]; self.barrier_raw = m
    self.got.extend(names)
    return names

  def can (self, kind):
    if kind == "features": return self.features_xid is not None
    if kind == "desc": return self.desc_xid is not None
    if kind in ("barrier", "barrier-unsup"): return self.barrier_xid is not None
    if kind == "features-again": return len(self.freq_xids) > self.freq_answered
    return True

  def err_xid (self, choice):
    """The xid of an unrelated error: never the handshake barrier's unless that is what was asked for."""
    names = {"hello": "HELLO", "features": "FEATURES_REQUEST", "desc": "STATS_REQUEST", "setconfig": "SET_CONFIG", "flowmod": "FLOW_MOD"}
    if choice == "barrier": return self.barrier_xid if self.barrier_xid is not None else self.other_xid()
    if choice == "zero": x = 0
    elif choice == "max": x = 0xffffffff
    elif choice in names: x = self.first[names[choice]][0] if names[choice] in self.first else None
    elif choice == "barrier-1": x = None if self.barrier_xid is None else (self.barrier_xid - 1) & 0xffffffff
    elif choice == "barrier+1": x = None if self.barrier_xid is None else (self.barrier_xid + 1) & 0xffffffff
    else: x = None
    if x is None or x == self.barrier_xid: x = self.other_xid()
    return x

  def err_body (self, choice):
    """Error data: what (part of) the offending request the switch copies into the error."""
    names = {"hello": "HELLO", "features-req": "FEATURES_REQUEST", "desc-req": "STATS_REQUEST", "setconfig": "SET_CONFIG", "flowmod64": "FLOW_MOD"}
    if choice == "empty": return b""
    if choice == "1byte": return b"\x01"
    if choice == "4bytes": return b"\x01\x12\x00\x08"
    if choice == "barrier": return self.barrier_raw or W.barrier_request(self.other_xid())
    if choice == "barrier-hdr-xid0": return b"\x01\x12\x00\x08\x00\x00\x00\x00"
    raw = self.first[names[choice]][1] if names[choice] in self.first else W.msg({"hello": W.HELLO, "features-req": W.FEATURES_REQUEST}.get(choice, W.FEATURES_REQUEST), self.other_xid())
    return raw[:64]

  def other_xid (self):
    """An xid that is not the one of the handshake barrier."""
    x = 0x0c090001
    while x in (self.barrier_xid, self.features_xid, self.desc_xid): x += 1
    return x

  def build (self, kind, serial=0):
    if kind == "hello": return W.hello(self.own_xid(0x0c09aaaa))
    if kind == "features": return features_reply(self.features_xid, self.dpid, self.ports)
    if kind == "desc": return desc_stats_reply(self.desc_xid)
    if kind == "barrier": return barrier_reply(self.barrier_xid)
    if kind == "barrier-unsup":
      # "this switch does not understand BARRIER_REQUEST": BAD_REQUEST / BAD_TYPE, data = the request
      return error_msg(self.barrier_xid, W.OFPET_BAD_REQUEST, W.OFPBRC_BAD_TYPE, self.barrier_raw or b"")
    if kind in PS_REASON:
      r, port, s = ps_ident(kind, serial)
      return port_status(r, port, s, self.dpid, self.own_xid(0))
    if kind == "echo": return W.echo_request(self.own_xid(0x0c09e000 + serial), b"ping%d" % serial)
    if kind == "echo-pad": return W.echo_request(self.own_xid(0x0c09f000 + serial), b"\0" * serial)    # serial = body length
    if kind == "pktin": return packet_in(serial, xid=self.own_xid(0))
    if kind == "features-again":
      # the answer to a features request the controller sent AFTER the handshake's (second hello, application request)
      x = self.freq_xids[self.freq_answered]; self.freq_answered += 1
      return features_reply(x, self.dpid, self.ports)
    if kind.startswith("err:"):
      _, xc, tc, bc = kind.split(":")
      t, c = tc.split(".")
      return error_msg(self.err_xid(xc), int(t), int(c), self.err_body(bc))
    if kind == "err-xid":
      # right type/code, but about some other request
      return error_msg(self.other_xid(), W.OFPET_BAD_REQUEST, W.OFPBRC_BAD_TYPE, b"\x01\x12\x00\x08\x00\x00\x00\x00")
    if kind == "err-code":
      # about the barrier request (when one is outstanding) but not "unsupported message type"
      x = self.barrier_xid if self.barrier_xid is not None else self.other_xid()
      return error_msg(x, W.OFPET_BAD_REQUEST, W.OFPBRC_BAD_LEN, b"")
    raise KeyError(kind)


# ---- reference life-cycle -----------------------------------------------------
class RefCon (object):
  def __init__ (self, idx, dpid, open_seq):
    self.idx = idx; self.dpid = dpid; self.open_seq = open_seq
    self.stage = "new"            # new -> hello -> features -> up
    self.live = True              # the controller has not been told the connection is gone
    self.closed = False           # the I/O loop has closed it
    self.completed = False        # features + (barrier reply | barrier-unsupported) were received
    self.completed_live = False   # ... while the connection was live
    self.up_seq = None
    self.pre = set()              # port-status idents received before the features reply (optional)
    self.deferred = []            # ... between features reply and completion, while live
    self.post = []                # ... after completion, while live
    self.unconstrained = set()    # ... received after the controller noticed the loss

  def key (self):
    return (self.idx, self.dpid, self.stage, self.live, self.closed, self.completed, self.completed_live,
            tuple(sorted(self.pre)), tuple(self.deferred), tuple(self.post), tuple(sorted(self.unconstrained)))


class Ref (object):
  def __init__ (self):
    self.cons = {}
    self.seq = 0

  def _tick (self):
    self.seq += 1; return self.seq

  def open (self, idx, dpid):
    self.cons[idx] = RefCon(idx, dpid, self._tick())

  def lost (self, idx):
    """A send on the connection failed: the controller knows it is gone."""
    self.cons[idx].live = False

  def closed (self, idx):
    c = self.cons[idx]; c.live = False; c.closed = True

  def message (self, idx, kind, serial=0):
    """The controller reads one message.  Returns True when this message completes the handshake."""
    c = self.cons[idx]
    if kind == "hello":
      if c.stage == "new": c.stage = "hello"
    elif kind == "features":
      if c.stage in ("new", "hello"): c.stage = "features"
    elif kind in ("barrier", "barrier-unsup"):
      if c.stage == "features":
        c.stage = "up"; c.completed = True; c.completed_live = c.live
        c.up_seq = self._tick()
        return True
    elif kind in PS_REASON:
      ident = ps_ident(kind, serial)
      if not c.live: c.unconstrained.add(ident)
      elif c.stage in ("new", "hello"): c.pre.add(ident)
      elif c.stage == "features": c.deferred.append(ident)
      else: c.post.append(ident)
    return False

  def makes_controller_send (self, idx, kind):
    c = self.cons[idx]
    return kind in (SENDS_WHEN_UP if c.stage == "up" else SENDS_IN_HANDSHAKE)

  # -- what must hold ------------------------------------------------------------
  def live_up (self, dpid):
    return [c for c in self.cons.values() if c.dpid == dpid and c.completed_live and c.live]

  def registry (self, dpids):
    """dpid -> set of acceptable connection indices (absent = must not be reachable).  'Most recent'
    live connection = the live connection that completed its handshake (was announced) last: a
    connection accepted earlier whose barrier reply arrives later is the newer announcement."""
    out = {}
    for d in dpids:
      L = self.live_up(d)
      if L:
        out[d] = set([max(L, key=lambda c: c.up_seq).idx])
    return out

  def required_ps (self, idx):
    c = self.cons[idx]
    return list(c.deferred) + list(c.post)

  def key (self):
    order_open = tuple(c.idx for c in sorted(self.cons.values(), key=lambda c: c.open_seq))
    order_up = tuple(c.idx for c in sorted((c for c in self.cons.values() if c.up_seq is not None), key=lambda c: c.up_seq))
    return (tuple(self.cons[i].key() for i in sorted(self.cons)), order_open, order_up)
