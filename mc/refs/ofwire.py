"""OpenFlow 1.0 wire structures, transcribed from the specification (openflow-spec-v1.0.0),
independent of pox.openflow.libopenflow_01.  Encoders for what a controller sends, decoders for
what a switch sends.  Used by the harnesses as the 'other end of the wire'."""
import struct

VERSION = 1
(HELLO, ERROR, ECHO_REQUEST, ECHO_REPLY, VENDOR, FEATURES_REQUEST, FEATURES_REPLY,
 GET_CONFIG_REQUEST, GET_CONFIG_REPLY, SET_CONFIG, PACKET_IN, FLOW_REMOVED, PORT_STATUS,
 PACKET_OUT, FLOW_MOD, PORT_MOD, STATS_REQUEST, STATS_REPLY, BARRIER_REQUEST, BARRIER_REPLY,
 QUEUE_GET_CONFIG_REQUEST, QUEUE_GET_CONFIG_REPLY) = range(22)
TYPE_NAMES = ["HELLO", "ERROR", "ECHO_REQUEST", "ECHO_REPLY", "VENDOR", "FEATURES_REQUEST",
  "FEATURES_REPLY", "GET_CONFIG_REQUEST", "GET_CONFIG_REPLY", "SET_CONFIG", "PACKET_IN",
  "FLOW_REMOVED", "PORT_STATUS", "PACKET_OUT", "FLOW_MOD", "PORT_MOD", "STATS_REQUEST",
  "STATS_REPLY", "BARRIER_REQUEST", "BARRIER_REPLY", "QUEUE_GET_CONFIG_REQUEST",
  "QUEUE_GET_CONFIG_REPLY"]
ASYNC_TYPES = (HELLO, PACKET_IN, FLOW_REMOVED, PORT_STATUS)

# ports
OFPP_MAX = 0xff00; OFPP_IN_PORT = 0xfff8; OFPP_TABLE = 0xfff9; OFPP_NORMAL = 0xfffa
OFPP_FLOOD = 0xfffb; OFPP_ALL = 0xfffc; OFPP_CONTROLLER = 0xfffd; OFPP_LOCAL = 0xfffe
OFPP_NONE = 0xffff
# port config / state
OFPPC_PORT_DOWN = 1; OFPPC_NO_STP = 2; OFPPC_NO_RECV = 4; OFPPC_NO_RECV_STP = 8
OFPPC_NO_FLOOD = 16; OFPPC_NO_FWD = 32; OFPPC_NO_PACKET_IN = 64
OFPPS_LINK_DOWN = 1
# flow mod
OFPFC_ADD, OFPFC_MODIFY, OFPFC_MODIFY_STRICT, OFPFC_DELETE, OFPFC_DELETE_STRICT = range(5)
OFPFF_SEND_FLOW_REM = 1; OFPFF_CHECK_OVERLAP = 2; OFPFF_EMERG = 4
OFPRR_IDLE_TIMEOUT, OFPRR_HARD_TIMEOUT, OFPRR_DELETE = range(3)
NO_BUFFER = 0xffffffff
# wildcards
OFPFW_IN_PORT = 1 << 0; OFPFW_DL_VLAN = 1 << 1; OFPFW_DL_SRC = 1 << 2; OFPFW_DL_DST = 1 << 3
OFPFW_DL_TYPE = 1 << 4; OFPFW_NW_PROTO = 1 << 5; OFPFW_TP_SRC = 1 << 6; OFPFW_TP_DST = 1 << 7
OFPFW_NW_SRC_SHIFT = 8; OFPFW_NW_SRC_MASK = 0x3f << 8
OFPFW_NW_DST_SHIFT = 14; OFPFW_NW_DST_MASK = 0x3f << 14
OFPFW_DL_VLAN_PCP = 1 << 20; OFPFW_NW_TOS = 1 << 21
OFPFW_ALL = (1 << 22) - 1
OFPFW_ALL_NORM = (OFPFW_ALL & ~OFPFW_NW_SRC_MASK & ~OFPFW_NW_DST_MASK) | (32 << 8) | (32 << 14)
# stats
OFPST_DESC, OFPST_FLOW, OFPST_AGGREGATE, OFPST_TABLE, OFPST_PORT, OFPST_QUEUE = range(6)
OFPST_VENDOR = 0xffff
OFPSF_REPLY_MORE = 1
# errors
OFPET_HELLO_FAILED, OFPET_BAD_REQUEST, OFPET_BAD_ACTION, OFPET_FLOW_MOD_FAILED, \
  OFPET_PORT_MOD_FAILED, OFPET_QUEUE_OP_FAILED = range(6)
OFPBRC_BAD_VERSION, OFPBRC_BAD_TYPE, OFPBRC_BAD_STAT, OFPBRC_BAD_VENDOR, OFPBRC_BAD_SUBTYPE, \
  OFPBRC_EPERM, OFPBRC_BAD_LEN, OFPBRC_BUFFER_EMPTY, OFPBRC_BUFFER_UNKNOWN = range(9)
OFPBAC_BAD_TYPE, OFPBAC_BAD_LEN, OFPBAC_BAD_VENDOR, OFPBAC_BAD_VENDOR_TYPE, OFPBAC_BAD_OUT_PORT, \
  OFPBAC_BAD_ARGUMENT, OFPBAC_EPERM, OFPBAC_TOO_MANY, OFPBAC_BAD_QUEUE = range(9)
OFPFMFC_ALL_TABLES_FULL, OFPFMFC_OVERLAP, OFPFMFC_EPERM, OFPFMFC_BAD_EMERG_TIMEOUT, \
  OFPFMFC_BAD_COMMAND, OFPFMFC_UNSUPPORTED = range(6)
OFPPMFC_BAD_PORT, OFPPMFC_BAD_HW_ADDR = range(2)
OFPQOFC_BAD_PORT, OFPQOFC_BAD_QUEUE, OFPQOFC_EPERM = range(3)
OFPR_NO_MATCH, OFPR_ACTION = range(2)
OFPPR_ADD, OFPPR_DELETE, OFPPR_MODIFY = range(3)
OFPQ_ALL = 0xffffffff


def hdr (typ, length, xid):
  return struct.pack("!BBHL", VERSION, typ, length, xid)

def msg (typ, xid, body=b""):
  return hdr(typ, 8 + len(body), xid) + body

def parse_hdr (b, off=0):
  return struct.unpack_from("!BBHL", b, off)


# ---- match -------------------------------------------------------------------
MATCH_FMT = "!LH6s6sHBxHBB2xLLHH"
MATCH_FIELDS = ("wildcards", "in_port", "dl_src", "dl_dst", "dl_vlan", "dl_vlan_pcp", "dl_type",
                "nw_tos", "nw_proto", "nw_src", "nw_dst", "tp_src", "tp_dst")

def match (wildcards=OFPFW_ALL_NORM, in_port=0, dl_src=b"\0"*6, dl_dst=b"\0"*6, dl_vlan=0,
           dl_vlan_pcp=0, dl_type=0, nw_tos=0, nw_proto=0, nw_src=0, nw_dst=0, tp_src=0, tp_dst=0):
  return struct.pack(MATCH_FMT, wildcards, in_port, dl_src, dl_dst, dl_vlan, dl_vlan_pcp, dl_type,
                     nw_tos, nw_proto, nw_src, nw_dst, tp_src, tp_dst)

def parse_match (b, off=0):
  return dict(zip(MATCH_FIELDS, struct.unpack_from(MATCH_FMT, b, off)))

def match_fields (**kw):
  """Match with exactly the given fields specified (everything else wildcarded).
  nw_src/nw_dst may be (addr, prefixlen)."""
  w = OFPFW_ALL_NORM
  bits = dict(in_port=OFPFW_IN_PORT, dl_vlan=OFPFW_DL_VLAN, dl_src=OFPFW_DL_SRC, dl_dst=OFPFW_DL_DST,
              dl_type=OFPFW_DL_TYPE, nw_proto=OFPFW_NW_PROTO, tp_src=OFPFW_TP_SRC, tp_dst=OFPFW_TP_DST,
              dl_vlan_pcp=OFPFW_DL_VLAN_PCP, nw_tos=OFPFW_NW_TOS)
  args = {}
  for k, v in kw.items():
    if k in ("nw_src", "nw_dst"):
      if isinstance(v, tuple): addr, plen = v
      else: addr, plen = v, 32
      shift = OFPFW_NW_SRC_SHIFT if k == "nw_src" else OFPFW_NW_DST_SHIFT
      w &= ~(0x3f << shift)
      w |= (32 - plen) << shift
      args[k] = addr
    else:
      w &= ~bits[k]; args[k] = v
  return match(wildcards=w, **args)


# ---- actions -----------------------------------------------------------------
def a_output (port, max_len=0xffff): return struct.pack("!HHHH", 0, 8, port, max_len)
def a_set_vlan_vid (vid): return struct.pack("!HHH2x", 1, 8, vid)
def a_set_vlan_pcp (pcp): return struct.pack("!HHB3x", 2, 8, pcp)
def a_strip_vlan (): return struct.pack("!HH4x", 3, 8)
def a_set_dl_src (mac): return struct.pack("!HH6s6x", 4, 16, mac)
def a_set_dl_dst (mac): return struct.pack("!HH6s6x", 5, 16, mac)
def a_set_nw_src (ip): return struct.pack("!HHL", 6, 8, ip)
def a_set_nw_dst (ip): return struct.pack("!HHL", 7, 8, ip)
def a_set_nw_tos (tos): return struct.pack("!HHB3x", 8, 8, tos)
def a_set_tp_src (p): return struct.pack("!HHH2x", 9, 8, p)
def a_set_tp_dst (p): return struct.pack("!HHH2x", 10, 8, p)
def a_enqueue (port, queue): return struct.pack("!HHH6xL", 11, 16, port, queue)
def a_vendor (vendor, data=b""): return struct.pack("!HHL", 0xffff, 8 + len(data), vendor) + data
def a_raw (typ, body=b"\0\0\0\0"): return struct.pack("!HH", typ, 4 + len(body)) + body


# ---- controller -> switch messages ---------------------------------------------
def hello (xid=0): return msg(HELLO, xid)
def echo_request (xid, body=b""): return msg(ECHO_REQUEST, xid, body)
def echo_reply (xid, body=b""): return msg(ECHO_REPLY, xid, body)
def features_request (xid): return msg(FEATURES_REQUEST, xid)
def get_config_request (xid): return msg(GET_CONFIG_REQUEST, xid)
def set_config (xid, flags, miss_send_len): return msg(SET_CONFIG, xid, struct.pack("!HH", flags, miss_send_len))
def barrier_request (xid): return msg(BARRIER_REQUEST, xid)
def vendor (xid, vid=0x2320, data=b""): return msg(VENDOR, xid, struct.pack("!L", vid) + data)
def queue_get_config_request (xid, port): return msg(QUEUE_GET_CONFIG_REQUEST, xid, struct.pack("!H2x", port))

def flow_mod (xid, m, command=OFPFC_ADD, actions=b"", priority=0x8000, idle=0, hard=0, cookie=0,
              buffer_id=NO_BUFFER, out_port=OFPP_NONE, flags=0):
  body = m + struct.pack("!QHHHHLHH", cookie, command, idle, hard, priority, buffer_id, out_port, flags) + actions
  return msg(FLOW_MOD, xid, body)

def packet_out (xid, actions=b"", data=b"", buffer_id=NO_BUFFER, in_port=OFPP_NONE):
  return msg(PACKET_OUT, xid, struct.pack("!LHH", buffer_id, in_port, len(actions)) + actions + data)

def port_mod (xid, port_no, hw_addr, config, mask, advertise=0):
  return msg(PORT_MOD, xid, struct.pack("!H6sLLL4x", port_no, hw_addr, config, mask, advertise))

def stats_request (xid, typ, body=b"", flags=0):
  return msg(STATS_REQUEST, xid, struct.pack("!HH", typ, flags) + body)

def flow_stats_body (m=None, table_id=0xff, out_port=OFPP_NONE):
  if m is None: m = match()
  return m + struct.pack("!BxH", table_id, out_port)
def port_stats_body (port_no): return struct.pack("!H6x", port_no)
def queue_stats_body (port_no, queue_id): return struct.pack("!H2xL", port_no, queue_id)


# ---- switch -> controller decoders -------------------------------------------
def split (buf):
  """Split a byte stream into complete messages by header length; returns (msgs, residual)."""
  out = []; off = 0
  while len(buf) - off >= 8:
    ver, typ, ln, xid = parse_hdr(buf, off)
    if ln < 8 or off + ln > len(buf): break
    out.append(buf[off:off+ln]); off += ln
  return out, buf[off:]

PHY_FMT = "!H6s16sLLLLLL"
def parse_phy_port (b, off=0):
  f = struct.unpack_from(PHY_FMT, b, off)
  return dict(port_no=f[0], hw_addr=f[1], name=f[2].split(b"\0")[0], config=f[3], state=f[4],
              curr=f[5], advertised=f[6], supported=f[7], peer=f[8])

def phy_port (port_no, hw_addr, name, config=0, state=0, curr=0, advertised=0, supported=0, peer=0):
  return struct.pack(PHY_FMT, port_no, hw_addr, name, config, state, curr, advertised, supported, peer)

def decode (m):
  """Decode one switch->controller message into a dict (type name under 't')."""
  ver, typ, ln, xid = parse_hdr(m)
  d = dict(t=TYPE_NAMES[typ] if typ < len(TYPE_NAMES) else typ, type=typ, xid=xid, len=ln, version=ver)
  b = m[8:]
  if typ == ERROR:
    d["etype"], d["code"] = struct.unpack_from("!HH", b); d["data"] = b[4:]
  elif typ in (ECHO_REPLY, ECHO_REQUEST):
    d["body"] = b
  elif typ == FEATURES_REPLY:
    d["dpid"], d["n_buffers"], d["n_tables"], d["capabilities"], d["actions"] = struct.unpack_from("!QLB3xLL", b)
    d["ports"] = [parse_phy_port(b, o) for o in range(24, len(b), 48)]
  elif typ == GET_CONFIG_REPLY:
    d["flags"], d["miss_send_len"] = struct.unpack_from("!HH", b)
  elif typ == PACKET_IN:
    d["buffer_id"], d["total_len"], d["in_port"], d["reason"] = struct.unpack_from("!LHHBx", b)
    d["data"] = b[10:]
  elif typ == FLOW_REMOVED:
    d["match"] = parse_match(b)
    (d["cookie"], d["priority"], d["reason"], d["duration_sec"], d["duration_nsec"], d["idle_timeout"],
     d["packet_count"], d["byte_count"]) = struct.unpack_from("!QHBxLLH2xQQ", b, 40)
  elif typ == PORT_STATUS:
    d["reason"] = b[0]; d["desc"] = parse_phy_port(b, 8)
  elif typ == STATS_REPLY:
    d["stype"], d["flags"] = struct.unpack_from("!HH", b)
    body = b[4:]; d["body"] = body
    st = d["stype"]
    if st == OFPST_DESC and len(body) == 1056:
      f = struct.unpack("!256s256s256s32s256s", body)
      d["desc"] = [x.split(b"\0")[0] for x in f]
    elif st == OFPST_FLOW:
      ents = []; o = 0; ok = True
      while o < len(body):
        if len(body) - o < 88: ok = False; break
        ln2, table_id = struct.unpack_from("!HBx", body, o)
        if ln2 < 88 or o + ln2 > len(body): ok = False; break
        e = dict(length=ln2, table_id=table_id, match=parse_match(body, o + 4))
        (e["duration_sec"], e["duration_nsec"], e["priority"], e["idle_timeout"], e["hard_timeout"],
         e["cookie"], e["packet_count"], e["byte_count"]) = struct.unpack_from("!LLHHH6xQQQ", body, o + 44)
        e["actions"] = body[o+88:o+ln2]
        ents.append(e); o += ln2
      d["flows"] = ents; d["wellformed"] = ok
    elif st == OFPST_AGGREGATE and len(body) == 24:
      d["packet_count"], d["byte_count"], d["flow_count"] = struct.unpack("!QQL4x", body)
    elif st == OFPST_TABLE:
      d["tables"] = []
      for o in range(0, len(body) - 63, 64):
        f = struct.unpack_from("!B3x32sLLLQQ", body, o)
        d["tables"].append(dict(table_id=f[0], name=f[1].split(b"\0")[0], wildcards=f[2], max_entries=f[3],
                                active_count=f[4], lookup_count=f[5], matched_count=f[6]))
      d["wellformed"] = len(body) % 64 == 0
    elif st == OFPST_PORT:
      d["ports"] = []
      names = ("rx_packets", "tx_packets", "rx_bytes", "tx_bytes", "rx_dropped", "tx_dropped", "rx_errors",
               "tx_errors", "rx_frame_err", "rx_over_err", "rx_crc_err", "collisions")
      for o in range(0, len(body) - 103, 104):
        f = struct.unpack_from("!H6x12Q", body, o)
        e = dict(port_no=f[0]); e.update(zip(names, f[1:])); d["ports"].append(e)
      d["wellformed"] = len(body) % 104 == 0
    elif st == OFPST_QUEUE:
      d["queues"] = [struct.unpack_from("!H2xLQQQ", body, o) for o in range(0, len(body) - 31, 32)]
      d["wellformed"] = len(body) % 32 == 0
  elif typ == QUEUE_GET_CONFIG_REPLY:
    d["port"] = struct.unpack_from("!H", b)[0]; d["queues_raw"] = b[8:]
  return d
