"""Independent Internet checksum (RFC 1071) and a raw-offset verifier of the length and
checksum fields of an Ethernet frame.

Nothing here imports or calls POX.  Everything is computed from byte offsets given in the
RFCs (791 IPv4, 768 UDP, 793 TCP, 792 ICMP, 8200 IPv6 + pseudo-header, 4443 ICMPv6,
2784/2890 GRE, 7348 VXLAN, 802.1Q).

  ones_sum(data)            16-bit one's-complement sum of big-endian words (odd byte padded right)
  csum(data)                value of a checksum field computed over `data` (field bytes zeroed)
  verify_frame(frame)       -> Result(issues, extra, spans, info), never raises

`issues` are disagreements for the fields named by property C14: IPv4 total length / IHL
sanity / header checksum, UDP length + pseudo-header checksum (v4 and v6), TCP data offset
sanity + pseudo-header checksum (v4 and v6), ICMP checksum, IPv6 payload length.
`extra` are disagreements for fields the property does not name (ICMPv6, IGMP and GRE
checksums); harnesses may ignore them.  Frames are expected WITHOUT trailer padding: a
total-length field must account for every remaining byte.
"""
import struct


def ones_sum (data):
  data = bytes(data)
  if len(data) & 1:
    data += b'\x00'
  s = sum(struct.unpack("!%dH" % (len(data) >> 1), data)) if data else 0
  while s >> 16:
    s = (s & 0xffff) + (s >> 16)
  return s


def csum (data):
  """Checksum field value for `data` (in which the field itself is zero)."""
  return (~ones_sum(data)) & 0xffff


def csum_skipping (data, word_index):
  """Checksum of data with 16-bit word number `word_index` treated as zero."""
  data = bytearray(data)
  data[2 * word_index: 2 * word_index + 2] = b'\x00\x00'
  return csum(bytes(data))


def zeroed (data, off):
  return data[:off] + b'\x00\x00' + data[off + 2:]


def pseudo4 (src, dst, proto, length):
  return src + dst + struct.pack("!BBH", 0, proto, length)


def pseudo6 (src, dst, proto, length):
  return src + dst + struct.pack("!IHBB", length, 0, 0, proto)


def u16 (b, o):
  return (b[o] << 8) | b[o + 1]


class Result (object):
  def __init__ (self):
    self.issues = []   # (clause, where, field, expected, actual)   clause in {"length", "checksum"}
    self.extra = []    # same shape, for fields C14 does not name
    self.spans = []    # (name, start, end) of every header recognised, outermost first
    self.info = {}     # e.g. "ipv4.hl" -> [values in encounter order]
    self.malformed = []

  def issue (self, clause, where, field, expected, actual):
    self.issues.append((clause, where, field, expected, actual))

  def note (self, k, v):
    self.info.setdefault(k, []).append(v)

  def locate (self, offset):
    """Innermost recognised header that contains byte `offset` -> (name, relative offset)."""
    best = None
    for name, s, e in self.spans:
      if s <= offset < e:
        best = (name, offset - s)
    return best


def verify_frame (frame):
  r = Result()
  try:
    _eth(bytes(frame), 0, len(frame), r, "", 0)
  except Exception as e:           # the verifier must be total; report, never raise
    r.malformed.append("verifier stopped: %s: %s" % (type(e).__name__, e))
  return r


def _eth (b, off, end, r, pfx, depth):
  if end - off < 14:
    r.malformed.append(pfx + "eth: short"); return
  et = u16(b, off + 12)
  r.spans.append((pfx + "eth", off, off + 14))
  off += 14
  while et == 0x8100:
    if end - off < 4:
      r.malformed.append(pfx + "vlan: short"); return
    r.spans.append((pfx + "vlan", off, off + 4))
    et = u16(b, off + 2)
    off += 4
  if et == 0x0800:
    _ipv4(b, off, end, r, pfx, depth)
  elif et == 0x86dd:
    _ipv6(b, off, end, r, pfx, depth)
  elif et < 1536:
    r.note(pfx + "eth.8023len", (et, end - off))
    # LLC, possibly SNAP
    if end - off >= 3:
      ctl = b[off + 2]
      n = 3 if (ctl & 3) == 3 else 4
      if b[off] & 0xfe == 0xaa and b[off + 1] & 0xfe == 0xaa and end - off >= n + 5:
        r.spans.append((pfx + "llc", off, off + n + 5))
        if b[off + n:off + n + 3] == b'\x00\x00\x00':
          st = u16(b, off + n + 3)
          if st == 0x0800: _ipv4(b, off + n + 5, end, r, pfx, depth)
          elif st == 0x86dd: _ipv6(b, off + n + 5, end, r, pfx, depth)
      elif end - off >= n:
        r.spans.append((pfx + "llc", off, off + n))


def _ipv4 (b, off, end, r, pfx, depth):
  name = pfx + "ipv4"
  if end - off < 20:
    r.malformed.append(name + ": short"); return
  v, ihl = b[off] >> 4, b[off] & 15
  hl = ihl * 4
  tot = u16(b, off + 2)
  r.note(name + ".hl", hl)
  if v != 4 or hl < 20 or off + hl > end:
    r.issue("length", name, "ihl", "20..%d" % (end - off), hl)
    r.spans.append((name, off, off + 20))
    return
  r.spans.append((name, off, off + hl))
  if tot != end - off:
    r.issue("length", name, "total_length", end - off, tot)
  want = csum(zeroed(b[off:off + hl], 10))
  got = u16(b, off + 10)
  if want != got:
    r.issue("checksum", name, "header_checksum", want, got)
  frag = u16(b, off + 6)
  proto = b[off + 9]
  if frag & 0x3fff:
    return                       # fragment: no upper-layer header to check
  src, dst = b[off + 12:off + 16], b[off + 16:off + 20]
  lo = off + hl
  ph = lambda n: pseudo4(src, dst, proto, n)
  if proto == 17: _udp(b, lo, end, r, pfx, "/ipv4", ph, depth)
  elif proto == 6: _tcp(b, lo, end, r, pfx, "/ipv4", ph)
  elif proto == 1: _icmp(b, lo, end, r, pfx)
  elif proto == 2: _igmp(b, lo, end, r, pfx)
  elif proto == 47: _gre(b, lo, end, r, pfx, depth)


def _ipv6 (b, off, end, r, pfx, depth):
  name = pfx + "ipv6"
  if end - off < 40:
    r.malformed.append(name + ": short"); return
  r.spans.append((name, off, off + 40))
  plen = u16(b, off + 4)
  if plen != end - off - 40:
    r.issue("length", name, "payload_length", end - off - 40, plen)
  nh = b[off + 6]
  src, dst = b[off + 8:off + 24], b[off + 24:off + 40]
  lo = off + 40
  n_ext = 0
  while nh in (0, 43, 60, 44):
    if end - lo < 8:
      r.malformed.append(name + ": next header %d needs 8 bytes, %d left" % (nh, end - lo))
      return
    l = 8 if nh == 44 else (b[lo + 1] + 1) * 8
    if lo + l > end:
      r.malformed.append(name + ": extension header of %d bytes, %d left" % (l, end - lo))
      return
    r.spans.append((name + ".ext%d" % nh, lo, lo + l))
    if nh == 44 and (u16(b, lo + 2) & 0xfff9):
      return                     # a real fragment
    nh = b[lo]
    lo += l
    n_ext += 1
  r.note(name + ".ext", n_ext)
  ph = lambda n: pseudo6(src, dst, nh, n)
  if nh == 17: _udp(b, lo, end, r, pfx, "/ipv6", ph, depth)
  elif nh == 6: _tcp(b, lo, end, r, pfx, "/ipv6", ph)
  elif nh == 58: _icmp6(b, lo, end, r, pfx, ph)


def _udp (b, off, end, r, pfx, over, ph, depth):
  name = pfx + "udp" + over
  if end - off < 8:
    r.malformed.append(name + ": short"); return
  r.spans.append((name, off, off + 8))
  ln = u16(b, off + 4)
  if ln != end - off:
    r.issue("length", name, "length", end - off, ln)
  got = u16(b, off + 6)
  seg = b[off:end]
  want = csum(ph(len(seg)) + zeroed(seg, 6))
  if want == 0: want = 0xffff    # RFC 768: an all-zero result is transmitted as all ones
  if got != want:                # a sender that computes the checksum never emits 0 ("no checksum")
    r.issue("checksum", name, "checksum", want, got)
  sp, dp = u16(b, off), u16(b, off + 2)
  if 4789 in (sp, dp) and end - off >= 16 and depth < 3:
    r.spans.append((pfx + "vxlan", off + 8, off + 16))
    _eth(b, off + 16, end, r, pfx + "vxlan>", depth + 1)


def _tcp (b, off, end, r, pfx, over, ph):
  name = pfx + "tcp" + over
  if end - off < 20:
    r.malformed.append(name + ": short"); return
  doff = (b[off + 12] >> 4) * 4
  r.note(name + ".hl", doff)
  if doff < 20 or off + doff > end:
    r.issue("length", name, "data_offset", "20..%d" % (end - off), doff)
    r.spans.append((name, off, off + 20))
  else:
    r.spans.append((name, off, off + doff))
  seg = b[off:end]
  want = csum(ph(len(seg)) + zeroed(seg, 16))
  got = u16(b, off + 16)
  if got != want:
    r.issue("checksum", name, "checksum", want, got)


def _icmp (b, off, end, r, pfx):
  name = pfx + "icmp"
  if end - off < 4:
    r.malformed.append(name + ": short"); return
  r.spans.append((name, off, off + min(8, end - off)))
  msg = b[off:end]
  want = csum(zeroed(msg, 2))
  got = u16(b, off + 2)
  if got != want:
    r.issue("checksum", name, "checksum", want, got)


def _icmp6 (b, off, end, r, pfx, ph):
  name = pfx + "icmpv6"
  if end - off < 4:
    r.malformed.append(name + ": short"); return
  r.spans.append((name, off, off + min(8, end - off)))
  msg = b[off:end]
  want = csum(ph(len(msg)) + zeroed(msg, 2))
  got = u16(b, off + 2)
  if got != want:
    r.extra.append(("checksum", name, "checksum", want, got))


def _igmp (b, off, end, r, pfx):
  name = pfx + "igmp"
  if end - off < 8:
    r.malformed.append(name + ": short"); return
  r.spans.append((name, off, off + 8))
  msg = b[off:end]
  want = csum(zeroed(msg, 2))
  got = u16(b, off + 2)
  if got != want:
    r.extra.append(("checksum", name, "checksum", want, got))


def _gre (b, off, end, r, pfx, depth):
  name = pfx + "gre"
  if end - off < 4:
    r.malformed.append(name + ": short"); return
  flags = u16(b, off)
  proto = u16(b, off + 2)
  hl = 4
  if flags & 0xc000: hl += 4
  if flags & 0x2000: hl += 4
  if flags & 0x1000: hl += 4
  if off + hl > end:
    r.malformed.append(name + ": short"); return
  if flags & 0x4000:
    # source route entries: (af, offset, length, data) ... terminated by length 0
    while True:
      if off + hl + 4 > end:
        r.malformed.append(name + ": routing runs off the end"); return
      sl = b[off + hl + 3]
      hl += 4 + sl
      if sl == 0: break
    if off + hl > end:
      r.malformed.append(name + ": routing runs off the end"); return
  r.spans.append((name, off, off + hl))
  if flags & 0x8000:
    msg = b[off:end]
    want = csum(zeroed(msg, 4))
    got = u16(b, off + 4)
    if got != want:
      r.extra.append(("checksum", name, "checksum", want, got))
  if depth >= 3: return
  if proto == 0x0800: _ipv4(b, off + hl, end, r, pfx + "gre>", depth + 1)
  elif proto == 0x6558: _eth(b, off + hl, end, r, pfx + "gre>", depth + 1)
