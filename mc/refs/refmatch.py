"""Reference header-field extraction for OpenFlow 1.0 matching, written from the specification
(openflow-spec-v1.0.0, section 3.4: Table 3 "fields used to match against flow entries" and the
header-parsing flow chart), working on raw frame bytes with `struct` only.  Independent of
pox.lib.packet and pox.openflow: nothing from POX is imported or called here.

    extract(frame, in_port) -> (fields, applicable)

`fields` holds all twelve match fields; a field that does not exist in the frame is 0 ("initialise
headers ... set all others to zero").  `applicable` is the set of fields that do exist in the frame
(used only to explain a disagreement, never to decide one).

What the specification prescribes and this file implements:
  dl_vlan      0xffff (OFP_VLAN_NONE) for an untagged frame, else the 12-bit VLAN id (CFI masked off)
  dl_vlan_pcp  the 3 priority bits of the tag (0 without a tag)
  dl_type      the inner Ethernet type after an 802.1Q tag; for 802.3 frames (type/length < 0x600) the
               type of an LLC/SNAP header with OUI 00-00-00, otherwise 0x05ff (OFP_DL_TYPE_NOT_ETH_TYPE)
  nw_tos       the 6 DSCP bits, left in the upper six bits of the byte (ECN bits are not part of it)
  ARP          nw_proto = lower 8 bits of the opcode, nw_src/nw_dst = sender/target protocol address
  IPv4         nw_proto/nw_src/nw_dst; transport fields only for an unfragmented datagram:
               TCP/UDP ports, ICMP type -> tp_src, ICMP code -> tp_dst; for fragments (MF set or
               offset != 0) tp_src = tp_dst = 0

Also here: the frame corpus of the C03 harness (assembled from RFC layouts, with the fields each frame
is *meant* to carry written out by hand - `self_check()` compares them with `extract`, so a slip in
either is noticed before anything is blamed on POX) and `wire_exact` (an entry is an exact match iff
its wildcards word has no wildcard bit set on the wire).
"""
import struct

FIELDS = ("in_port", "dl_src", "dl_dst", "dl_vlan", "dl_vlan_pcp", "dl_type", "nw_tos", "nw_proto",
          "nw_src", "nw_dst", "tp_src", "tp_dst")
OFP_VLAN_NONE = 0xffff
OFP_DL_TYPE_NOT_ETH_TYPE = 0x05ff
OFPFW_ALL = (1 << 22) - 1


def _u16 (b, o): return struct.unpack_from("!H", b, o)[0]
def _u32 (b, o): return struct.unpack_from("!L", b, o)[0]


def extract (frame, in_port):
  f = dict(in_port=in_port, dl_dst=bytes(frame[0:6]), dl_src=bytes(frame[6:12]), dl_vlan=OFP_VLAN_NONE,
           dl_vlan_pcp=0, dl_type=0, nw_tos=0, nw_proto=0, nw_src=0, nw_dst=0, tp_src=0, tp_dst=0)
  app = set(["in_port", "dl_src", "dl_dst", "dl_vlan", "dl_vlan_pcp", "dl_type"])
  et = _u16(frame, 12); off = 14
  if et == 0x8100 and len(frame) >= off + 4:
    tci = _u16(frame, off)
    f["dl_vlan"] = tci & 0x0fff
    f["dl_vlan_pcp"] = tci >> 13
    et = _u16(frame, off + 2); off += 4
  if et < 0x0600:
    # 802.3 length field: LLC follows; only SNAP with OUI 0 carries an Ethernet type
    if len(frame) >= off + 8 and frame[off:off+3] == b"\xaa\xaa\x03" and frame[off+3:off+6] == b"\0\0\0":
      et = _u16(frame, off + 6); off += 8
    else:
      f["dl_type"] = OFP_DL_TYPE_NOT_ETH_TYPE
      return f, app
  f["dl_type"] = et
  if et == 0x0806:
    if len(frame) >= off + 28 and _u16(frame, off) == 1 and _u16(frame, off + 2) == 0x0800 \
       and frame[off+4] == 6 and frame[off+5] == 4:
      f["nw_proto"] = _u16(frame, off + 6) & 0xff
      f["nw_src"] = _u32(frame, off + 14)
      f["nw_dst"] = _u32(frame, off + 24)
      app |= set(["nw_proto", "nw_src", "nw_dst"])
  elif et == 0x0800:
    if len(frame) >= off + 20 and (frame[off] >> 4) == 4 and (frame[off] & 15) >= 5:
      ihl = (frame[off] & 15) * 4
      f["nw_tos"] = frame[off+1] & 0xfc
      f["nw_proto"] = frame[off+9]
      f["nw_src"] = _u32(frame, off + 12)
      f["nw_dst"] = _u32(frame, off + 16)
      app |= set(["nw_tos", "nw_proto", "nw_src", "nw_dst"])
      fragword = _u16(frame, off + 6)
      fragment = bool(fragword & 0x2000) or (fragword & 0x1fff) != 0
      l4 = off + ihl
      if f["nw_proto"] in (1, 6, 17):
        app |= set(["tp_src", "tp_dst"])
        if not fragment:
          if f["nw_proto"] == 1 and len(frame) >= l4 + 2:
            f["tp_src"] = frame[l4]; f["tp_dst"] = frame[l4+1]
          elif f["nw_proto"] in (6, 17) and len(frame) >= l4 + 4:
            f["tp_src"] = _u16(frame, l4); f["tp_dst"] = _u16(frame, l4 + 2)
  return f, app


def layout (frame):
  """Where the headers of an Ethernet II frame sit (own parse, no POX): dict(tagged, tci, etype, l3, and for a
  well-formed IPv4 header tos, ident, fragword, ttl, proto, ihl, l4).  None for 802.3/LLC frames."""
  et = _u16(frame, 12); off = 14
  d = dict(tagged=False, tci=None)
  if et == 0x8100:
    d["tagged"] = True; d["tci"] = _u16(frame, off); et = _u16(frame, off + 2); off += 4
  if et < 0x0600: return None
  d["etype"] = et; d["l3"] = off
  if et == 0x0800 and len(frame) >= off + 20 and (frame[off] >> 4) == 4 and (frame[off] & 15) >= 5:
    d.update(tos=frame[off+1], ident=_u16(frame, off + 4), fragword=_u16(frame, off + 6), ttl=frame[off+8],
             proto=frame[off+9], ihl=(frame[off] & 15) * 4, l4=off + (frame[off] & 15) * 4)
  return d


def retag (frame, ops):
  """The frame after the VLAN actions of OpenFlow 1.0 section 3.3 (Table 5), on bytes.
  ops: sequence of ("vid", v) | ("pcp", p) | ("strip",).  set_vlan_vid / set_vlan_pcp rewrite the field of an
  existing tag; without a tag "a new header is added" with the other field zero; strip removes the tag if present."""
  frame = bytes(frame)
  for op in ops:
    tagged = _u16(frame, 12) == 0x8100
    if op[0] == "strip":
      if tagged: frame = frame[:12] + frame[16:]
      continue
    if not tagged:
      frame = frame[:12] + struct.pack("!HH", 0x8100, 0) + frame[12:]
    tci = _u16(frame, 14)
    if op[0] == "vid": tci = (tci & 0xf000) | (op[1] & 0x0fff)
    else: tci = (tci & 0x1fff) | ((op[1] & 7) << 13)
    frame = frame[:14] + struct.pack("!H", tci) + frame[16:]
  return frame


def wire_exact (pm):
  """pm: parsed wire match (dict with 'wildcards').  Exact-match entry = no wildcard bit at all."""
  return (pm["wildcards"] & OFPFW_ALL) == 0


# ---------------------------------------------------------------------------------------------
# frame corpus (bytes assembled here; no POX, no other module of the framework)
# ---------------------------------------------------------------------------------------------
def csum16 (b):
  if len(b) & 1: b += b"\0"
  s = sum(struct.unpack("!%dH" % (len(b) // 2), b))
  while s >> 16: s = (s & 0xffff) + (s >> 16)
  return (~s) & 0xffff

MA = bytes.fromhex("02aa00000001")
MB = bytes.fromhex("02bb00000002")
BCAST = b"\xff" * 6
IPA = 0x0a010203
IPB = 0xc0a8fe05


def eth (dst, src, etype, payload): return dst + src + struct.pack("!H", etype) + payload
def eth8023 (dst, src, payload): return dst + src + struct.pack("!H", len(payload)) + payload
def dot1q (vid, pcp, cfi, etype, payload): return struct.pack("!HH", (pcp << 13) | (cfi << 12) | vid, etype) + payload

def ipv4 (proto, payload, src=IPA, dst=IPB, tos=0, mf=0, fragoff=0, options=b"", ident=0x4d2):
  hl = 20 + len(options)
  h = struct.pack("!BBHHHBBHLL", 0x40 | (hl >> 2), tos, hl + len(payload), ident, (mf << 13) | fragoff, 64, proto, 0,
                  src, dst) + options
  h = h[:10] + struct.pack("!H", csum16(h)) + h[12:]
  return h + payload

def _pseudo (proto, ln, src, dst): return struct.pack("!LLBBH", src, dst, 0, proto, ln)

def tcp (sport, dport, data=b"payload!", src=IPA, dst=IPB):
  h = struct.pack("!HHLLBBHHH", sport, dport, 0x01020304, 0, 0x50, 0x02, 8192, 0, 0)
  c = csum16(_pseudo(6, len(h) + len(data), src, dst) + h + data)
  return h[:16] + struct.pack("!H", c) + h[18:] + data

def udp (sport, dport, data=b"datagram", src=IPA, dst=IPB):
  ln = 8 + len(data)
  h = struct.pack("!HHHH", sport, dport, ln, 0)
  c = csum16(_pseudo(17, ln, src, dst) + h + data) or 0xffff
  return struct.pack("!HHHH", sport, dport, ln, c) + data

def icmp (typ, code, rest=b"\0\0\0\0" + b"quoted-datagram."):
  m = struct.pack("!BBH", typ, code, 0) + rest
  return m[:2] + struct.pack("!H", csum16(m)) + m[4:]

def arp (opcode, sha, spa, tha, tpa):
  return struct.pack("!HHBBH6sL6sL", 1, 0x0800, 6, 4, opcode, sha, spa, tha, tpa)


class Frame (object):
  __slots__ = ("name", "data", "in_port", "want", "defined")
  def __init__ (self, name, data, in_port, **want):
    self.name = name; self.data = data; self.in_port = in_port
    self.defined = None        # None: every field is defined; else the set of fields the specification defines for this frame
    w = dict(in_port=in_port, dl_vlan=OFP_VLAN_NONE, dl_vlan_pcp=0, nw_tos=0, nw_proto=0, nw_src=0, nw_dst=0,
             tp_src=0, tp_dst=0)
    w.update(want)
    self.want = w


def corpus ():
  """Ordered list of Frame.  `want` is the hand-written expectation of what Table 3 assigns."""
  ip = dict(dl_type=0x0800, nw_src=IPA, nw_dst=IPB)
  ab = dict(dl_src=MA, dl_dst=MB)
  fs = [
    Frame("tcp", eth(MB, MA, 0x0800, ipv4(6, tcp(1111, 80), tos=0x20)), 1,
          nw_tos=0x20, nw_proto=6, tp_src=1111, tp_dst=80, **ab, **ip),
    Frame("tcp-ecn", eth(MB, MA, 0x0800, ipv4(6, tcp(1111, 80), tos=0x23)), 1,
          nw_tos=0x20, nw_proto=6, tp_src=1111, tp_dst=80, **ab, **ip),
    Frame("vlan-tcp", eth(MB, MA, 0x8100, dot1q(0x123, 5, 0, 0x0800, ipv4(6, tcp(1111, 80), tos=0x20))), 1,
          dl_vlan=0x123, dl_vlan_pcp=5, nw_tos=0x20, nw_proto=6, tp_src=1111, tp_dst=80, **ab, **ip),
    Frame("udp", eth(MA, MB, 0x0800, ipv4(17, udp(53, 5353, src=IPB, dst=IPA), src=IPB, dst=IPA)), 2,
          dl_src=MB, dl_dst=MA, dl_type=0x0800, nw_src=IPB, nw_dst=IPA, nw_proto=17, tp_src=53, tp_dst=5353),
    Frame("vlan-udp", eth(MB, MA, 0x8100, dot1q(0x0fa, 2, 0, 0x0800, ipv4(17, udp(5353, 53), tos=0x08))), 1,
          dl_vlan=0x0fa, dl_vlan_pcp=2, nw_tos=0x08, nw_proto=17, tp_src=5353, tp_dst=53, **ab, **ip),
    Frame("vlan-cfi-udp", eth(MB, MA, 0x8100, dot1q(0x0fa, 2, 1, 0x0800, ipv4(17, udp(5353, 53), tos=0x08))), 1,
          dl_vlan=0x0fa, dl_vlan_pcp=2, nw_tos=0x08, nw_proto=17, tp_src=5353, tp_dst=53, **ab, **ip),
    Frame("icmp", eth(MB, MA, 0x0800, ipv4(1, icmp(3, 1), tos=0xc0)), 1,
          nw_tos=0xc0, nw_proto=1, tp_src=3, tp_dst=1, **ab, **ip),
    Frame("vlan-icmp", eth(MB, MA, 0x8100, dot1q(0, 7, 0, 0x0800, ipv4(1, icmp(8, 0, b"\x12\x34\0\x01ping-data!")))), 3,
          dl_vlan=0, dl_vlan_pcp=7, nw_proto=1, tp_src=8, tp_dst=0, **ab, **ip),
    Frame("ip-opts", eth(MB, MA, 0x0800, ipv4(6, tcp(1111, 80), tos=0x20, options=b"\x01" * 8)), 1,
          nw_tos=0x20, nw_proto=6, tp_src=1111, tp_dst=80, **ab, **ip),
    Frame("frag-first", eth(MB, MA, 0x0800, ipv4(17, udp(5353, 53, b"x" * 24), mf=1)), 1,
          nw_proto=17, tp_src=0, tp_dst=0, **ab, **ip),
    Frame("frag-later", eth(MB, MA, 0x0800, ipv4(17, b"\x14\xe9\x00\x35" + b"y" * 20, fragoff=185)), 1,
          nw_proto=17, tp_src=0, tp_dst=0, **ab, **ip),
    Frame("ip-gre", eth(MB, MA, 0x0800, ipv4(47, b"\x20\x00\x65\x58\x00\x00\x00\x07" + b"z" * 12)), 1,
          nw_proto=47, **ab, **ip),
    Frame("arp-req", eth(BCAST, MA, 0x0806, arp(1, MA, IPA, b"\0" * 6, IPB)), 1,
          dl_src=MA, dl_dst=BCAST, dl_type=0x0806, nw_proto=1, nw_src=IPA, nw_dst=IPB),
    Frame("arp-rep", eth(MA, MB, 0x0806, arp(2, MB, IPB, MA, IPA)), 2,
          dl_src=MB, dl_dst=MA, dl_type=0x0806, nw_proto=2, nw_src=IPB, nw_dst=IPA),
    Frame("arp-wide-opcode", eth(MB, MA, 0x0806, arp(0x0102, MA, IPA, MB, IPB)), 1,
          dl_type=0x0806, nw_proto=2, nw_src=IPA, nw_dst=IPB, **ab),
    Frame("llc", eth8023(MB, MA, b"\x42\x42\x03" + b"\0\0\0\0\0\x80\0" + b"bpdu-like-payload"), 1,
          dl_type=OFP_DL_TYPE_NOT_ETH_TYPE, **ab),
    Frame("llc-snap", eth8023(MB, MA, b"\xaa\xaa\x03\0\0\0\x80\x9b" + b"appletalk-ddp-payload"), 1,
          dl_type=0x809b, **ab),
    Frame("ipv6", eth(MB, MA, 0x86dd, struct.pack("!LHBB", 0x60000000, 0, 59, 64) + b"\xfe\x80" + b"\0" * 13 + b"\x01"
              + b"\xfe\x80" + b"\0" * 13 + b"\x02"), 1,
          dl_type=0x86dd, **ab),
    Frame("other", eth(MB, MA, 0x88b5, b"local-experimental-ethertype-payload"), 1,
          dl_type=0x88b5, **ab),
  ]
  return fs


def near_collisions ():
  """Frames that carry the header values of a corpus frame permuted or shifted between fields (ports swapped,
  addresses swapped, VLAN id and priority swapped, in_port and a port number changed by the same bits): any
  summary of a frame that forgets WHICH field a value sits in (a sum, an XOR) cannot tell them from the original.
  Used by the lookup-history part of C03, where frames are looked up back to back in the same table."""
  ip = dict(dl_type=0x0800, nw_src=IPA, nw_dst=IPB)
  ab = dict(dl_src=MA, dl_dst=MB)
  t = dict(nw_tos=0x20, nw_proto=6)
  return [
    Frame("tcp~ports", eth(MB, MA, 0x0800, ipv4(6, tcp(80, 1111), tos=0x20)), 1, tp_src=80, tp_dst=1111, **t, **ab, **ip),
    Frame("tcp~addrs", eth(MB, MA, 0x0800, ipv4(6, tcp(1111, 80, src=IPB, dst=IPA), src=IPB, dst=IPA, tos=0x20)), 1,
          dl_type=0x0800, nw_src=IPB, nw_dst=IPA, tp_src=1111, tp_dst=80, **t, **ab),
    Frame("tcp~macs", eth(MA, MB, 0x0800, ipv4(6, tcp(1111, 80), tos=0x20)), 1,
          dl_src=MB, dl_dst=MA, tp_src=1111, tp_dst=80, **t, **ip),
    Frame("tcp~port3", eth(MB, MA, 0x0800, ipv4(6, tcp(1111, 82), tos=0x20)), 3, tp_src=1111, tp_dst=82, **t, **ab, **ip),   # 1^80 == 3^82
    Frame("tcp~port2", eth(MB, MA, 0x0800, ipv4(6, tcp(1108, 80), tos=0x20)), 2, tp_src=1108, tp_dst=80, **t, **ab, **ip),   # 1^1111 == 2^1108
    Frame("udp~ports", eth(MA, MB, 0x0800, ipv4(17, udp(5353, 53, src=IPB, dst=IPA), src=IPB, dst=IPA)), 2,
          dl_src=MB, dl_dst=MA, dl_type=0x0800, nw_src=IPB, nw_dst=IPA, nw_proto=17, tp_src=5353, tp_dst=53),
    Frame("icmp~typecode", eth(MB, MA, 0x0800, ipv4(1, icmp(1, 3), tos=0xc0)), 1,
          nw_tos=0xc0, nw_proto=1, tp_src=1, tp_dst=3, **ab, **ip),
    Frame("arp-req~addrs", eth(BCAST, MA, 0x0806, arp(1, MA, IPB, b"\0" * 6, IPA)), 1,
          dl_src=MA, dl_dst=BCAST, dl_type=0x0806, nw_proto=1, nw_src=IPB, nw_dst=IPA),
    Frame("vlan5-pcp2", eth(MB, MA, 0x8100, dot1q(5, 2, 0, 0x0800, ipv4(6, tcp(1111, 80), tos=0x20))), 1,
          dl_vlan=5, dl_vlan_pcp=2, tp_src=1111, tp_dst=80, **t, **ab, **ip),
    Frame("vlan2-pcp5", eth(MB, MA, 0x8100, dot1q(2, 5, 0, 0x0800, ipv4(6, tcp(1111, 80), tos=0x20))), 1,
          dl_vlan=2, dl_vlan_pcp=5, tp_src=1111, tp_dst=80, **t, **ab, **ip),
    Frame("vlan-tcp~port3", eth(MB, MA, 0x8100, dot1q(0x123, 5, 0, 0x0800, ipv4(6, tcp(1111, 82), tos=0x20))), 3,
          dl_vlan=0x123, dl_vlan_pcp=5, tp_src=1111, tp_dst=82, **t, **ab, **ip),
    Frame("tcp~tos-proto", eth(MB, MA, 0x0800, ipv4(2, b"\x04\x57\x00\x50" + b"q" * 16, tos=0x24)), 1,
          nw_tos=0x24, nw_proto=2, **ab, **ip),      # 0x24 ^ 2 == 0x20 ^ 6 (frame tcp); protocol 2 has no ports
  ]


def boundary_frames ():
  """Frames that sit on the constants the extraction rules compare against: the 802.3 / Ethernet II cut at 0x0600 (maximum
  802.3 length 1500 = 0x05dc; 0x05dd..0x05ff are neither valid lengths nor types and are left out), VLAN id 0xfff, ToS byte
  0xff / 0x03, IP header length 6 and 15 words, DF without fragmentation, fragment offsets 1 and 0x1fff, port numbers 0 and
  65535, ICMP 0/0 and 255/255, IP protocol 0 and 255, ARP opcodes 255 / 256 / 0xff01, addresses 0.0.0.0 and 255.255.255.255,
  an all-zero source MAC, the highest switch port."""
  ip = dict(dl_type=0x0800, nw_src=IPA, nw_dst=IPB)
  ab = dict(dl_src=MA, dl_dst=MB)
  big = bytes((i * 7 + 3) & 0xff for i in range(1497))
  return [
    Frame("eth-0600", eth(MB, MA, 0x0600, b"xerox-ns-idp-type-is-the-first-ethertype"), 1, dl_type=0x0600, **ab),
    Frame("eth-0601", eth(MB, MA, 0x0601, b"one-above-the-first-ethertype-payload.."), 1, dl_type=0x0601, **ab),
    Frame("len-05dc-llc", eth8023(MB, MA, b"\x42\x42\x03" + big), 1, dl_type=OFP_DL_TYPE_NOT_ETH_TYPE, **ab),
    Frame("len-05dc-snap", eth8023(MB, MA, b"\xaa\xaa\x03\0\0\0\x06\x00" + big[:1492]), 1, dl_type=0x0600, **ab),
    Frame("vlan-fff", eth(MB, MA, 0x8100, dot1q(0xfff, 0, 0, 0x0800, ipv4(17, udp(5353, 53), tos=0x08))), 1,
          dl_vlan=0xfff, dl_vlan_pcp=0, nw_tos=0x08, nw_proto=17, tp_src=5353, tp_dst=53, **ab, **ip),
    Frame("vlan-0600", eth(MB, MA, 0x8100, dot1q(1, 1, 0, 0x0600, b"tagged-frame-with-the-first-ethertype.")), 1,
          dl_vlan=1, dl_vlan_pcp=1, dl_type=0x0600, **ab),
    Frame("ip-tos-ff", eth(MB, MA, 0x0800, ipv4(17, udp(5353, 53), tos=0xff)), 1,
          nw_tos=0xfc, nw_proto=17, tp_src=5353, tp_dst=53, **ab, **ip),
    Frame("ip-tos-03", eth(MB, MA, 0x0800, ipv4(17, udp(5353, 53), tos=0x03)), 1,
          nw_tos=0, nw_proto=17, tp_src=5353, tp_dst=53, **ab, **ip),
    Frame("ip-hl6", eth(MB, MA, 0x0800, ipv4(17, udp(5353, 53), options=b"\x01" * 4)), 1,
          nw_proto=17, tp_src=5353, tp_dst=53, **ab, **ip),
    Frame("ip-hl15", eth(MB, MA, 0x0800, ipv4(6, tcp(1111, 80), options=b"\x01" * 40)), 1,
          nw_proto=6, tp_src=1111, tp_dst=80, **ab, **ip),
    Frame("ip-df", eth(MB, MA, 0x0800, ipv4(17, udp(5353, 53), mf=2)), 1,             # flags word 010: DF, not a fragment
          nw_proto=17, tp_src=5353, tp_dst=53, **ab, **ip),
    Frame("frag-off1", eth(MB, MA, 0x0800, ipv4(17, b"\x14\xe9\x00\x35" + b"w" * 20, fragoff=1)), 1,
          nw_proto=17, tp_src=0, tp_dst=0, **ab, **ip),
    Frame("frag-off-max", eth(MB, MA, 0x0800, ipv4(6, b"\x04\x57\x00\x50" + b"v" * 4, fragoff=0x1fff)), 1,
          nw_proto=6, tp_src=0, tp_dst=0, **ab, **ip),
    Frame("udp-ports-0-ffff", eth(MB, MA, 0x0800, ipv4(17, udp(0, 65535))), 1,
          nw_proto=17, tp_src=0, tp_dst=65535, **ab, **ip),
    Frame("tcp-ports-ffff-0", eth(MB, MA, 0x0800, ipv4(6, tcp(65535, 0))), 1,
          nw_proto=6, tp_src=65535, tp_dst=0, **ab, **ip),
    Frame("icmp-0-0", eth(MB, MA, 0x0800, ipv4(1, icmp(0, 0, b"\x12\x34\0\x01pong-data!"))), 1,
          nw_proto=1, tp_src=0, tp_dst=0, **ab, **ip),
    Frame("icmp-255-255", eth(MB, MA, 0x0800, ipv4(1, icmp(255, 255, b"\0\0\0\0unassigned-type."))), 1,
          nw_proto=1, tp_src=255, tp_dst=255, **ab, **ip),
    Frame("ip-proto0", eth(MB, MA, 0x0800, ipv4(0, b"\x3b\x00\x01\x04\0\0\0\0hop-by-hop")), 1, nw_proto=0, **ab, **ip),
    Frame("ip-proto255", eth(MB, MA, 0x0800, ipv4(255, b"\x04\x57\x00\x50reserved-proto")), 1, nw_proto=255, **ab, **ip),
    Frame("ip-addr-extremes", eth(BCAST, MA, 0x0800, ipv4(17, udp(68, 67, src=0, dst=0xffffffff), src=0, dst=0xffffffff)), 1,
          dl_src=MA, dl_dst=BCAST, dl_type=0x0800, nw_src=0, nw_dst=0xffffffff, nw_proto=17, tp_src=68, tp_dst=67),
    Frame("arp-op255", eth(MB, MA, 0x0806, arp(255, MA, IPA, MB, IPB)), 1, dl_type=0x0806, nw_proto=255, nw_src=IPA, nw_dst=IPB, **ab),
    Frame("arp-op256", eth(MB, MA, 0x0806, arp(256, MA, IPA, MB, IPB)), 1, dl_type=0x0806, nw_proto=0, nw_src=IPA, nw_dst=IPB, **ab),
    Frame("arp-op-ff01", eth(MB, MA, 0x0806, arp(0xff01, MA, IPA, MB, IPB)), 1, dl_type=0x0806, nw_proto=1, nw_src=IPA, nw_dst=IPB, **ab),
    Frame("mac-zero-src", eth(MB, b"\0" * 6, 0x88b5, b"frame-from-the-all-zero-address....."), 1,
          dl_src=b"\0" * 6, dl_dst=MB, dl_type=0x88b5),
    Frame("tcp@port8", eth(MB, MA, 0x0800, ipv4(6, tcp(1111, 80), tos=0x20)), 8,
          nw_tos=0x20, nw_proto=6, tp_src=1111, tp_dst=80, **ab, **ip),
  ]


DL_FIELDS = ("in_port", "dl_src", "dl_dst", "dl_vlan", "dl_vlan_pcp", "dl_type")
NW_FIELDS = ("nw_tos", "nw_proto", "nw_src", "nw_dst")
TP_FIELDS = ("tp_src", "tp_dst")


def cut_points (frame):
  """Lengths at which to cut a frame: every header boundary (Ethernet, 802.1Q tag, LLC, SNAP, IP header without and with
  options, the four port bytes, the whole transport header, ARP) -1, +0, +1; for 802.3 frames every length from no payload
  at all to one byte past a SNAP header (14..23)."""
  n = len(frame); cuts = set()
  et = _u16(frame, 12); off = 14
  bounds = [14]
  if et == 0x8100 and n >= 18: et = _u16(frame, 16); off = 18; bounds.append(18)
  if et < 0x0600:
    cuts |= set(range(off, off + 10))
  elif et == 0x0806: bounds.append(off + 28)
  elif et == 0x0800 and n >= off + 20:
    ihl = (frame[off] & 15) * 4; proto = frame[off+9]; l4 = off + ihl
    bounds += [off + 20, l4, l4 + 4]
    if proto == 6 and n >= l4 + 13: bounds.append(l4 + (frame[l4+12] >> 4) * 4)
    if proto == 17: bounds.append(l4 + 8)
  for b in bounds: cuts |= set((b - 1, b, b + 1))
  return sorted(c for c in cuts if 14 <= c < n)


def defined_fields (frame, n):
  """Fields the specification defines for the first n bytes of a well-formed frame.  The addresses always; the type and
  the VLAN fields when the bytes that carry them are there (an 802.3 frame without a complete SNAP header has dl_type
  0x05ff however short it is); network fields only with a complete IP header (options included) / ARP body; transport
  fields only with a complete transport header (fragments: defined as 0 by the IP header alone).  Everything else -
  what a switch reports for a header it cannot read - is left open."""
  d = set(["in_port", "dl_src", "dl_dst"])
  et = _u16(frame, 12); off = 14
  if et == 0x8100:
    if n < 18: return d
    et = _u16(frame, 16); off = 18
  d |= set(["dl_vlan", "dl_vlan_pcp", "dl_type"])
  if et < 0x0600:
    if n >= off + 8 and frame[off:off+6] == b"\xaa\xaa\x03\0\0\0": et = _u16(frame, off + 6); off += 8
    else: return d
  if et == 0x0806 and n >= off + 28: d |= set(["nw_proto", "nw_src", "nw_dst"])
  if et == 0x0800 and n >= off + 20:
    ihl = (frame[off] & 15) * 4; proto = frame[off+9]; l4 = off + ihl
    if n < l4: return d
    d |= set(NW_FIELDS)
    fragword = _u16(frame, off + 6)
    if fragword & 0x3fff: d |= set(TP_FIELDS)
    elif proto == 1 and n >= l4 + 4: d |= set(TP_FIELDS)
    elif proto == 17 and n >= l4 + 8: d |= set(TP_FIELDS)
    elif proto == 6 and n >= l4 + 20 and n >= l4 + (frame[l4+12] >> 4) * 4: d |= set(TP_FIELDS)
  return d


def truncations (frames=None):
  """Every frame of the corpus (plus the 0x0600 boundary frames) cut at each of its cut_points.  `want` is the parent's
  hand-written expectation for the fields still defined, except that an 802.3 frame cut inside its SNAP header has dl_type 0x05ff."""
  if frames is None:
    frames = corpus() + [f for f in boundary_frames() if f.name in ("eth-0600", "vlan-0600", "len-05dc-snap", "ip-hl6")]
  out = []
  for fr in frames:
    for n in cut_points(fr.data):
      t = Frame("%s[:%d]" % (fr.name, n), fr.data[:n], fr.in_port)
      t.defined = defined_fields(fr.data, n)
      t.want = dict((f, fr.want[f]) for f in t.defined)
      snap_end = (18 if _u16(fr.data, 12) == 0x8100 else 14) + 8
      if fr.want["dl_type"] not in (OFP_DL_TYPE_NOT_ETH_TYPE,) and "dl_type" in t.defined and n < snap_end and \
         _u16(fr.data, snap_end - 10) < 0x0600:
        t.want["dl_type"] = OFP_DL_TYPE_NOT_ETH_TYPE
      out.append(t)
  return out


def self_check ():
  """Returns a list of disagreements between the hand-written expectations and extract()."""
  bad = []
  for fr in corpus() + near_collisions() + boundary_frames() + truncations():
    got, app = extract(fr.data, fr.in_port)
    if fr.defined is not None: got = dict((f, got[f]) for f in fr.defined)
    if got != fr.want:
      bad.append("%s: extract %r, corpus says %r" % (fr.name, sorted((k, v) for k, v in got.items() if fr.want.get(k) != v),
                                                  sorted((k, v) for k, v in fr.want.items() if got.get(k) != v)))
  return bad
