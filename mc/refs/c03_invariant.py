"""Frames for C03 that vary what the extraction of the twelve match fields does NOT depend on (bytes assembled here and
with the builders of refmatch; no POX).

The header parsing of OpenFlow 1.0 (section 3.4, flow chart and Table 3) consults: the type/length field, one 802.1Q tag, an
LLC/SNAP header, the IP header length / protocol / fragment word / ToS / addresses, the ARP opcode and protocol addresses, the
first bytes of the TCP / UDP / ICMP header.  Every OTHER header field - lengths that describe a payload (IP total length
beyond the headers, UDP length, 802.3 length), identifiers, reserved and control flags, TTL, sequence numbers, windows,
checksums, the CONTENT of IP and TCP options, the rest of an ICMP message, hardware addresses inside ARP, padding behind
the datagram, whatever payload follows the transport header - is none of its business: a frame that differs from a
well-formed parent frame in one such field carries the parent's twelve fields, and every match must treat it as it treats
the parent.

    groups(thorough) -> [Group(parent Frame, [derived Frames])]

Every derived frame is named "<parent>.<family>[<value>]".  `defined` (see refmatch.defined_fields) is narrowed where a varied
field says that a header is not completely there, because the statement is silent about what a switch extracts from a header
it cannot read completely:
  * the IP total length delimits the datagram: headers count as present only within min(physical bytes, total length)
    (total length below the IP header length: no network field is asserted; cutting the transport header: no transport field)
  * a TCP data offset below 5 or pointing past the datagram: the TCP header is not complete, transport fields are not asserted
    (the lead "bad data offset"); a data offset of 5..available IS a complete header whatever bytes sit in the option area
  * ARP for another hardware / protocol type or address length has no IPv4 addresses: network fields are not asserted
  * an 802.1Q tag in front of an 802.3 length field or in front of a second tag: the specification does not say what the
    type is (it describes one tag in front of an Ethernet type); only the addresses and the VLAN fields are asserted
The UDP length field is NOT a header length (the UDP header has eight bytes whatever it says) and never narrows anything.

Also here: the value domain `ethpayload` (same interface as mc/refs/c03_domains.py): every registered Ethernet type other than
IPv4 / ARP / 802.1Q in front of an ARP body, an IPv4 packet cut inside its header, one byte and nothing at all - the type
alone decides that such a frame has no network fields, whatever its payload looks like (RARP carries an ARP body).
"""
import struct
from mc.refs import refmatch as R
from mc.refs import c03_domains as D

MA, MB, IPA, IPB, BCAST = R.MA, R.MB, R.IPA, R.IPB, R.BCAST
_u16 = R._u16
ADDR_FIELDS = ("in_port", "dl_src", "dl_dst")
VLAN_FIELDS = ("dl_vlan", "dl_vlan_pcp")


class Group (object):
  __slots__ = ("parent", "derived")
  def __init__ (self, parent, derived): self.parent = parent; self.derived = derived


def put (d, off, fmt, v):
  return d[:off] + struct.pack(fmt, v) + d[off + struct.calcsize(fmt):]


def fix_ip_csum (d):
  """The IPv4 header checksum recomputed (so that a frame of a family differs from its parent in ONE respect)."""
  L = R.layout(d); l3, l4 = L["l3"], L["l4"]
  h = put(d[l3:l4], 10, "!H", 0)
  return put(d, l3 + 10, "!H", R.csum16(h))


def fix_l4_csum (d):
  """TCP / ICMP checksum recomputed over the datagram as its IP header delimits it."""
  L = R.layout(d); l3, l4 = L["l3"], L["l4"]
  seg = d[l4:l3 + _u16(d, l3 + 2)]
  if L["proto"] == 6 and len(seg) >= 20:
    seg = put(seg, 16, "!H", 0)
    return put(d, l4 + 16, "!H", R.csum16(d[l3+12:l3+20] + struct.pack("!BBH", 0, 6, len(seg)) + seg))
  if L["proto"] == 1 and len(seg) >= 4:
    seg = put(seg, 2, "!H", 0)
    return put(d, l4 + 2, "!H", R.csum16(seg))
  return d


def effective_defined (data):
  """Fields the specification defines for this frame, the IP total length and the TCP data offset taken at their word.
  None: all of them."""
  n = len(data)
  L = R.layout(data)
  if L is not None and "ihl" in L:
    n = min(n, L["l3"] + _u16(data, L["l3"] + 2))
  d = R.defined_fields(data, n)
  if L is not None and "ihl" in L and L["proto"] == 6 and not (L["fragword"] & 0x3fff):
    l4 = L["l4"]
    if len(data) < l4 + 13 or (data[l4+12] >> 4) < 5: d -= set(R.TP_FIELDS)
  return None if d == set(R.FIELDS) else d


def derive (parent, family, value, data, defined="effective"):
  """A frame that must be looked up like its parent (on the fields still defined for it)."""
  name = "%s.%s[%s]" % (parent.name, family, value)
  f = R.Frame(name, data, parent.in_port)
  f.defined = effective_defined(data) if defined == "effective" else defined
  if parent.defined is not None: f.defined = set(parent.defined) & (f.defined if f.defined is not None else set(R.FIELDS))
  f.want = dict(parent.want) if f.defined is None else dict((k, v) for k, v in parent.want.items() if k in f.defined)
  return f


# ---------------------------------------------------------------------------------------------
# one family per header
# ---------------------------------------------------------------------------------------------
def _bits (n): return [1 << i for i in range(n)]


def ip_family (p, thorough):
  d = p.data; L = R.layout(d); l3, ihl = L["l3"], L["ihl"]
  tot = _u16(d, l3 + 2); csum = _u16(d, l3 + 10)
  frag = bool(L["fragword"] & 0x3fff)
  need = 0 if frag else {6: 20, 17: 8, 1: 4}.get(L["proto"], 0)
  lens = set([0, 1, 19, 20, 21, ihl - 1, ihl, ihl + 1, ihl + 3, ihl + 4, ihl + need - 1, ihl + need, ihl + need + 1,
              tot - 1, tot + 1, 0x7fff, 0x8000, 0xffff])
  if thorough: lens |= set(range(0, tot + 9)) | set(_bits(16))
  out = [derive(p, "ip-len", v, fix_ip_csum(put(d, l3 + 2, "!H", v))) for v in sorted(lens) if v != tot and 0 <= v <= 0xffff]
  ids = set([0, 1, 0x8000, 0xffff]) | (set(_bits(16)) if thorough else set())
  out += [derive(p, "ip-id", v, fix_ip_csum(put(d, l3 + 4, "!H", v))) for v in sorted(ids) if v != L["ident"]]
  # the reserved bit and DF (bits 15, 14 of the fragment word) say nothing about fragmentation
  out += [derive(p, "ip-flags", "%#06x" % (L["fragword"] & 0x3fff | hi), fix_ip_csum(put(d, l3 + 6, "!H", L["fragword"] & 0x3fff | hi)))
          for hi in (0x8000, 0x4000, 0xc000, 0) if (L["fragword"] & 0x3fff | hi) != L["fragword"]]
  ttls = range(256) if thorough else (0, 1, 2, 63, 127, 128, 255)
  out += [derive(p, "ip-ttl", v, fix_ip_csum(put(d, l3 + 8, "!B", v))) for v in ttls if v != L["ttl"]]
  cs = set([0, 0xffff, csum ^ 1, csum ^ 0x8000, (csum + 1) & 0xffff]) | (set(csum ^ b for b in _bits(16)) if thorough else set())
  out += [derive(p, "ip-csum", "%#06x" % v, put(d, l3 + 10, "!H", v)) for v in sorted(cs) if v != csum]
  return out


def pad_family (p, thorough):
  """Bytes behind the datagram / the ARP body / the LLC payload: minimum-frame padding, a trailer, a frame check sequence."""
  d = p.data
  pads = [b"\0", b"\0" * 4, b"\xff" * 4, b"\0" * max(1, 60 - len(d)), bytes(range(1, 19))]
  if thorough: pads += [b"\0" * n for n in (2, 3, 8, 46, 1000)] + [b"\xa5" * 64, bytes(range(256))]
  out = []; seen = set()
  for x in pads:
    if x in seen: continue
    seen.add(x)
    # (802.3 frames keep their length field: it describes the LLC payload, the rest is padding)
    out.append(derive(p, "pad", "%d*%02x" % (len(x), x[-1]), d + x))
  return out


def _tcp_at (d):
  L = R.layout(d); return L["l4"]


def tcp_family (p, thorough):
  d = p.data; l4 = _tcp_at(d)
  csum = _u16(d, l4 + 16)
  out = []
  for fam, off, fmt, vals in (("tcp-seq", 4, "!L", (0, 1, 0x7fffffff, 0x80000000, 0xffffffff)),
                              ("tcp-ack", 8, "!L", (1, 0x80000000, 0xffffffff)),
                              ("tcp-win", 14, "!H", (0, 1, 0xffff)),
                              ("tcp-csum", 16, "!H", sorted(set([0, 0xffff, csum ^ 1, csum ^ 0x8000]))),
                              ("tcp-urg", 18, "!H", (1, 0xffff))):
    fix = (lambda x: x) if fam == "tcp-csum" else fix_l4_csum
    out += [derive(p, fam, "%#x" % v, fix(put(d, l4 + off, fmt, v))) for v in vals if put(d, l4 + off, fmt, v) != d]
  flags = set([0, 0xff, 0x12, 0x10, 0x11, 0x04, 0x29]) | set(_bits(8)) | (set(range(256)) if thorough else set())
  out += [derive(p, "tcp-flags", "%#04x" % v, fix_l4_csum(put(d, l4 + 13, "!B", v))) for v in sorted(flags) if v != d[l4+13]]
  # the four reserved bits next to the data offset
  out += [derive(p, "tcp-res", v, fix_l4_csum(put(d, l4 + 12, "!B", (d[l4+12] & 0xf0) | v))) for v in (1, 2, 4, 8, 15)]
  # the data offset itself: 0..4 and past the datagram leave the transport fields open (effective_defined); in between the header is
  # complete and the bytes that follow the fixed header are its option area, well-formed or not (family tcp-opts)
  for v in range(16):
    if v == d[l4+12] >> 4: continue
    x = fix_l4_csum(put(d, l4 + 12, "!B", (v << 4) | (d[l4+12] & 0x0f)))
    complete = v >= 5 and l4 + v * 4 <= min(len(d), R.layout(d)["l3"] + _u16(d, R.layout(d)["l3"] + 2))
    out.append(derive(p, "tcp-opts", "%d,segment-bytes" % v, x) if complete else derive(p, "tcp-off", v, x))
  return out


def tcp_option_areas (r):
  """Contents for an option area of r bytes (r = 4..40): well-formed, unknown, and malformed in each way an option can be -
  length 0, length 1, length past the header, a known kind with the wrong length, a kind in the last byte with no length."""
  nop = lambda n: b"\x01" * max(0, n)
  kinds = [("nop", nop(r)), ("eol", b"\0" * r), ("mss", b"\x02\x04\x05\xb4" + nop(r - 4)),
           ("eol-then-junk", b"\0" + b"\xfe" * (r - 1)),
           ("unknown", bytes([0xfe, r]) + b"\xaa" * (r - 2)), ("len0", b"\xfe\x00" + nop(r - 2)), ("len1", b"\xfe\x01" + nop(r - 2)),
           ("past", bytes([0xfe, r + 1]) + nop(r - 2)), ("past-ff", b"\xff" * r),
           ("mss-len3", b"\x02\x03\x05" + nop(r - 3)), ("mss-len6", nop(r - 4) + b"\x02\x06\x05\xb4"),
           ("wscale-len4", b"\x03\x04\x07\x00" + nop(r - 4)), ("sackperm-len3", b"\x04\x03\x00" + nop(r - 3)),
           ("last-byte", nop(r - 1) + b"\xfe"), ("last-byte-mss", nop(r - 1) + b"\x02")]
  if r >= 12:
    kinds += [("ts", b"\x08\x0a" + b"\x11" * 8 + nop(r - 10)), ("ts-len9", b"\x08\x09" + b"\x11" * 7 + nop(r - 9)),
              ("sack", b"\x05\x0a" + b"\x22" * 8 + nop(r - 10)), ("sack-len11", b"\x05\x0b" + b"\x22" * 9 + nop(r - 11))]
  return [(k, b) for k, b in kinds if len(b) == r]


def tcp_options_family (p, thorough):
  """The parent's segment rebuilt with a data offset of 6..15 words and every kind of option area."""
  d = p.data; L = R.layout(d); l3, l4 = L["l3"], L["l4"]
  hdr = d[l4:l4+20]; payload = d[l4+20:]
  out = []
  for words in (range(6, 16) if thorough else (6, 7, 8, 15)):
    for kind, area in tcp_option_areas((words - 5) * 4):
      seg = put(hdr, 12, "!B", (words << 4) | (hdr[12] & 0x0f)) + area + payload
      ip = put(d[l3:l4], 2, "!H", (l4 - l3) + len(seg))
      ip = put(ip, 10, "!H", 0); ip = put(ip, 10, "!H", R.csum16(ip))
      out.append(derive(p, "tcp-opts", "%d,%s" % (words, kind), fix_l4_csum(d[:l3] + ip + seg)))
  return out


def ip_option_areas (r):
  nop = lambda n: b"\x01" * max(0, n)
  kinds = [("nop", nop(r)), ("eol", b"\0" * r), ("rr", bytes([7, r, 4]) + b"\0" * (r - 3)), ("len0", b"\x07\x00" + nop(r - 2)),
           ("len1", b"\x07\x01" + nop(r - 2)), ("past", bytes([7, r + 1]) + nop(r - 2)), ("past-ff", b"\xff" * r),
           ("last-byte", nop(r - 1) + b"\x07"), ("ra", b"\x94\x04\0\0" + nop(r - 4))]
  return [(k, b) for k, b in kinds if len(b) == r]


def ip_options_family (p, thorough):
  """The parent's datagram rebuilt with a header of 6..15 words and every kind of option area (parent: 5 words)."""
  d = p.data; L = R.layout(d); l3, l4 = L["l3"], L["l4"]
  if L["ihl"] != 20: return []
  out = []
  for words in (range(6, 16) if thorough else (6, 7, 15)):
    for kind, area in ip_option_areas((words - 5) * 4):
      ip = put(d[l3:l4], 0, "!B", 0x40 | words) + area
      ip = put(ip, 2, "!H", len(ip) + len(d) - l4)
      ip = put(ip, 10, "!H", 0); ip = put(ip, 10, "!H", R.csum16(ip))
      out.append(derive(p, "ip-opts", "%d,%s" % (words, kind), d[:l3] + ip + d[l4:]))
  return out


def udp_family (p, thorough):
  d = p.data; L = R.layout(d); l4 = L["l4"]
  ln = _u16(d, l4 + 4); csum = _u16(d, l4 + 6)
  lens = set([0, 1, 4, 7, 8, 9, ln - 1, ln + 1, 0x7fff, 0x8000, 0xffff]) | (set(range(0, ln + 9)) | set(_bits(16)) if thorough else set())
  out = [derive(p, "udp-len", v, put(d, l4 + 4, "!H", v)) for v in sorted(lens) if v != ln]
  cs = set([0, 0xffff, csum ^ 1, csum ^ 0x8000])
  out += [derive(p, "udp-csum", "%#06x" % v, put(d, l4 + 6, "!H", v)) for v in sorted(cs) if v != csum]
  return out


def icmp_family (p, thorough):
  d = p.data; L = R.layout(d); l3, l4 = L["l3"], L["l4"]
  csum = _u16(d, l4 + 2)
  out = [derive(p, "icmp-csum", "%#06x" % v, put(d, l4 + 2, "!H", v)) for v in sorted(set([0, 0xffff, csum ^ 1, csum ^ 0x8000])) if v != csum]
  # what follows the four bytes type / code / checksum: nothing, a partial rest-of-header, a quoted datagram of every quality
  quoted = R.ipv4(17, R.udp(5353, 53)[:8], src=IPB, dst=IPA)
  bad_ihl = put(quoted, 0, "!B", 0x40); bad_ihl15 = put(quoted, 0, "!B", 0x4f); bad_len = put(quoted, 2, "!H", 0); v6 = put(quoted, 0, "!B", 0x65)
  nested = R.ipv4(1, R.icmp(3, 1, b"\0\0\0\0" + quoted), src=IPB, dst=IPA)
  rests = [("none", b""), ("1", b"\0"), ("3", b"\0\0\0"), ("4", b"\0\0\0\0"), ("5", b"\0\0\0\0\x45"), ("23", b"\0" * 23), ("24", b"\0" * 24),
           ("24ff", b"\xff" * 24), ("quoted", b"\0\0\0\0" + quoted), ("quoted-ihl0", b"\0\0\0\0" + bad_ihl),
           ("quoted-ihl15", b"\0\0\0\0" + bad_ihl15), ("quoted-len0", b"\0\0\0\0" + bad_len), ("quoted-v6", b"\0\0\0\0" + v6),
           ("quoted-cut", b"\0\0\0\0" + quoted[:19]), ("quoted-icmp", b"\0\0\0\0" + nested), ("mtu", b"\0\0\x05\xdc" + quoted),
           ("long", bytes(range(256)))]
  if thorough: rests.append(("longer", bytes(range(256)) * 4))
  for k, rest in rests:
    msg = d[l4:l4+4] + rest
    ip = put(d[l3:l4], 2, "!H", (l4 - l3) + len(msg))
    ip = put(ip, 10, "!H", 0); ip = put(ip, 10, "!H", R.csum16(ip))
    x = fix_l4_csum(d[:l3] + ip + msg)
    if x != d: out.append(derive(p, "icmp-rest", k, x))
  return out


def arp_family (p, thorough):
  d = p.data; l3 = R.layout(d)["l3"]
  dl = set(R.DL_FIELDS)
  out = []
  # hardware addresses inside the body are not match fields (dl_src / dl_dst are the Ethernet header's)
  for fam, off in (("arp-sha", 8), ("arp-tha", 18)):
    out += [derive(p, fam, v.hex(), d[:l3+off] + v + d[l3+off+6:]) for v in (b"\0" * 6, b"\xff" * 6, bytes.fromhex("02ee00000009"), MB, MA)
            if d[l3+off:l3+off+6] != v]
  # not Ethernet / IPv4 ARP: no IPv4 addresses to extract, the network fields are left open
  for fam, off, fmt, vals in (("arp-hrd", 0, "!H", (0, 2, 6, 0x0100, 0xffff)), ("arp-pro", 2, "!H", (0, 0x0806, 0x86dd, 0x0008, 0xffff)),
                              ("arp-hln", 4, "!B", (0, 5, 7, 8, 255)), ("arp-pln", 5, "!B", (0, 3, 5, 16, 255))):
    out += [derive(p, fam, "%#x" % v, put(d, l3 + off, fmt, v), defined=dl) for v in vals]
  return out


def llc_length_family (p, thorough):
  """The 802.3 length field: any value below 0x0600 that still covers the LLC (/SNAP) header says the same thing."""
  d = p.data
  ln = _u16(d, 12)
  snap = d[14:17] == b"\xaa\xaa\x03"
  vals = set([8, 9, ln - 1, ln + 1, 0x05dc]) if snap else set([0, 1, 2, 3, 4, ln - 1, ln + 1, 0x05dc])
  if thorough: vals |= set(range(8 if snap else 0, 0x05dd, 37))
  return [derive(p, "llc-len", v, put(d, 12, "!H", v)) for v in sorted(vals) if v != ln and 0 <= v <= 0x05dc]


# ---------------------------------------------------------------------------------------------
# parents that are not in the corpus
# ---------------------------------------------------------------------------------------------
UDP_PARSER_PORTS = (53, 67, 68, 520, 546, 547, 4789, 5353)

def built_parents ():
  ip = dict(dl_type=0x0800, nw_src=IPA, nw_dst=IPB)
  ab = dict(dl_src=MA, dl_dst=MB)
  F = R.Frame
  fs = [
    F("icmp-echo-reply", R.eth(MB, MA, 0x0800, R.ipv4(1, R.icmp(0, 0, b"\x12\x34\0\x01pong-data!"))), 1, nw_proto=1, tp_src=0, tp_dst=0, **ab, **ip),
    F("icmp-time-exceeded", R.eth(MB, MA, 0x0800, R.ipv4(1, R.icmp(11, 0))), 1, nw_proto=1, tp_src=11, tp_dst=0, **ab, **ip),
    F("icmp-redirect", R.eth(MB, MA, 0x0800, R.ipv4(1, R.icmp(5, 1))), 1, nw_proto=1, tp_src=5, tp_dst=1, **ab, **ip),
    F("icmp-timestamp", R.eth(MB, MA, 0x0800, R.ipv4(1, R.icmp(13, 0, b"\0" * 16))), 1, nw_proto=1, tp_src=13, tp_dst=0, **ab, **ip),
    F("udp-zero-ports", R.eth(MB, MA, 0x0800, R.ipv4(17, R.udp(0, 0))), 1, nw_proto=17, tp_src=0, tp_dst=0, **ab, **ip),
    F("tcp-syn-opts", R.eth(MB, MA, 0x0800, R.ipv4(6, _tcp_with_options(40000, 443, b"\x02\x04\x05\xb4\x04\x02\x08\x0a" + b"\x33" * 8 + b"\x01\x03\x03\x07"))), 1,
      nw_proto=6, tp_src=40000, tp_dst=443, **ab, **ip),
  ]
  return fs


def _tcp_with_options (sport, dport, opts, data=b""):
  assert len(opts) % 4 == 0
  h = struct.pack("!HHLLBBHHH", sport, dport, 7, 0, (5 + len(opts) // 4) << 4, 0x02, 8192, 0, 0) + opts
  c = R.csum16(R._pseudo(6, len(h) + len(data), IPA, IPB) + h + data)
  return h[:16] + struct.pack("!H", c) + h[18:] + data


def udp_payload_groups (thorough):
  """UDP datagrams to / from the ports for which packet libraries know a payload format, with payloads no such format
  describes: the ports are in the UDP header whatever follows it."""
  ip = dict(dl_type=0x0800, nw_src=IPA, nw_dst=IPB, nw_proto=17)
  ab = dict(dl_src=MA, dl_dst=MB)
  payloads = [("empty", b""), ("1", b"\0"), ("3ff", b"\xff" * 3), ("64ff", b"\xff" * 64), ("300z", b"\0" * 300),
              ("count", bytes(range(1, 240))), ("c0-loop", b"\x12\x34\x01\x00\x00\x01\x00\x00\x00\x00\x00\x00\xc0\x0c\x00\x01\x00\x01")]
  if thorough: payloads += [("%dx%02x" % (n, b), bytes([b]) * n) for n in (2, 4, 7, 8, 11, 12, 23, 24, 235, 236, 240, 241) for b in (0, 1, 0x63, 0xff)]
  out = []
  for port in UDP_PARSER_PORTS:
    for sp, dp in ((port, 40000), (40000, port), (port, port)):
      p = R.Frame("udp-%d-%d" % (sp, dp), R.eth(MB, MA, 0x0800, R.ipv4(17, R.udp(sp, dp))), 1, tp_src=sp, tp_dst=dp, **ab, **ip)
      out.append(Group(p, [derive(p, "udp-payload", k, R.eth(MB, MA, 0x0800, R.ipv4(17, R.udp(sp, dp, x)))) for k, x in payloads]))
  return out


def tag_groups ():
  """Frames for which only the addresses and the VLAN fields are asserted: a tag in front of an 802.3 length field (the lead
  "VLAN-tagged 802.3/SNAP frame") and a tag in front of a second tag (0x8100 or 0x88a8)."""
  keep = set(ADDR_FIELDS + VLAN_FIELDS)
  ab = dict(dl_src=MA, dl_dst=MB)
  snap = b"\xaa\xaa\x03\0\0\0\x08\x00" + R.ipv4(17, R.udp(5353, 53))
  llc = b"\x42\x42\x03" + b"\0\0\0\0\0\x80\0" + b"bpdu-like-payload"
  inner = R.dot1q(0x0fa, 2, 0, 0x0800, R.ipv4(6, R.tcp(1111, 80), tos=0x20))
  fs = []
  for vid, pcp in ((0x123, 5), (0, 7), (0xfff, 0)):
    fs += [R.Frame("vlan%x-llc-snap" % vid, R.eth(MB, MA, 0x8100, R.dot1q(vid, pcp, 0, len(snap), snap)), 1, dl_vlan=vid, dl_vlan_pcp=pcp, **ab),
           R.Frame("vlan%x-llc" % vid, R.eth(MB, MA, 0x8100, R.dot1q(vid, pcp, 0, len(llc), llc)), 1, dl_vlan=vid, dl_vlan_pcp=pcp, **ab),
           R.Frame("vlan%x-qinq" % vid, R.eth(MB, MA, 0x8100, R.dot1q(vid, pcp, 0, 0x8100, inner)), 1, dl_vlan=vid, dl_vlan_pcp=pcp, **ab),
           R.Frame("vlan%x-qinq-88a8" % vid, R.eth(MB, MA, 0x8100, R.dot1q(vid, pcp, 0, 0x88a8, inner)), 1, dl_vlan=vid, dl_vlan_pcp=pcp, **ab)]
  for f in fs:
    f.defined = set(keep)
    f.want = dict((k, v) for k, v in f.want.items() if k in keep)
  return [Group(f, []) for f in fs]


# ---------------------------------------------------------------------------------------------
IP_PARENTS = ("tcp", "vlan-tcp", "udp", "vlan-udp", "icmp", "vlan-icmp", "ip-opts", "frag-first", "frag-later", "ip-gre")

_GROUPS = {}
def groups (thorough=False):
  if thorough in _GROUPS: return _GROUPS[thorough]
  c = dict((f.name, f) for f in R.corpus())
  b = dict((f.name, f) for f in built_parents())
  out = []
  def add (p, *fams):
    fs = []
    for fam in fams: fs += fam(p, thorough)
    out.append(Group(p, fs))
  for n in IP_PARENTS: add(c[n], ip_family, pad_family)
  for n in ("udp", "vlan-tcp"): add(c[n], ip_options_family)
  add(c["icmp"], ip_options_family)
  for n in ("tcp", "vlan-tcp", "ip-opts"): add(c[n], tcp_family)
  add(b["tcp-syn-opts"], tcp_family, ip_family)
  for n in (("tcp", "vlan-tcp", "ip-opts") if thorough else ("tcp", "vlan-tcp")): add(c[n], tcp_options_family)
  for n in ("udp", "vlan-udp"): add(c[n], udp_family)
  add(b["udp-zero-ports"], udp_family, ip_family)
  for n in ("icmp", "vlan-icmp"): add(c[n], icmp_family)
  for n in ("icmp-echo-reply", "icmp-time-exceeded", "icmp-redirect", "icmp-timestamp"): add(b[n], icmp_family, ip_family)
  for n in ("arp-req", "arp-rep", "arp-wide-opcode"): add(c[n], arp_family, pad_family)
  for n in ("llc", "llc-snap"): add(c[n], llc_length_family, pad_family)
  for n in ("ipv6", "other"): add(c[n], pad_family)
  out += udp_payload_groups(thorough)
  out += tag_groups()
  _GROUPS[thorough] = out
  return out


def all_frames (thorough=False):
  fs = []
  for g in groups(thorough): fs += [g.parent] + g.derived
  return fs


def frame_by_name (name):
  for th in (False, True):
    for f in all_frames(th):
      if f.name == name: return f
  return None


def self_check ():
  """The hand-written expectation of the parent (narrowed to the fields still defined) against refmatch.extract of the derived
  bytes; names must be unique."""
  bad = []; seen = {}
  for th in (False, True):
    for f in all_frames(th):
      if seen.setdefault(f.name, f.data) != f.data: bad.append("%s: two frames of this name" % f.name)
      got = R.extract(f.data, f.in_port)[0]
      if f.defined is not None: got = dict((k, got[k]) for k in f.defined)
      if got != f.want:
        bad.append("%s: extract %r, parent says %r" % (f.name, sorted((k, v) for k, v in got.items() if f.want.get(k) != v),
                                                       sorted((k, v) for k, v in f.want.items() if got.get(k) != v)))
  return bad


# ---------------------------------------------------------------------------------------------
# value domain: Ethernet type x payload (interface of mc/refs/c03_domains.py)
# ---------------------------------------------------------------------------------------------
def ethpayload (thorough=False):
  if thorough: ts = sorted(set(D.REGISTERED_TYPES) | set(range(0x8000, 0x8a00)))
  else: ts = sorted(D.REGISTERED_TYPES)
  ts = [t for t in ts if t not in (0x0800, 0x0806, 0x8100) and t >= 0x0600]
  payloads = (("arp", R.arp(1, MA, IPA, b"\0" * 6, IPB)), ("ipcut", R.ipv4(17, R.udp(5353, 53))[:19]), ("1", b"\x45"), ("none", b""))
  fs = []; nb = {}
  for k, x in payloads:
    col = [D._fr("ethpayload[%#06x,%s]" % (t, k), R.eth(MB, MA, t, x)) for t in ts]
    for i, f in enumerate(col): nb[f.name] = col[(i + 1) % len(col)].name
    fs += col
  return D.Domain("ethpayload", "dl_type", fs, nb)


DOMAINS = (("ethpayload", ethpayload),)
