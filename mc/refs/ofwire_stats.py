"""OpenFlow 1.0 switch->controller encoders used by C17, transcribed from the specification
(openflow-spec-v1.0.0 sections 5.3.1 features reply, 5.3.5 read state / statistics, 5.4.3 port
status), independent of pox.openflow.libopenflow_01.  Complements mc/refs/ofwire.py (which has the
controller->switch encoders and the switch->controller decoders).

Every stats entry is described by a plain dict; `*_entry(d)` gives its wire bytes.  The same dicts
are the reference the harness compares the controller's event contents with.
"""
import struct
from mc.refs import ofwire as W


# ---- handshake -------------------------------------------------------------------
def features_reply (xid, dpid, ports, n_buffers=256, n_tables=1, capabilities=0xc7, actions=0xfff):
  """ports: iterable of 48-byte ofp_phy_port encodings (W.phy_port)."""
  return W.msg(W.FEATURES_REPLY, xid,
               struct.pack("!QLB3xLL", dpid, n_buffers, n_tables, capabilities, actions) + b"".join(ports))

def barrier_reply (xid): return W.msg(W.BARRIER_REPLY, xid)

def port_status (xid, reason, desc):
  """ofp_port_status: header, reason (OFPPR_ADD/DELETE/MODIFY), 7 pad bytes, ofp_phy_port."""
  assert len(desc) == 48
  return W.msg(W.PORT_STATUS, xid, struct.pack("!B7x", reason) + desc)


# ---- statistics replies ----------------------------------------------------------
def stats_reply (xid, typ, body=b"", more=False):
  """ofp_stats_reply: header, type, flags (bit 0 = OFPSF_REPLY_MORE), body."""
  return W.msg(W.STATS_REPLY, xid, struct.pack("!HH", typ, W.OFPSF_REPLY_MORE if more else 0) + body)

def flow_entry (d):
  """ofp_flow_stats: length, table_id, pad, match(40), duration_sec, duration_nsec, priority,
  idle_timeout, hard_timeout, pad[6], cookie, packet_count, byte_count, actions[]."""
  acts = d.get("actions", b"")
  m = W.match_fields(in_port=d["in_port"])
  return (struct.pack("!HBx", 88 + len(acts), d["table_id"]) + m +
          struct.pack("!LLHHH6xQQQ", d["duration_sec"], d["duration_nsec"], d["priority"], d["idle_timeout"],
                      d["hard_timeout"], d["cookie"], d["packet_count"], d["byte_count"]) + acts)

def table_entry (d):
  """ofp_table_stats: table_id, pad[3], name[32], wildcards, max_entries, active_count,
  lookup_count, matched_count."""
  return struct.pack("!B3x32sLLLQQ", d["table_id"], d["name"], d["wildcards"], d["max_entries"],
                     d["active_count"], d["lookup_count"], d["matched_count"])

PORT_COUNTERS = ("rx_packets", "tx_packets", "rx_bytes", "tx_bytes", "rx_dropped", "tx_dropped", "rx_errors",
                 "tx_errors", "rx_frame_err", "rx_over_err", "rx_crc_err", "collisions")

def port_entry (d):
  """ofp_port_stats: port_no, pad[6], twelve 64-bit counters."""
  return struct.pack("!H6x12Q", d["port_no"], *[d[k] for k in PORT_COUNTERS])

def queue_entry (d):
  """ofp_queue_stats: port_no, pad[2], queue_id, tx_bytes, tx_packets, tx_errors."""
  return struct.pack("!H2xLQQQ", d["port_no"], d["queue_id"], d["tx_bytes"], d["tx_packets"], d["tx_errors"])

def desc_body (d):
  """ofp_desc_stats: mfr_desc[256], hw_desc[256], sw_desc[256], serial_num[32], dp_desc[256]."""
  return struct.pack("!256s256s256s32s256s", d["mfr_desc"], d["hw_desc"], d["sw_desc"], d["serial_num"], d["dp_desc"])

def aggregate_body (d):
  """ofp_aggregate_stats_reply: packet_count, byte_count, flow_count, pad[4]."""
  return struct.pack("!QQL4x", d["packet_count"], d["byte_count"], d["flow_count"])

ENTRY_ENCODER = {W.OFPST_FLOW: flow_entry, W.OFPST_TABLE: table_entry, W.OFPST_PORT: port_entry,
                 W.OFPST_QUEUE: queue_entry}
ENTRY_SIZE = {W.OFPST_TABLE: 64, W.OFPST_PORT: 104, W.OFPST_QUEUE: 32}     # flow entries are 88 + actions
