"""Value-domain frames for C03 (bytes assembled with the builders of refmatch; no POX).

The corpus of refmatch holds one or two frames per KIND of frame.  A rule of the specification that is keyed on the
VALUE of a header field ("transport ports count for TCP, UDP and ICMP", "the lower 8 bits of the ARP opcode", "the
upper six bits of the ToS byte", "types below 0x0600 are lengths") is only pinned down when the field runs through
its whole domain, in the frame and in the match.  Every domain below is a list of frames that differ in ONE header
field only; `axis` names the match field that varies and `neighbour` gives, for each frame, a frame of the same domain
with a different value of that field (so every match on the value is also probed with a frame it must not match).

  ipproto   IPv4 protocol 0..255 (all); the transport bytes read as ports 1111 / 80 under every protocol
  arpop     ARP opcode 0..255 (all) and 256, 257, 258, 0x1ff, 0xff00, 0xff01, 0xffff (only the lower 8 bits count)
  iptos     ToS byte 0..255 (all): 64 DSCP values x 4 ECN values
  icmp      ICMP type 0..255 with code 0, code 0..255 with type 8 (thorough: + 11 assigned types x every code)
  vlan      802.1Q tag: VLAN id in {0, every single bit, 0x123, 0xffe, 0xfff} x priority 0..7 x CFI 0/1
            (thorough: + every VLAN id 0..4095)
  port      TCP and UDP source / destination port in {0, every single bit, 65535 and the ports for which packet
            libraries know a payload format: 53 67 68 80 443 520 546 547 4789 5353 6633 6653} (thorough: every UDP port)
  ethtype   Ethernet type: registered types (IEEE list, 60 values), the first types 0x0600 / 0x0601, 0xffff, and
            every value one bit away from 0x0800 / 0x0806 / 0x86dd / 0x8100 (thorough: every type 0x0600..0xffff);
            0x8100 itself is left out (a tag; the vlan domain); the payload is a well-formed IPv4/TCP packet
"""
import struct
from mc.refs import refmatch as R

MA, MB, IPA, IPB = R.MA, R.MB, R.IPA, R.IPB
PORTISH = b"\x04\x57\x00\x50" + b"domain-payload.."        # reads as ports 1111 / 80


class Domain (object):
  __slots__ = ("name", "axis", "frames", "neighbour")
  def __init__ (self, name, axis, frames, neighbour):
    self.name = name; self.axis = axis; self.frames = frames; self.neighbour = neighbour


def _fr (name, data, in_port=1):
  f = R.Frame(name, data, in_port)
  f.want = dict(dl_type=R.extract(data, in_port)[0]["dl_type"])      # (only what c03.alternatives reads)
  return f


def _ring (frames):
  """neighbour = the next frame of the list (cyclic)."""
  return dict((f.name, frames[(i + 1) % len(frames)].name) for i, f in enumerate(frames))


def _l4 (p):
  if p == 6: return R.tcp(1111, 80)
  if p == 17: return R.udp(1111, 80)
  if p == 1: return R.icmp(4, 0x57)
  return PORTISH


def ipproto (thorough=False):
  fs = [_fr("ipproto[%d]" % p, R.eth(MB, MA, 0x0800, R.ipv4(p, _l4(p), tos=0x20))) for p in range(256)]
  return Domain("ipproto", "nw_proto", fs, dict(("ipproto[%d]" % p, "ipproto[%d]" % (p ^ 1)) for p in range(256)))


ARP_OPS = list(range(256)) + [256, 257, 258, 0x1ff, 0xff00, 0xff01, 0xffff]
def arpop (thorough=False):
  fs = [_fr("arpop[%d]" % o, R.eth(MB, MA, 0x0806, R.arp(o, MA, IPA, MB, IPB))) for o in ARP_OPS]
  nb = dict(("arpop[%d]" % o, "arpop[%d]" % ((o ^ 1) if (o ^ 1) in ARP_OPS else 0)) for o in ARP_OPS)
  return Domain("arpop", "nw_proto", fs, nb)


def iptos (thorough=False):
  fs = [_fr("iptos[%d]" % t, R.eth(MB, MA, 0x0800, R.ipv4(17, R.udp(5353, 53), tos=t))) for t in range(256)]
  return Domain("iptos", "nw_tos", fs, dict(("iptos[%d]" % t, "iptos[%d]" % (t ^ 4)) for t in range(256)))


ICMP_TYPES = (0, 3, 4, 5, 8, 11, 12, 13, 14, 17, 18)
def icmp (thorough=False):
  tc = [(t, 0) for t in range(256)] + [(8, c) for c in range(1, 256)]
  if thorough: tc += [(t, c) for t in ICMP_TYPES if t != 8 for c in range(1, 256)]
  fs = [_fr("icmp[%d,%d]" % (t, c), R.eth(MB, MA, 0x0800, R.ipv4(1, R.icmp(t, c, b"\x12\x34\0\x01" + b"quoted-datagram.")))) for t, c in tc]
  return Domain("icmp", "tp_src", fs, _ring(fs))


def _bits (n): return [1 << i for i in range(n)]

def vlan (thorough=False):
  vids = sorted(set([0, 0x123, 0xffe, 0xfff] + _bits(12)))
  combos = [(v, p, c) for v in vids for p in range(8) for c in (0, 1)]
  if thorough: combos += [(v, v & 7, (v >> 3) & 1) for v in range(4096) if v not in vids]
  inner = R.ipv4(6, R.tcp(1111, 80), tos=0x20)
  fs = [_fr("vlan[%d,%d,%d]" % (v, p, c), R.eth(MB, MA, 0x8100, R.dot1q(v, p, c, 0x0800, inner))) for v, p, c in combos]
  return Domain("vlan", "dl_vlan", fs, _ring(fs))


KNOWN_PORTS = (53, 67, 68, 80, 443, 520, 546, 547, 4789, 5353, 6633, 6653)
def port (thorough=False):
  vals = sorted(set([0, 65535] + _bits(16) + list(KNOWN_PORTS)))
  fs = []
  for proto, mk in (("udp", R.udp), ("tcp", R.tcp)):
    for v in vals:
      fs.append(_fr("%s-sport[%d]" % (proto, v), R.eth(MB, MA, 0x0800, R.ipv4(17 if proto == "udp" else 6, mk(v, 1111)))))
      fs.append(_fr("%s-dport[%d]" % (proto, v), R.eth(MB, MA, 0x0800, R.ipv4(17 if proto == "udp" else 6, mk(1111, v)))))
  if thorough:
    for v in range(65536):
      if v in vals: continue
      fs.append(_fr("udp-sport[%d]" % v, R.eth(MB, MA, 0x0800, R.ipv4(17, R.udp(v, 1111)))))
      fs.append(_fr("udp-dport[%d]" % v, R.eth(MB, MA, 0x0800, R.ipv4(17, R.udp(1111, v)))))
  return Domain("port", "tp_src", fs, _ring(fs))


REGISTERED_TYPES = (0x0800, 0x0806, 0x0842, 0x22f3, 0x6003, 0x8035, 0x809b, 0x80f3, 0x8137, 0x8204, 0x86dd, 0x8808, 0x8809,
                    0x8819, 0x8847, 0x8848, 0x8863, 0x8864, 0x886d, 0x8870, 0x887b, 0x888e, 0x8892, 0x889a, 0x88a2, 0x88a4,
                    0x88a8, 0x88ab, 0x88b5, 0x88b6, 0x88b7, 0x88b8, 0x88b9, 0x88ba, 0x88cc, 0x88cd, 0x88dc, 0x88e1, 0x88e3,
                    0x88e5, 0x88e7, 0x88f7, 0x88f8, 0x88fb, 0x8902, 0x8906, 0x8914, 0x8915, 0x891d, 0x892f, 0x9000, 0x9100,
                    0x9200, 0xcafe, 0x0600, 0x0601, 0x0660, 0x0a00, 0x1984, 0xffff)
def ethtype (thorough=False):
  if thorough: ts = [t for t in range(0x0600, 0x10000)]
  else:
    ts = set(REGISTERED_TYPES)
    for c in (0x0800, 0x0806, 0x86dd, 0x8100): ts |= set(c ^ b for b in _bits(16))
    ts = sorted(t for t in ts if t >= 0x0600)
  ts = [t for t in ts if t != 0x8100]
  payload = R.ipv4(6, R.tcp(1111, 80), tos=0x20)
  fs = [_fr("ethtype[%#06x]" % t, R.eth(MB, MA, t, payload)) for t in ts]
  return Domain("ethtype", "dl_type", fs, _ring(fs))


DOMAINS = (("ipproto", ipproto), ("arpop", arpop), ("iptos", iptos), ("icmp", icmp), ("vlan", vlan), ("port", port),
           ("ethtype", ethtype))


def domains (thorough=False):
  return [mk(thorough) for _, mk in DOMAINS]


def frame_by_name (name):
  """For replays: the domain frame with this name (None if it is not a domain frame)."""
  i = name.find("[")
  if i < 0: return None
  stem = name[:i]
  for dn, mk in DOMAINS:
    if stem == dn or (dn == "port" and stem[4:] in ("sport", "dport")):
      for th in (False, True):
        for f in mk(th).frames:
          if f.name == name: return f
  return None
