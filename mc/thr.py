"""E-thr: controlled-thread explorer for real (Python) threaded code.

Every logical thread is a real threading.Thread gated by its own semaphore; exactly one holds the
baton.  Scheduling points are (a) `line` (optionally `opcode`) trace events in the files / functions
under test and (b) every operation on a modelled primitive (Lock, RLock, Event, Queue, select, pinger,
sleep).  At each point the explorer's chooser picks the thread to run next: choice 0 = keep running
the current thread (or, if it cannot continue, the lowest-numbered enabled thread); any other choice
while the current thread could continue is a *preemption* (costly), which mc.engine.explore bounds.

Time is virtual and only advances when no thread is enabled, to the earliest *real* deadline.  Waits
whose timeout is a polling interval (>= POLL) are never fired: if the only way to make progress is a
poll expiring while the harness says work is pending, the execution is reported as a lost wake-up.
"""
import collections, sys, threading, time as _time

POLL = 1e8          # timeouts >= this are polling intervals (harness rebinds CYCLE_MAXIMUM to 1e9)


class ExplorerExit (BaseException):
  """Raised inside controlled threads to unwind them at the end of an execution."""


class TInfo (object):
  def __init__ (self, tid, name, target):
    self.tid = tid; self.name = name; self.target = target
    self.sem = threading.Semaphore(0)
    self.state = "new"            # new | run | blocked | done
    self.pred = None              # for blocked: callable -> bool
    self.deadline = None          # virtual time, or None
    self.poll = False
    self.timed_out = False
    self.real = None
    self.obj = None               # the controlled Thread object (for current_thread())
    self.exc = None
    self.what = ""                # what it is blocked on (for reports)


class Sched (object):
  def __init__ (self, ctx, trace_files=(), trace_funcs=None, opcode_funcs=(), max_points=20000,
                pending=None):
    self.ctx = ctx
    self.trace_files = tuple(trace_files)
    self.trace_funcs = trace_funcs        # None = every function in trace_files
    self.opcode_funcs = set(opcode_funcs)
    self.max_points = max_points
    self.pending = pending or (lambda: False)     # harness: is there work that must still happen?
    self.threads = []
    self.cur = None
    self.now = 1000.0
    self.points = 0
    self.aborting = False
    self.finished = threading.Event()
    self.verdict = None           # None | ("lost-wakeup"|"deadlock"|"step-limit"|"thread-exception", detail)
    self.log = []                 # (tid, label) trace of scheduling points (for determinism checks)
    self.keep_log = False
    self.monitor = None           # optional callable run at every scheduling point (invariants)
    self.rotate = False           # default successor policy at forced switches (False: lowest id)
    self.reverse = False          # ... True: highest id (the threads started last - the foreign ones - go first)
    self._lock_owner = None

  # ---- thread management ------------------------------------------------------
  def spawn (self, target, name=None, obj=None):
    t = TInfo(len(self.threads), name or "t%d" % len(self.threads), target)
    t.obj = obj
    self.threads.append(t)
    t.real = threading.Thread(target=self._thread_main, args=(t,), name="mc-" + t.name, daemon=True)
    t.state = "run"
    t.real.start()
    return t

  def _thread_main (self, t):
    t.sem.acquire()               # wait for the baton
    if self.aborting:
      t.state = "done"; return
    self.cur = t
    sys.settrace(self._gtrace)
    try:
      t.target()
    except ExplorerExit:
      pass
    except BaseException as e:    # a controlled thread died with an exception
      t.exc = e
      if not self.aborting and self.verdict is None:
        import traceback
        self.verdict = ("thread-exception", "%s: %s: %s" % (t.name, type(e).__name__, e))
        self._tb = traceback.format_exc()
    finally:
      sys.settrace(None)
      t.state = "done"
      if not self.aborting:
        try:
          self._switch(must=True)
        except ExplorerExit:
          pass

  def current (self):
    return self.cur

  # ---- tracing -------------------------------------------------------------
  def _gtrace (self, frame, event, arg):
    co = frame.f_code
    if co.co_filename.endswith(self.trace_files) and co.co_name != "__del__":
      if self.trace_funcs is None or co.co_qualname in self.trace_funcs:
        if co.co_qualname in self.opcode_funcs:
          frame.f_trace_opcodes = True
        return self._ltrace
    return None

  def _ltrace (self, frame, event, arg):
    if event == "line" or event == "opcode":
      if self.aborting: raise ExplorerExit()
      co = frame.f_code
      self.point("%s:%d" % (co.co_name, frame.f_lineno) if event == "line"
                 else "%s:%d@%d" % (co.co_name, frame.f_lineno, frame.f_lasti))
    return self._ltrace

  # ---- scheduling ------------------------------------------------------------
  def _enabled (self, t):
    if t.state == "run": return True
    if t.state == "blocked":
      if t.pred():
        return True
    return False

  def point (self, label=""):
    """A scheduling point of the current thread (which can continue)."""
    if self.aborting: raise ExplorerExit()
    if self.cur is None or threading.current_thread() is not self.cur.real: return     # not a controlled thread
    self.points += 1
    if self.keep_log: self.log.append((self.cur.tid, label))
    if self.monitor is not None: self.monitor(self, label)
    if self.points > self.max_points:
      self._finish(("step-limit", "more than %d scheduling points" % self.max_points))
    self._switch(must=False, label=label)

  def block (self, pred, deadline=None, poll=False, what=""):
    """Current thread cannot continue until pred() (or the deadline).  Returns True if pred holds,
    False if the wait timed out."""
    if self.aborting: raise ExplorerExit()
    t = self.cur
    if threading.current_thread() is not t.real:
      raise RuntimeError("block() from an uncontrolled thread")
    if pred(): return True
    t.state = "blocked"; t.pred = pred; t.deadline = deadline; t.poll = poll; t.timed_out = False; t.what = what
    self._switch(must=True, label="block:" + what)
    # resumed: either pred holds or we timed out
    r = not t.timed_out
    t.state = "run"; t.pred = None; t.deadline = None; t.timed_out = False
    return r

  def _switch (self, must, label=""):
    me = self.cur
    while True:
      en = [t for t in self.threads if t is not me and self._enabled(t)]
      me_ok = (not must) and me.state == "run"
      if me.state == "blocked" and self._enabled(me):
        me_ok = True                                   # woke up while still holding the baton
      cands = ([me] if me_ok else []) + en
      if cands: break
      # nobody can run: advance virtual time to the earliest real deadline, or stop
      waiting = [t for t in self.threads if t.state == "blocked"]
      real = [t for t in waiting if t.deadline is not None and not t.poll]
      if real:
        t = min(real, key=lambda x: (x.deadline, x.tid))
        self.now = max(self.now, t.deadline)
        t.timed_out = True
        t.pred = lambda: True
        continue
      if self.pending():
        polls = [t for t in waiting if t.poll]
        kind = "lost-wakeup" if polls else "deadlock"
        self._finish((kind, "no thread can run but work is pending; blocked: %s"
                      % ", ".join("%s on %s%s" % (t.name, t.what, " (poll)" if t.poll else "") for t in waiting)))
      self._finish(None)                               # quiescent, nothing pending: normal end
    if len(cands) == 1:
      nxt = cands[0]
    else:
      # every departure from the default schedule is a deviation (cost 1): a preemption when the
      # current thread could continue, otherwise picking another than the default successor
      if not me_ok and self.rotate and len(cands) > 1:
        # default successor: next thread after me in id order (round robin), not always the lowest id
        later = [t for t in cands if t.tid > me.tid]
        cands = later + [t for t in cands if t.tid < me.tid]
      elif not me_ok and self.reverse and len(cands) > 1:
        cands = cands[::-1]
      c = self.ctx.choose(len(cands), label, costly=True)
      nxt = cands[c]
    if nxt is me:
      return
    self.cur = nxt
    nxt.sem.release()
    if me.state == "done":
      return                       # finished thread hands the baton over and exits
    me.sem.acquire()
    if self.aborting: raise ExplorerExit()
    self.cur = me

  def _finish (self, verdict):
    if self.verdict is None: self.verdict = verdict
    self.aborting = True
    self.finished.set()
    raise ExplorerExit()

  # ---- running one execution ---------------------------------------------------
  def run (self, first=0, timeout=60.0):
    """Give the baton to thread `first`, wait for the execution to finish, unwind all threads."""
    # NOTE: the caller must keep the cyclic GC disabled while executions run (finalizers such as
    # Scheduler.__del__ must not run inside traced threads) and collect between executions.
    self.cur = self.threads[first]
    self.threads[first].sem.release()
    ok = self.finished.wait(timeout)
    if not ok:
      self.verdict = ("harness-timeout", "execution did not finish within %ss (real time)" % timeout)
    self.aborting = True
    # unwind: release every thread in turn; each raises ExplorerExit at its next point
    for _ in range(50):
      alive = [t for t in self.threads if t.real.is_alive()]
      if not alive: break
      for t in alive:
        t.sem.release()
      for t in alive:
        t.real.join(0.05)
    leaked = [t.name for t in self.threads if t.real.is_alive()]
    return leaked

  def all_done (self):
    return all(t.state == "done" for t in self.threads)


# ---------------------------------------------------------------------------
# modelled primitives
# ---------------------------------------------------------------------------
class CLock (object):
  def __init__ (self, S, name="lock"):
    self.S = S; self.locked_by = None; self.name = name
  def acquire (self, blocking=True, timeout=-1):
    S = self.S
    S.point("acquire " + self.name)
    if self.locked_by is not None:
      if not blocking: return False
      S.block(lambda: self.locked_by is None, what="Lock " + self.name)
    self.locked_by = S.cur.tid
    return True
  def release (self):
    self.S.point("release " + self.name)
    if self.locked_by is None: raise RuntimeError("release unlocked lock")
    self.locked_by = None
  def locked (self): return self.locked_by is not None
  def __enter__ (self): self.acquire(); return self
  def __exit__ (self, *a): self.release()


class CRLock (object):
  def __init__ (self, S, name="rlock"):
    self.S = S; self.owner = None; self.count = 0; self.name = name
  def acquire (self, blocking=True, timeout=-1):
    S = self.S
    S.point("acquire " + self.name)
    me = S.cur.tid
    if self.owner is not None and self.owner != me:
      if not blocking: return False
      S.block(lambda: self.owner is None, what="RLock " + self.name)
    self.owner = me; self.count += 1
    return True
  def release (self):
    self.S.point("release " + self.name)
    if self.owner != self.S.cur.tid: raise RuntimeError("cannot release un-acquired lock")
    self.count -= 1
    if self.count == 0: self.owner = None
  def __enter__ (self): self.acquire(); return self
  def __exit__ (self, *a): self.release()


class CEvent (object):
  def __init__ (self, S, name="event"):
    self.S = S; self.flag = False; self.name = name
  def is_set (self): return self.flag
  isSet = is_set
  def set (self):
    self.S.point("set " + self.name); self.flag = True
  def clear (self):
    self.S.point("clear " + self.name); self.flag = False
  def wait (self, timeout=None):
    S = self.S
    S.point("wait " + self.name)
    if self.flag: return True
    dl = None if timeout is None else S.now + timeout
    S.block(lambda: self.flag, deadline=dl, poll=(timeout is not None and timeout >= POLL), what="Event " + self.name)
    return self.flag


class CQueue (object):
  """queue.Queue stand-in (unbounded)."""
  def __init__ (self, S, name="queue"):
    self.S = S; self.q = collections.deque(); self.name = name
  def put (self, item, block=True, timeout=None):
    self.S.point("put " + self.name); self.q.append(item)
  def get (self, block=True, timeout=None):
    S = self.S
    S.point("get " + self.name)
    if not self.q:
      if not block:
        import queue; raise queue.Empty()
      S.block(lambda: len(self.q) > 0, what="Queue " + self.name)
    return self.q.popleft()
  def empty (self):
    self.S.point("empty " + self.name); return not self.q
  def qsize (self): return len(self.q)
  def task_done (self): pass


class CPinger (object):
  """Wake-up pipe: ping() makes it readable; pongAll() drains it (and, like a real pipe read,
  blocks if there is nothing to read)."""
  def __init__ (self, S, name="pinger"):
    self.S = S; self.pings = 0; self.name = name; self.total = 0
  def ping (self):
    self.S.point("ping " + self.name); self.pings += 1; self.total += 1
  def fileno (self): return -1
  def pongAll (self):
    S = self.S
    S.point("pong " + self.name)
    if self.pings == 0:
      S.block(lambda: self.pings > 0, what="read of empty pinger " + self.name)
    self.pings = 0
  pong_all = pongAll
  def pong (self):
    S = self.S
    S.point("pong1 " + self.name)
    if self.pings == 0:
      S.block(lambda: self.pings > 0, what="read of empty pinger " + self.name)
    self.pings -= 1
  def readable (self): return self.pings > 0
  def __repr__ (self): return "<CPinger %s %d>" % (self.name, self.pings)


class CSelect (object):
  """select module stand-in.  Objects may define readable()/writable()/errored(); unknown objects are
  never ready."""
  error = OSError
  def __init__ (self, S): self.S = S
  def _ready (self, r, w, x):
    ro = [o for o in r if getattr(o, "readable", lambda: False)()]
    wo = [o for o in w if getattr(o, "writable", lambda: False)()]
    xo = [o for o in x if getattr(o, "errored", lambda: False)()]
    return ro, wo, xo
  def select (self, r, w, x, timeout=None):
    S = self.S
    r, w, x = list(r), list(w), list(x)
    S.point("select")
    ro, wo, xo = self._ready(r, w, x)
    if ro or wo or xo: return ro, wo, xo
    dl = None if timeout is None else S.now + timeout
    S.block(lambda: any(self._ready(r, w, x)), deadline=dl,
            poll=(timeout is not None and timeout >= POLL), what="select")
    return self._ready(r, w, x)


class CTime (object):
  def __init__ (self, S): self.S = S
  def time (self): return self.S.now
  def sleep (self, s):
    S = self.S
    S.point("sleep")
    S.block(lambda: False, deadline=S.now + s, what="sleep")
  def __getattr__ (self, n): return getattr(_time, n)


class CThreadingModule (object):
  """Stands in for the `threading` module inside the code under test."""
  def __init__ (self, S):
    self.S = S
    self.local = threading.local
    outer = self
    class Thread (object):
      def __init__ (self_, group=None, target=None, name=None, args=(), kwargs=None, daemon=None):
        self_.target = target; self_.args = args; self_.kwargs = kwargs or {}
        self_.name = name or "Thread"; self_.daemon = daemon; self_.info = None
      def run (self_):
        if self_.target: self_.target(*self_.args, **self_.kwargs)
      def start (self_):
        S.point("start " + self_.name)
        self_.info = S.spawn(self_.run, name=self_.name, obj=self_)
      def is_alive (self_): return self_.info is not None and self_.info.state != "done"
      isAlive = is_alive
      def join (self_, timeout=None):
        S.point("join")
        if self_.info is not None:
          S.block(lambda: self_.info.state == "done", what="join " + self_.name)
    self.Thread = Thread
  def Lock (self): return CLock(self.S)
  def RLock (self): return CRLock(self.S)
  def Event (self): return CEvent(self.S)
  def Condition (self, lock=None): return threading.Condition()     # only ever constructed by the code under test here
  def current_thread (self):
    t = self.S.cur
    return t.obj if t is not None and t.obj is not None else t
  currentThread = current_thread
