"""E-seq: stateless choice-sequence exploration of real code, plus helpers.

The harness is a function run(ctx) that builds *fresh* real objects and calls
ctx.choose(n, label) wherever the environment / history has a choice.  Choice 0 is
always the default answer; the cost of an execution is its number of non-zero choices
(deviations) unless the harness passes cost=0 for a choice that is not a deviation
(e.g. "which operation next").  All choice vectors within the deviation bound are
enumerated depth-first by replaying prefixes on fresh objects.
"""
import multiprocessing, os, random, sys, time


class Divergence (Exception):
  """Replayed prefix did not meet the same choice points: harness is nondeterministic."""


class Ctx (object):
  __slots__ = ("prefix", "trace", "free")
  def __init__ (self, prefix):
    self.prefix = prefix          # list of (choice)
    self.trace = []               # list of (choice, n, label, costly)

  def choose (self, n, label=None, costly=True):
    i = len(self.trace)
    if i < len(self.prefix):
      c = self.prefix[i]
      if c >= n:
        raise Divergence("choice %d: replayed %d but arity now %d (%r)" % (i, c, n, label))
    else:
      c = 0
    self.trace.append((c, n, label, costly))
    return c

  def choices (self):
    return [t[0] for t in self.trace]

  def labelled (self):
    return [(t[2], t[0]) for t in self.trace]


def cost_of (trace, upto=None):
  return sum(1 for (c, n, l, costly) in trace[:upto] if costly and c != 0)


def explore (run, dev_bound=None, prefix0=(), on_exec=None, max_execs=None):
  """Enumerate every execution of run(ctx) within dev_bound deviations.
  Yields nothing; calls on_exec(ctx, result) for each.  Returns (#executions, capped)."""
  stack = [list(prefix0)]
  n = 0
  while stack:
    prefix = stack.pop()
    ctx = Ctx(prefix)
    res = run(ctx)
    if len(ctx.trace) < len(prefix):
      raise Divergence("execution ended after %d choices, prefix has %d" % (len(ctx.trace), len(prefix)))
    n += 1
    if on_exec is not None: on_exec(ctx, res)
    if max_execs is not None and n >= max_execs:
      return n, True
    tr = ctx.trace
    base = cost_of(tr, len(prefix))
    # children: deviate at each later point (later points first so DFS goes deep last)
    kids = []
    run_cost = base
    for i in range(len(prefix), len(tr)):
      c, arity, label, costly = tr[i]
      for alt in range(1, arity):
        if dev_bound is not None and costly and run_cost + 1 > dev_bound:
          break
        kids.append([t[0] for t in tr[:i]] + [alt])
      # c is 0 here (default beyond the prefix), so run_cost unchanged
    stack.extend(reversed(kids))
  return n, False


# ---------------------------------------------------------------------------
# parallel map over independent work items, fork-once pool
# ---------------------------------------------------------------------------
_WORK = {}

def _call (args):
  fname, item = args
  return _WORK[fname](item)


def pmap (fn, items, workers, chunk=1, seed=0, ordered=False):
  """Apply fn to every item (all of them - the seed only rotates the order).
  fn must be a module-level or closure function defined before the fork."""
  items = list(items)
  if seed:
    random.Random(seed).shuffle(items)
  if workers <= 1 or len(items) <= 1:
    for it in items:
      yield fn(it)
    return
  name = "f%d" % len(_WORK)
  _WORK[name] = fn
  ctx = multiprocessing.get_context("fork")
  pool = ctx.Pool(min(workers, len(items)))
  try:
    it = pool.imap(_call, [(name, x) for x in items], chunk) if ordered else \
         pool.imap_unordered(_call, [(name, x) for x in items], chunk)
    for r in it:
      yield r
    pool.close()
  finally:
    pool.terminate()
    pool.join()
    _WORK.pop(name, None)


def split (items, n):
  """Split a list into ~n round-robin slices (deterministic)."""
  items = list(items)
  n = max(1, min(n, len(items)))
  return [items[i::n] for i in range(n)]


class LineBudget (object):
  """Non-termination detector: counts `line` events in the given source files and
  latches a flag when the budget is exceeded; the traced code is then aborted by
  raising BudgetExceeded (a BaseException, so bare `except Exception` does not eat
  it; POX's bare `except:` clauses may, hence the latch and repeated raising)."""
  class BudgetExceeded (BaseException): pass

  def __init__ (self, files, budget):
    self.files = tuple(files)
    self.budget = budget
    self.count = 0
    self.tripped = False

  def _local (self, frame, event, arg):
    if event == 'line':
      self.count += 1
      if self.count > self.budget:
        self.tripped = True
        raise LineBudget.BudgetExceeded()
    return self._local

  def _global (self, frame, event, arg):
    if frame.f_code.co_filename.endswith(self.files):
      if self.tripped: raise LineBudget.BudgetExceeded()
      return self._local
    return None

  def __enter__ (self):
    self.count = 0; self.tripped = False
    sys.settrace(self._global)
    return self

  def __exit__ (self, t, v, tb):
    sys.settrace(None)
    if t is LineBudget.BudgetExceeded: return True
    return False


# ---------------------------------------------------------------------------
# explicit-state breadth-first search over operation histories (replay based)
# ---------------------------------------------------------------------------
_EXPAND = {}

def _expand_chunk (args):
  name, hists = args
  f = _EXPAND[name]
  return [(h, f(h)) for h in hists]


def bfs (expand, depth, rep, workers=1, seed=0, max_states=None, chunk=64):
  """expand(history tuple) must rebuild a fresh real system, replay the history and return a dict:
       key   canonical digestable state after the history (the WHOLE mutable state relevant to the
             property, so that merged states have the same futures)
       ops   list of operations enabled in that state (each hashable / repr-able)
       bad   list of (violation key, what) found in the LAST step (earlier steps were checked
             when their prefix was expanded)
       out   an observable summary of the last step (for the distinct-outcome count)
     States are expanded once; a transition that violates is recorded and not expanded further.
     Returns the number of distinct states."""
  from mc.report import digest
  name = "e%d" % len(_EXPAND)
  _EXPAND[name] = expand
  pool = None
  try:
    if workers > 1:
      pool = multiprocessing.get_context("fork").Pool(workers)
    r0 = expand(())
    seen = set([digest(r0["key"])])
    rep.evaluations += 1
    frontier = [((), r0["ops"])]
    capped = False
    for d in range(depth):
      items = [h + (op,) for h, ops in frontier for op in ops]
      if not items: break
      if seed: random.Random(seed + d).shuffle(items)
      chunks = [items[i:i+chunk] for i in range(0, len(items), chunk)]
      if pool is not None:
        res_iter = pool.imap_unordered(_expand_chunk, [(name, c) for c in chunks])
      else:
        res_iter = (_expand_chunk((name, c)) for c in chunks)
      results = []
      for part in res_iter: results.extend(part)
      results.sort(key=lambda hr: repr(hr[0]))      # deterministic representative per state
      nxt = []
      for h, r in results:
        rep.evaluations += 1
        rep.transitions += 1
        rep.outcome((h[-1], r.get("out")))
        if r["bad"]:
          for k, what in r["bad"]:
            rep.violation(k, what, dict(history=list(h), **r.get("replay_extra", {})))
          continue
        dg = digest(r["key"])
        if dg in seen: continue
        seen.add(dg)
        if len(seen) <= 4 or len(seen) % 5000 == 1: rep.sample(dict(history=list(h), observed=r.get("out")))
        nxt.append((h, r["ops"]))
        if max_states is not None and len(seen) >= max_states:
          capped = True; break
      frontier = nxt
      if capped:
        rep.caps.append("state cap %d hit at depth %d" % (max_states, d + 1)); break
    rep.states |= seen
    rep.extra["bfs_depth_completed"] = d + 1 if not capped else d
    rep.extra["frontier_at_bound"] = len(frontier)
    return len(seen)
  finally:
    if pool is not None:
      pool.terminate(); pool.join()
    _EXPAND.pop(name, None)
