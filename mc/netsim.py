"""netsim - a deterministic, single-threaded closed system of real POX components:

  n SoftwareSwitch (each behind a real OFConnection + RecocoIOWorker)  <-- bytes -->
  n of_01.Connection on a real OpenFlowNexus (+ whatever controller components the harness registers)

Hosts and inter-switch links move dataplane frames (serialised at emission time).  After each external
stimulus everything is pumped FIFO to quiescence."""
import collections
from mc.env import boot, VClock, SwitchStack, ControllerStack


class Net (object):
  def __init__ (self, nports, links=(), clock=None, max_buffers=4, miss_send_len=128, components=None):
    """nports: list, number of ports of each switch (dpids 1..n).
    links: iterable of ((sw, port), (sw, port)) with 0-based switch indices; directed links may be given
    as (a, b, 'oneway')."""
    boot()
    self.clock = clock or VClock()
    self.cs = ControllerStack(self.clock)
    if components: components(self)           # register controller components on the fresh nexus
    self.sw = [SwitchStack(dpid=i + 1, ports=n, clock=self.clock, max_buffers=max_buffers, miss_send_len=miss_send_len)
               for i, n in enumerate(nports)]
    self.con = [None] * len(nports)           # controller connection index per switch
    self.peer = {}
    for l in links:
      a, b = l[0], l[1]
      self.peer[a] = b
      if len(l) < 3: self.peer[b] = a
    self.delivered = []                       # (sw, port, frame) handed to hosts (edge ports)
    self.trace = []                           # per dataplane arrival: (sw, in_port, frame, [(out_port, frame)], went_to_controller)
    self.max_hops = 64

  def connect (self, i):
    # (a new control connection: the switch starts its side of the handshake afresh)
    self.sw[i].sw.set_connection(self.sw[i].conn)
    self.sw[i].drain()
    self.con[i] = self.cs.connect()
    self.pump()

  def connect_all (self):
    for i in range(len(self.sw)): self.connect(i)

  def disconnect (self, i):
    """The switch's control connection goes away (both ends notice)."""
    ci = self.con[i]
    if ci is not None:
      self.cs.close(ci)
      self.con[i] = None
      self.sw[i].drain()

  # ---- control channel ------------------------------------------------------
  def pump_control (self):
    moved = False
    for i, st in enumerate(self.sw):
      ci = self.con[i]
      if ci is None:
        st.drain(); continue
      out = st.drain()
      if out:
        moved = True
        self.cs.feed(ci, out)
      tx = self.cs.take_tx(ci)
      if tx:
        moved = True
        st.feed(tx)
    return moved

  # ---- data plane -------------------------------------------------------------
  def pump (self, queue=None):
    q = collections.deque(queue or [])
    hops = 0
    while True:
      while self.pump_control(): pass
      # frames emitted by switches as a consequence of control traffic (packet-outs, released buffers)
      for i, st in enumerate(self.sw):
        for port, frame in st.take_out():
          self._emit(i, port, frame, q, None)
      if not q: break
      i, port, frame = q.popleft()
      hops += 1
      if hops > self.max_hops:
        raise RuntimeError("netsim: more than %d dataplane hops for one stimulus (forwarding loop)" % self.max_hops)
      st = self.sw[i]
      before = st.sw._matched_count
      # which kind of entry (if any) will absorb this frame: peeked before the real lookup
      try:
        from pox.lib.packet.ethernet import ethernet
        ent = st.sw.table.entry_for_packet(ethernet(raw=frame), port)
        kind = None if ent is None else ("drop" if not ent.actions else "fwd")
        # a lookup must only ever return an entry that is installed right now
        if ent is not None and not any(e is ent for e in st.sw.table.entries): kind = "phantom"
      except Exception:
        kind = None
      st.rx(frame, port)
      rec = [i, port, frame, [], st.sw._matched_count == before, kind]
      self.trace.append(rec)
      # emissions caused directly by the table (cached flow)
      for p2, f2 in st.take_out():
        self._emit(i, p2, f2, q, rec)
      # let the controller react (packet-in -> packet-out / flow-mod) and attribute those emissions too
      while self.pump_control(): pass
      for j, st2 in enumerate(self.sw):
        for p2, f2 in st2.take_out():
          self._emit(j, p2, f2, q, rec if j == i else None)

  def _emit (self, i, port, frame, q, rec):
    if rec is not None: rec[3].append((port, frame))
    dst = self.peer.get((i, port))
    if dst is None:
      self.delivered.append((i, port, frame))
    else:
      q.append((dst[0], dst[1], frame))

  def inject (self, i, port, frame):
    """A host sends a frame into switch i, port."""
    self.trace = []; self.delivered = []
    self.pump([(i, port, frame)])
    return self.trace, self.delivered

  def inject_burst (self, i, items):
    """Several frames [(port, frame)] arrive at switch i back to back, before the controller has reacted to any of
    them.  Returns (records of the burst's arrivals, trace, delivered); emissions caused by the controller's late
    reactions are not attributed to a record (callers match them by frame content)."""
    self.trace = []; self.delivered = []
    st = self.sw[i]; q = collections.deque(); recs = []
    self.late = []
    for port, frame in items:
      before = st.sw._matched_count
      st.rx(frame, port)
      rec = [i, port, frame, [], st.sw._matched_count == before, None]
      self.trace.append(rec); recs.append(rec)
      for p2, f2 in st.take_out(): self._emit(i, p2, f2, q, rec)
    while self.pump_control(): pass
    for p2, f2 in st.take_out():
      self.late.append((p2, f2)); self._emit(i, p2, f2, q, None)
    self.pump(list(q))
    return recs, self.trace, self.delivered

  def sweep (self):
    self.trace = []; self.delivered = []
    for st in self.sw: st.sweep()
    self.pump()

  def buffers_in_use (self):
    return [sum(1 for x in st.sw._packet_buffer if x is not None) for st in self.sw]
