"""C11 - the learning-switch control loop forwards like an ideal learning bridge.

netsim (real SoftwareSwitch + OFConnection + of_01.Connection + OpenFlowNexus + forwarding.l2_learning over
the real OpenFlow byte encoding) driven through every sequence of host stimuli up to a bound, explored
breadth-first with state matching (replay based).  Oracle: an ideal learning bridge per switch kept by the
harness (for every switch, for every address, the ordered list of ports it was seen on as a source)."""
import struct
from mc.engine import bfs
from mc.report import Report, digest
from mc.refs import c11_frames as FR
from mc.refs import c11_lattice as LAT

PID = "C11"

def mac (n): return bytes.fromhex("0200000000%02x" % n)
BCAST = b"\xff" * 6
MCAST = bytes.fromhex("01005e000001")
STP = bytes.fromhex("0180c2000000")
LLDP_DST = bytes.fromhex("0180c200000e")
UNKNOWN = bytes.fromhex("0200000000ee")


def _ip (proto, payload, src, dst):
  h = struct.pack("!BBHHHBBHLL", 0x45, 0, 20 + len(payload), 7, 0, 64, proto, 0, src, dst)
  s = sum(struct.unpack("!10H", h)); s = (s & 0xffff) + (s >> 16); s = (s & 0xffff) + (s >> 16)
  return h[:10] + struct.pack("!H", (~s) & 0xffff) + h[12:] + payload

def _csum (b):
  if len(b) & 1: b += b"\0"
  s = sum(struct.unpack("!%dH" % (len(b) // 2), b))
  while s >> 16: s = (s & 0xffff) + (s >> 16)
  return (~s) & 0xffff

def udp_frame (src, dst, tag=0, size=120):
  # longer than the switch's miss_send_len (128): a packet-in that is cut short shows
  pay = bytes([tag]) * size
  sip, dip = 0x0a000000 + src[5], 0x0a000000 + dst[5]
  u = struct.pack("!HHHH", 1000 + src[5], 2000 + dst[5], 8 + len(pay), 0) + pay
  c = _csum(struct.pack("!LLBBH", sip, dip, 0, 17, len(u)) + u) or 0xffff
  u = u[:6] + struct.pack("!H", c) + u[8:]
  return dst + src + b"\x08\x00" + _ip(17, u, sip, dip)

def lldp_frame (src, dst=LLDP_DST):
  tlvs = b"\x02\x07\x04" + src + b"\x04\x02\x07\x31" + b"\x06\x02\x00\x78" + b"\x00\x00"
  return dst + src + b"\x88\xcc" + tlvs


# ---- frame families (the "families" plans) -------------------------------------------------------------------
# plain UDP frames whose total length sits on the boundaries of the switch's miss_send_len (128: a packet-in of a
# buffered frame is cut when the frame is LONGER), the Ethernet minimum and the Ethernet maximum
SIZES = (60, 127, 128, 129, 1514)
FAMILIES_Q = tuple(FR.FAMILIES) + tuple("udp-%d" % n for n in SIZES)
# violation-key class of a family: one defect, one key - the three first-fragment families share a class, the plain
# UDP frames of any length have none (their keys stay what they always were)
FAMKEY = {"frag-first": "ipv4-first-fragment", "frag-first-tcp": "ipv4-first-fragment", "frag-first-icmp": "ipv4-first-fragment"}
# group addresses one byte away from the bridge-filtered block 01:80:c2:00:00:00-0f: ordinary multicast
NEAR_LINK_LOCAL = ("0180c2000100", "0180c2010000", "0180c3000000", "0181c2000000", "0380c2000000")

def famkey (fam):
  if fam is None or fam == "udp" or fam == "lldp" or fam.startswith("udp-"): return ""
  if fam.startswith("lat:"): return "" if fam[4:] == LAT.BASE else ":" + LAT.field(fam[4:])
  return ":" + FAMKEY.get(fam, fam)

def family_frame (fam, src, dst, tag=0):
  if fam == "lldp": return lldp_frame(src, dst)
  if fam == "udp": return udp_frame(src, dst)
  if fam.startswith("udp-"): return udp_frame(src, dst, tag, int(fam[4:]) - 42)
  if fam.startswith("lat:"): return LAT.build(fam[4:], src, dst)
  return FR.FAMILIES[fam](src, dst, tag)


class ControlLoop (Exception): pass

def capped_net (*args, **kw):
  """netsim.Net with a step cap: one stimulus may take at most `max_rounds` rounds of the control-channel pump
  (one round = every switch's pending bytes to the controller and the controller's pending bytes back).  An endless
  packet-in / flow-mod exchange is thereby reported instead of hanging the check."""
  from mc.netsim import Net
  class CappedNet (Net):
    max_rounds = 400
    rounds = 0
    def pump_control (self):
      self.rounds += 1
      if self.rounds > self.max_rounds:
        raise ControlLoop("the control channel is still busy after %d pump rounds for one stimulus (endless packet-in / flow-mod / packet-out exchange)" % self.max_rounds)
      return Net.pump_control(self)
    def inject (self, *a): self.rounds = 0; return Net.inject(self, *a)
    def inject_burst (self, *a): self.rounds = 0; return Net.inject_burst(self, *a)
    def sweep (self): self.rounds = 0; return Net.sweep(self)
  return CappedNet(*args, **kw)


CONFIGS = {
  # one switch, hosts 1..3 on ports 1..3, port 4 spare (host 1 can move there)
  "1sw": dict(nports=[4], links=[], hosts={1: (0, 1), 2: (0, 2), 3: (0, 3)}, spare=(0, 4)),
  # two switches in a line: s0 ports 1,2 hosts, 3 link; s1 ports 1,2 hosts, 3 link, 4 spare
  "2sw": dict(nports=[3, 4], links=[((0, 3), (1, 3))], hosts={1: (0, 1), 2: (0, 2), 3: (1, 1)}, spare=(1, 4)),
  # one switch; additionally bursts: several frames arrive before the controller has answered the first
  "1swb": dict(nports=[4], links=[], hosts={1: (0, 1), 2: (0, 2), 3: (0, 3)}, spare=(0, 4), burst=True),
  # the frame-family plans: the first stimulus of a history picks a frame family (or a boundary length / a group
  # address around the bridge-filtered block), the rest of the history stays inside that family
  "1swf": dict(nports=[4], links=[], hosts={1: (0, 1), 2: (0, 2), 3: (0, 3)}, spare=(0, 4), families=True, peer=2),
  "2swf": dict(nports=[3, 4], links=[((0, 3), (1, 3))], hosts={1: (0, 1), 2: (0, 2), 3: (1, 1)}, spare=(1, 4), families=True, peer=3),
  "3sw": dict(nports=[3, 3, 4], links=[((0, 3), (1, 2)), ((1, 3), (2, 3))], hosts={1: (0, 1), 2: (1, 1), 3: (2, 1)}, spare=(2, 4)),
}


def stimuli (cfg):
  hs = sorted(cfg["hosts"])
  out = []
  for s in hs:
    for d in hs:
      if d != s: out.append(("tx", s, "h%d" % d))
    out += [("tx", s, "unknown"), ("tx", s, "bcast"), ("tx", s, "mcast"), ("tx", s, "stp"), ("tx", s, "lldp")]
  # host 4 sits behind the same port as host 1 (a hub segment): traffic between them arrives on the port the
  # destination was learned on
  out += [("tx", 4, "h1"), ("tx", 4, "bcast"), ("tx", 1, "h4"), ("tx", 2, "h4")]
  out += [("move", 1), ("tick", 11), ("tick", 31)]
  if cfg.get("burst"):
    for s in hs[:2]:
      ds = ["h%d" % d for d in hs if d != s] + ["bcast"]
      for d1 in ds:
        for d2 in ds:
          if d1 != d2: out.append(("burst", s, d1, d2))
      out.append(("burst", s, ds[0], ds[1], ds[2]))
      # two and three frames of ONE conversation before the controller answers the first (same destination: the
      # second packet-in repeats the flow-mod; every buffer must still be released, every frame delivered once)
      for d1 in ds: out.append(("burst", s, d1, d1))
      out.append(("burst", s, ds[0], ds[0], ds[0]))
    # a long burst: its packet-ins add up to more than one 2048-byte read of the controller connection, so one of
    # them straddles two reads with complete messages in front of it
    ds = ["h2", "h3", "bcast", "unknown"]
    out.append(("burst", 1) + tuple(ds[i % 4] for i in range(14)))
  return out


def family_stimuli (cfg, fam, families):
  """Alphabet of the family plans.  fam None (no family frame sent yet in this history): the wide alphabet, one
  stimulus per (family, role); otherwise the narrow one inside the family."""
  P = cfg["peer"]
  if fam is not None:
    return [("tx", 1, "h%d" % P, fam), ("tx", P, "h1", fam), ("tx", 1, "bcast", fam), ("tx", 4, "h1", fam), ("move", 1), ("tick", 11)]
  out = []
  for f in families:
    for s, d in ((1, "h%d" % P), (P, "h1"), (1, "bcast"), (1, "mcast"), (1, "unknown"), (4, "h1"), (1, "stp")):
      out.append(("tx", s, d, f))
  # every address of 01:80:c2:00:00:00-1f (00-0f are bridge-filtered, 10-1f are not) and the near misses
  for n in range(0x20): out.append(("tx", 1, "g:0180c20000%02x" % n, "udp"))
  for g in NEAR_LINK_LOCAL: out.append(("tx", 1, "g:" + g, "udp"))
  # LLDP to the other two standard LLDP destinations (nearest non-TPMR bridge, nearest customer bridge)
  out += [("tx", 1, "g:0180c2000003", "lldp"), ("tx", 1, "g:0180c2000000", "lldp")]
  return out


class World (object):
  def __init__ (self, cname, buffers, families=None):
    Net = capped_net
    from mc.env import VClock
    self.cfg = CONFIGS[cname]
    self.buffers = buffers
    self.clock = VClock(5000.0)
    def comps (net):
      import pox.forwarding.l2_learning as l2
      l2.time = self.clock
      l2._flood_delay = 0
      self.l2 = l2.l2_learning(False)
    self.net = Net(self.cfg["nports"], self.cfg["links"], clock=self.clock, max_buffers=buffers, components=comps)
    self.net.connect_all()
    self.where = dict(self.cfg["hosts"])      # host -> (sw, port)
    self.moved = False
    self.seen = [dict() for _ in self.cfg["nports"]]     # per switch: mac -> [ports], most recent last
    # per switch: mac -> was its most recent frame swallowed by a drop flow
    self.hidden = [dict() for _ in self.cfg["nports"]]
    self.bad = []
    self.tag = 0
    self.fam = None                           # family plans: the family this history is confined to
    self.families = tuple(families) if families is not None else FAMILIES_Q
    self.macs = {}                            # station address overrides (lattice values dl-addr:*): host -> address

  def hmac (self, n): return self.macs.get(n) or mac(n)

  def fail (self, clause, what): self.bad.append(("%s:%s" % (PID, clause), what))

  def ops (self):
    if self.cfg.get("families"): return family_stimuli(self.cfg, self.fam, self.families)
    return stimuli(self.cfg)

  def dst_mac (self, d):
    if d.startswith("h"): return self.hmac(int(d[1:]))
    if d.startswith("g:"): return bytes.fromhex(d[2:])
    return dict(unknown=UNKNOWN, bcast=BCAST, mcast=MCAST, stp=STP, lldp=LLDP_DST)[d]

  def apply (self, op):
    self.bad = []
    net = self.net
    if op[0] == "tick":
      self.clock.advance(op[1])
      try:
        net.sweep()
      except ControlLoop as e:
        self.fail("packet-in-loop", "expiry sweep: %s" % e); return ("packet-in-loop",)
      self.check_buffers()
      # the expiry sweep has just run: a cached flow lives no longer than the timeouts the controller gave it (what
      # "an older cached flow is still installed" may excuse is bounded by them)
      now = self.clock.now
      for i, st in enumerate(net.sw):
        for e in st.sw.table.entries:
          idle = bool(e.idle_timeout) and now - e.last_touched > e.idle_timeout
          hard = bool(e.hard_timeout) and now - e.created > e.hard_timeout
          if idle or hard:
            self.fail("expired-flow-still-installed", "switch %d: after the expiry sweep a flow (output %r) is still installed %.0f s after its last hit / %.0f s after "
                      "it was installed (idle timeout %d, hard timeout %d)" % (i + 1, [getattr(a, "port", None) for a in e.actions], now - e.last_touched,
                                                                               now - e.created, e.idle_timeout, e.hard_timeout))
      return ("tick", sum(len(st.sw.table) for st in net.sw))
    if op[0] == "move":
      if not self.moved:
        self.where[op[1]] = self.cfg["spare"]; self.moved = True
      else:
        self.where[op[1]] = self.cfg["hosts"][op[1]]; self.moved = False
      return ("move", self.where[op[1]])
    if op[0] == "burst": return self.apply_burst(op)
    s, d = op[1], op[2]
    fam = op[3] if len(op) > 3 else None
    if s == 4: self.where[4] = self.where[1]
    if fam is not None and fam.startswith("lat:dl-addr:"): self.macs[1] = LAT.mac_of(fam[4:])
    src = self.hmac(s)
    dm = self.dst_mac(d)
    self.tag = (self.tag + 1) & 0xff
    if fam is None:
      frame = lldp_frame(src) if d == "lldp" else udp_frame(src, dm)
    else:
      frame = family_frame(fam, src, dm)
      # an LLDP / group-address probe is followed by plain frames
      self.fam = "udp" if fam == "lldp" else fam
    fk = famkey(fam)
    i, p = self.where[s]
    try:
      trace, delivered = net.inject(i, p, frame)
    except ControlLoop as e:
      self.fail("packet-in-loop" + fk, "switch %d, %s frame %s->%s in port %d (%d buffers): %s" % (i + 1, fam or "udp", src.hex()[-2:], dm.hex(), p, self.buffers, e))
      return ("packet-in-loop",)
    except RuntimeError as e:
      self.fail("loop", str(e)); return ("loop",)
    obs = []
    for (sw, inp, f, ems, missed, absorbed) in trace:
      self.judge(sw, inp, f, ems, missed, d, absorbed)
      obs.append((sw, inp, sorted(q for q, _ in ems), missed))
    # nothing delivered twice / altered
    seenp = set()
    for (sw, port, f) in delivered:
      if (sw, port) in seenp: self.fail("delivered-twice", "host port %d of switch %d received the frame twice" % (port, sw + 1))
      seenp.add((sw, port))
      if f != frame:
        self.fail("frame-altered" + fk, "a host received a frame that differs from the one sent"
                  + (" (%s frame of %d bytes, received %d bytes%s)" % (fam, len(frame), len(f), "" if len(f) != len(frame) else ", first difference at byte %d" % next(k for k in range(len(f)) if f[k] != frame[k])) if fam else ""))
    self.check_buffers()
    return ("tx", tuple(obs), tuple(sorted(seenp)))

  def apply_burst (self, op):
    """Host s sends frames to several destinations back to back; the controller only gets to react after the last
    one has arrived (single switch).  The ideal bridge handles them one after the other."""
    net = self.net
    s, dsts = op[1], op[2:]
    src = mac(s)
    frames = []
    for n, d in enumerate(dsts):
      frames.append(udp_frame(src, self.dst_mac(d), tag=0x40 + n, size=150 + 8 * n))
    i, p = self.where[s]
    try:
      recs, trace, delivered = net.inject_burst(i, [(p, f) for f in frames])
    except ControlLoop as e:
      self.fail("packet-in-loop", "switch %d, burst %r from host %d: %s" % (i + 1, dsts, s, e)); return ("packet-in-loop",)
    except RuntimeError as e:
      self.fail("loop", str(e)); return ("loop",)
    obs = []
    for rec, f, d in zip(recs, frames, dsts):
      ems = [(port, g) for (sw, port, g) in delivered if g == f]
      self.judge(rec[0], rec[1], f, ems, rec[4], d, None)
      obs.append((sorted(q for q, _ in ems), rec[4]))
    for (sw, port, g) in delivered:
      if g not in frames: self.fail("frame-altered", "a host received a frame that differs from every frame sent (%d bytes; sent %r)" % (len(g), [len(f) for f in frames]))
    self.check_buffers()
    return ("burst", tuple(map(repr, obs)))

  def judge (self, sw, inp, frame, ems, missed, dkind, absorbed=None):
    dst, src = frame[:6], frame[6:12]
    seen = self.seen[sw]
    nports = self.cfg["nports"][sw]
    known_before = list(seen.get(dst, []))
    # the bridge learns the source on every frame it sees
    lst = seen.setdefault(src, [])
    moved = bool(lst) and lst[-1] != inp
    returned = moved and inp in lst
    if inp in lst: lst.remove(inp)
    lst.append(inp)
    # Was the destination's most recent appearance absorbed inside the switch by an already installed flow, so that
    # the controller could not see it?  With flows that match on the ingress port this can only happen when a host
    # RETURNS to a port it used before while the flow for its old traffic is still cached ("after-return"); a frame
    # from a port the source never used being absorbed ("on-new-port") means a flow matches more than it should.
    hidden_before = self.hidden[sw].get(dst)
    self.hidden[sw][src] = None
    if absorbed in ("drop", "fwd") and moved:
      self.hidden[sw][src] = "after-return" if returned else "on-new-port"
    if absorbed == "phantom":
      self.fail("forwarded-by-removed-flow", "switch %d, frame %s->%s in port %d was handled by a flow entry that is no longer in the flow table (expired or deleted)"
                % (sw + 1, src.hex()[-2:], dst.hex(), inp))
    ports = [q for q, _ in ems]
    where = "switch %d, frame %s->%s in port %d" % (sw + 1, src.hex()[-2:], dst.hex(), inp)
    if inp in ports: self.fail("back-out-ingress", "%s: emitted on its ingress port" % where)
    if len(set(ports)) != len(ports): self.fail("emitted-twice", "%s: emitted twice on a port %r" % (where, ports))
    etype = frame[12:14]
    # link-local bridge-filtered = the destination is in 01:80:c2:00:00:00-0f (where LLDP, STP, ... frames go)
    filtered = dst[:5] == bytes.fromhex("0180c20000") and dst[5] <= 0x0f
    others = [q for q in range(1, nports + 1) if q != inp]
    if filtered:
      if ports: self.fail("filtered-forwarded", "%s: link-local / LLDP frame forwarded to %r" % (where, ports))
      return
    # a frame with the LLDP ethertype to any other address: the statement does not say whether it counts as
    # link-local, so it may be filtered as well as forwarded like any other frame
    if etype == b"\x88\xcc" and not ports: return
    if dst[0] & 1 or not known_before:
      if sorted(ports) != others:
        kind = "multicast" if dst[0] & 1 else "unknown-unicast"
        self.fail("flood:%s" % kind, "%s: %s destination must reach every other port %r, emitted on %r" % (where, kind, others, sorted(ports)))
      return
    # destination seen before as a source on this switch
    if not set(ports) <= set(known_before):
      self.fail("known:wrong-port", "%s: destination was seen on port(s) %r, emitted on %r" % (where, known_before, ports))
      return
    if missed:
      # went to the controller: must go to exactly the most recent port (nothing if that is the ingress port)
      want = [known_before[-1]] if known_before[-1] != inp else []
      if ports != want:
        self.fail("known:not-most-recent" + (":move-hidden-by-cached-flow:" + hidden_before if hidden_before else ""),
                  "%s: handled by the controller, destination most recently seen on port %d (history %r%s), emitted on %r"
                  % (where, known_before[-1], known_before,
                     "; its last frame was absorbed in the switch by an older cached flow, " + hidden_before if hidden_before else "", ports))

  def check_buffers (self):
    used = self.net.buffers_in_use()
    if any(used):
      self.fail("buffer-leak", "switch buffers still occupied at quiescence: %r" % (used,))

  def key (self):
    now = self.clock.now
    tabs = []
    for st in self.net.sw:
      tabs.append(sorted((digest(e.match.pack()), tuple(getattr(a, "port", None) for a in e.actions),
                          round(now - e.created, 1), round(now - e.last_touched, 1)) for e in st.sw.table.entries))
    learn = []
    for c in self.net.cs.cons:
      learn.append(sorted((str(k), v) for l in self._ls(c) for k, v in l.macToPort.items()))
    return (tabs, learn, [sorted((k, tuple(v)) for k, v in s.items()) for s in self.seen],
            [sorted((k, v or "") for k, v in s.items()) for s in self.hidden], sorted(self.where.items()),
            self.moved, [tuple(x is not None for x in st.sw._packet_buffer) for st in self.net.sw], self.fam)

  def _ls (self, con):
    # the LearningSwitch objects listening on this connection
    out = []
    for lst in con._eventMixin_handlers.values():
      for ent in lst:
        h = ent[1]
        o = getattr(h, "__self__", None)
        if o is not None and type(o).__name__ == "LearningSwitch" and o not in out: out.append(o)
    return out


def make_expand (cname, buffers, root=(), families=None):
  def expand (h):
    w = World(cname, buffers, families)
    out = None
    for op in root: w.apply(op)
    for op in h: out = w.apply(op)
    return dict(key=w.key(), ops=w.ops(), bad=w.bad if h else [], out=out,
                replay_extra=dict(config=cname, buffers=buffers, root=[list(o) for o in root],
                                  families=list(families) if families is not None else None))
  return expand


# non-initial states to start from: flows cached in both directions and already hit on the switch's fast path
ROOTS = [(("tx", 1, "h2"), ("tx", 2, "h1"), ("tx", 1, "h2"), ("tx", 2, "h1"), ("tx", 1, "h2"))]


def family_root (cname, rname):
  P = CONFIGS[cname]["peer"]
  a, b = ("tx", 1, "h%d" % P), ("tx", P, "h1")
  return {"nothing-known": (), "both-known": (("tx", P, "bcast"), ("tx", 1, "bcast")), "flows-hit": (a, b, a, b, a)}[rname]


# ---- the frame-content lattice ----------------------------------------------------------------------------------------
def lattice_script (cname, value):
  """One history per lattice value: every role a frame can play at a learning bridge, all frames of the history
  carry the value (for dl-addr:* values: host 1 has that station address)."""
  P = "h%d" % CONFIGS[cname]["peer"]; p = CONFIGS[cname]["peer"]; f = "lat:" + value
  return [("tx", 1, P, f),            # destination never seen: flooded
          ("tx", p, "h1", f),         # destination known: the controller installs a flow and forwards
          ("tx", 1, P, f),
          ("tx", 1, P, f),            # cached flows, both directions
          ("tx", p, "h1", f),
          ("tx", 4, "h1", f),         # hub segment: the destination lives on the ingress port (drop flow naming the buffer)
          ("tx", 1, "h4", f),
          ("tx", 1, "bcast", f), ("tx", 1, "mcast", f), ("tx", 1, "unknown", f),
          ("tx", 1, "stp", f),        # bridge-filtered destination, whatever the frame carries
          ("move", 1),
          ("tx", 1, P, f),            # from the new port: not the cached flow's business
          ("tx", p, "h1", f),         # (the stale cached flow may still take this one)
          ("tick", 11),
          ("tx", p, "h1", f),         # flows gone: to the new port
          ("tx", 1, P, f),
          ("tick", 31),
          ("tx", 1, P, f)]


def run_lattice_script (cname, buffers, value):
  """-> [(step, key, what)], [out per step]"""
  w = World(cname, buffers)
  bad = []; outs = []
  for n, op in enumerate(lattice_script(cname, value)):
    out = w.apply(op)
    outs.append(out)
    for k, what in w.bad: bad.append((n, k, what))
    if out and out[0] in ("packet-in-loop", "loop"): break        # the closed system is no longer quiescent
  return bad, outs


# Frame classes the UNCHANGED tree delivers with different bytes (the software switch re-serialises every frame from
# its decoded form; reported to the lead, see DESIGN 9.2b).  Until each has been triaged into a fix or into
# known_findings.json the byte-identity clause for these classes is evaluated in the thorough tier only, so that the
# quick tier's exit status stays meaningful (seed confirmation runs the quick tier).  All other clauses apply to these
# frames in both tiers.  Emptying this tuple moves the clause into the quick tier.
ALTERED_PENDING_TRIAGE = ()      # (all six classes triaged: listed in known_findings.json)


def _lattice_chunk (item):
  """Worker: a slice of the lattice on one configuration.  A violation that the BASE frame shows at the same step
  under the same key is not about the frame's content and keeps its plain key; any other gets the value's field as
  key class (one class per field, never the value)."""
  cname, buffers, values, quick = item
  muted = set("%s:frame-altered:%s" % (PID, c) for c in ALTERED_PENDING_TRIAGE) if quick else ()
  from mc.env import boot
  boot()
  rep = Report(PID, "model_checking")
  base = set((n, k) for n, k, _ in run_lattice_script(cname, buffers, LAT.BASE)[0])
  for v in values:
    bad, outs = run_lattice_script(cname, buffers, v)
    script = lattice_script(cname, v)
    rep.evaluations += 1
    rep.transitions += len(outs)
    rep.state_count += 1
    rep.outcome((cname, buffers, tuple(outs)))
    fk = famkey("lat:" + v)
    for n, k, what in bad:
      if (n, k) not in base and fk and not k.endswith(fk): k += fk
      if k in muted: continue
      rep.violation(k, "[%s] %s" % (v, what), dict(history=[list(o) for o in script[:n + 1]], config=cname, buffers=buffers, root=[], families=None))
    if v == LAT.BASE: rep.sample(dict(config=cname, buffers=buffers, history=[list(o) for o in script], observed=outs))
  return rep


def lattice_plans (cfg):
  allv = list(LAT.VALUES); qv = [v for v in allv if v in LAT.QUICK]
  return [("1swf", 4, allv), ("1swf", 0, allv), ("2swf", 4, cfg.pick(qv, allv)), ("2swf", 0, cfg.pick(qv, allv))] \
         + ([] if cfg.quick else [("1swf", 1, allv)])


def run (cfg):
  from mc.env import boot
  boot()
  rep = Report(PID, "model_checking")
  depth = cfg.pick(5, 7)
  plans = [("1sw", 4, depth), ("1sw", 0, depth), ("2sw", 4, depth), ("2sw", 0, depth - 1), ("1swb", 1, depth - 2), ("1swb", 2, depth - 2)]
  if not cfg.quick: plans += [("3sw", 4, depth - 1), ("2sw", 1, depth - 1)]
  only = getattr(cfg, "only", None)          # debugging: --only families | base
  for cname, buffers, d in (plans if only in (None, "base") else []):
    bfs(make_expand(cname, buffers), d, rep, workers=cfg.workers, seed=cfg.seed, max_states=cfg.pick(200000, 2000000), chunk=16)
  for root in (ROOTS if only in (None, "base") else []):
    for cname in ("1sw", "2sw"):
      bfs(make_expand(cname, 4, root), depth - 1, rep, workers=cfg.workers, seed=cfg.seed, max_states=cfg.pick(200000, 2000000), chunk=16)
  rep.extra["roots"] = [[list(o) for o in r] for r in ROOTS]
  # frame families: the first stimulus picks the family, the history stays in it
  x = cfg.pick(0, 1)
  fplans = []
  for b in (4, 0):
    fplans += [("1swf", b, "nothing-known", 3 + x), ("1swf", b, "both-known", 4 + x), ("1swf", b, "flows-hit", 2 + x), ("2swf", b, "both-known", 3 + x)]
  if not cfg.quick:
    fplans += [("1swf", 1, "both-known", 4), ("2swf", 4, "nothing-known", 3), ("2swf", 0, "nothing-known", 3), ("2swf", 4, "flows-hit", 2), ("2swf", 0, "flows-hit", 2)]
  for cname, buffers, rname, d in (fplans if only in (None, "families") else []):
    bfs(make_expand(cname, buffers, family_root(cname, rname), FAMILIES_Q), d, rep, workers=cfg.workers, seed=cfg.seed,
        max_states=cfg.pick(200000, 2000000), chunk=16)
  rep.extra["family_plans"] = [list(p) for p in fplans]
  # the frame-content lattice: one scripted history per value and configuration
  from mc.engine import pmap
  lplans = lattice_plans(cfg) if only in (None, "lattice") else []
  items = [(c, b, vs[i:i + 24], cfg.quick) for c, b, vs in lplans for i in range(0, len(vs), 24)]
  for r in pmap(_lattice_chunk, items, cfg.workers, seed=cfg.seed): rep.merge(r)
  rep.extra["lattice_plans"] = [[c, b, len(vs)] for c, b, vs in lplans]
  # thorough tier: the boundary subset of the lattice also as families of the breadth-first family plans
  lbfs = []
  if not cfg.quick and only in (None, "lattice"):
    lf = ["lat:" + v for v in LAT.VALUES if v in LAT.QUICK]
    for b in (4, 0):
      lbfs.append(("1swf", b, "both-known", 2))
      bfs(make_expand("1swf", b, family_root("1swf", "both-known"), lf), 2, rep, workers=cfg.workers, seed=cfg.seed, max_states=2000000, chunk=16)
  rep.extra["lattice_bfs_plans"] = [list(p) for p in lbfs]
  rep.extra["lattice_fields"] = sorted(set(LAT.field(v) for v in LAT.VALUES))
  rep.extra["families"] = list(FAMILIES_Q)
  rep.rule = ("breadth-first search with state matching over all sequences of <=%d host stimuli {frame from each of 3 hosts to each "
              "other host / an unknown unicast address / broadcast / IPv4 multicast / 01:80:c2:00:00:00 / LLDP, host 1 moves to a spare port "
              "and back, clock +11 s and +31 s followed by an expiry sweep; in the 1swb plans also bursts of 2-3 frames (>128 bytes) that arrive before "
              "the controller answers, with 1 or 2 buffer slots} on %s, switch buffering on (4 slots) and off; every dataplane "
              "arrival at every switch is judged against the ideal learning bridge; additionally depth-1 searches on 1sw/2sw from a state with flows cached "
              "in both directions and already hit; the 1swb bursts include 2 and 3 frames of one conversation (same destination).  "
              "FRAME FAMILIES (plans %s; roots: nothing known / hosts 1 and P known, no flows / flows 1<->P cached in both directions and hit; "
              "P = host 2 on 1swf, host 3 behind the second switch on 2swf): the first stimulus of a history is any of {frame of family F "
              "from host 1 to P / from P to 1 / to broadcast / to an IPv4 multicast MAC / to an unknown address / from the hub host 4 to host 1 on the same port / to 01:80:c2:00:00:00} "
              "for every F in {%s} (udp-N = plain UDP frame of N bytes total: Ethernet minimum, miss_send_len-1/+0/+1, Ethernet maximum), "
              "or a plain frame to each of 01:80:c2:00:00:00..1f and to 5 group addresses one byte away from that block, or an LLDP frame to 01:80:c2:00:00:00/03; "
              "the remaining stimuli stay in that family: {1->P, P->1, 1->broadcast, hub host 4->1, host 1 moves, clock +11 s and sweep}; switch buffering on (4 slots) and off.  "
              "FRAME-CONTENT LATTICE (%d values in %d fields; plans %s): a base frame (Ethernet II / IPv4 / UDP, 162 bytes) and every frame that differs from it in ONE "
              "field a bridge or an OpenFlow 1.0 switch could look at - all 256 ICMP types, ICMP codes, all 256 IPv4 protocol numbers (valid IGMP / GRE / TCP / ICMP / IP-in-IP "
              "messages where the number has a format), all 256 TOS octets, IPv4 source / destination {0, 1, 2^31-1, 2^31, 2^32-1, every single bit, loopback, multicast, link-local}, "
              "TTL, identification, flag / fragment-offset combinations, IPv4 options, UDP and TCP source / destination port {0, 1, 2^15-1, 2^15, 2^16-1, every single bit, "
              "53, 67, 68, 520, 4789, 5353 with a valid DNS / DHCP / RIP / VXLAN message, 6633, 6653}, VLAN id {0, 1, 2, 4094, 4095, single bits}, all priorities, CFI, stacked tags, "
              "what a tag carries (ARP, IPv6, MPLS, EAPOL, the LLDP ethertype, LLC/SNAP, unknown), 32 ethertypes (valid ARP / RARP / IPv6 / MPLS / EAPOL / LLDP payloads), "
              "802.3 LLC shapes (BPDU to a unicast address, null / global SAP, I-format, SNAP ARP / IPv6 / VLAN, 3 and 1500 bytes), ARP opcodes and addresses, non-IPv4 ARP, "
              "IPv6 next headers (extension headers, fragments, no-next-header, unknown), ICMPv6 messages, MPLS stacks, EAPOL types, ICMP errors quoting a truncated datagram, "
              "short frames padded with zeros to the 60-byte Ethernet minimum, and 53 station addresses for host 1 (every single bit but the group bit, zero, fe:ff:ff:ff:ff:ff, near the "
              "bridge-filtered block); per value and configuration ONE scripted history of 19 stimuli in which frames of that value play every role: unknown destination, known "
              "destination (flow installed), cached flow hit in both directions, destination on the ingress port (hub host), broadcast, multicast, unknown, 01:80:c2:00:00:00, after "
              "a host move, after idle and hard timeouts; a violation the base frame shows at the same step keeps its plain key, any other is keyed by the field (never the value)%s.  "
              "Every stimulus has a step cap of 400 control-channel pump rounds (an endless packet-in/flow-mod exchange is a violation, not a hang); "
              "distinct = (last stimulus, per-arrival emissions)"
              % (depth, ", ".join("%s/%d buffers depth %d" % p for p in plans),
                 ", ".join("%s/%d buffers from %s depth %d" % p for p in fplans), ", ".join(FAMILIES_Q),
                 len(LAT.VALUES), len(rep.extra["lattice_fields"]), ", ".join("%s/%d buffers %d values" % (c, b, len(vs)) for c, b, vs in lplans),
                 "; the %d boundary values also as families of breadth-first family plans (%s)" % (len(LAT.QUICK), ", ".join("%s/%d buffers from %s depth %d" % p for p in lbfs)) if lbfs else ""))
  rep.bound = dict(depth=depth, plans=[list(p) for p in plans], family_plans=[list(p) for p in fplans], families=len(FAMILIES_Q),
                   lattice_values=len(LAT.VALUES), lattice_plans=rep.extra["lattice_plans"], lattice_script_length=19, lattice_bfs_plans=[list(p) for p in lbfs],
                   control_rounds_per_stimulus=400)
  rep.assumptions = ["the controller reacts synchronously to each packet-in (single-threaded FIFO pump)",
                     "every family frame is a valid frame of its family (lengths and checksums right, no trailer padding), assembled bytewise without POX; "
                     "a history of the family plans uses one family (plus the plain frames of its root)",
                     "link-local bridge-filtered = destination address in 01:80:c2:00:00:00-0f; a frame with the LLDP ethertype to any other address may be filtered or forwarded (the statement is silent)",
                     "lattice frames: one field differs from the base frame; where the value selects a protocol with a defined format the payload is a valid message of it; "
                     "link-layer padding only in the eth-pad values (zeros to 60 bytes)",
                     "quick tier: the byte-identity clause is not evaluated for the lattice classes %s (altered by the unchanged tree, reported, thorough tier only until triaged)" % (ALTERED_PENDING_TRIAGE,),
                     "a delivered frame must be byte-identical to the frame sent; for the non-plain families that clause is keyed per family (frame-altered:<family>)",
                     "state key = flow tables with ages, the controller's macToPort tables, buffer occupancy, host locations and the bridge model"]
  return rep


def replay (cfg, data):
  from mc.env import boot
  boot()
  w = World(data["config"], data["buffers"], data.get("families")); lines = []
  for op in data.get("root", []): w.apply(tuple(op))
  for op in data["history"]:
    out = w.apply(tuple(op))
    lines.append("%r -> %r %s" % (tuple(op), out, w.bad or ""))
  return bool(w.bad), "\n".join(lines)
