"""C08 - component rendezvous fires each waiter exactly once, exactly when ready; life-cycle
events GoingUp/Up/GoingDown/Down once each, Up deferred by deferrals (pox/core.py).

E-seq on the real POXCore (one fresh core per execution, scheduler thread neutralised,
threads spawned by quit() captured and run as explicit operations, virtual sleep).
Operation histories are enumerated breadth-first over *canonical states* of the real core
(state matching): level k holds one representative choice vector per distinct state reached
by k operations; mc.engine.explore enumerates every one-operation successor of every
representative, including every behaviour a callback invoked during that operation may
choose (bounded number of non-default behaviours per history).  The oracle is the driven
reference model mc/refs/c08_model.py, evaluated online in every callback / listener and at
the end of every operation.

Not here: the E-thr scenario (two threads in quit() at line granularity) - added by the lead.
"""
import functools, gc, io, itertools, logging, operator, os, sys, time, warnings, weakref
from mc.engine import explore, pmap, Ctx
from mc.report import Report, digest
from mc.refs.c08_model import Model

PID = "C08"

NAMES = ["foo", "foo_bar", "baz", "qux"]       # qux is a plain object (raises no events)
GOUP_VARIANTS = ["", "L", "I", "LL", "LI", "IL", "II"]   # per GoingUp handler: release Inside / Later
INVOCATION_LIMIT = 40

# Kinds of callable a dependent may hand to call_when_ready (see make_callable).  Only the first three carry a
# __code__ object; "partial", "partial-method" and "object" have no __name__ either.
CALLABLE_KINDS = ("function", "lambda", "method", "classmethod", "partial", "partial-method", "partial-wrapped",
                  "object", "object-name-none", "builtin", "class")
NAMELESS = ("partial", "partial-method", "object")      # no __name__: the waiter's name cannot be derived from it
BFS_CALLABLES = ("method", "partial", "object", "builtin", "class")
ARG_MODES = ("plain", "args", "kw", "both", "args-list")
if not hasattr(operator, "call"):                         # Python < 3.11: no builtin that simply calls its argument
  CALLABLE_KINDS = tuple(k for k in CALLABLE_KINDS if k != "builtin")
  BFS_CALLABLES = tuple(k for k in BFS_CALLABLES if k != "builtin")

# Life-cycle / registration events of core a COMPONENT may listen to, and what such a listener may do when it is called
# (see World.listener_runs).  Fault kinds: an ordinary Exception, an Exception whose text cannot be produced, revent's
# own ReventError (raised by revent itself for a misuse inside the handler, raised directly, a subclass) and an
# exception outside the Exception hierarchy (a handler calling sys.exit()).
LISTENER_EVENTS = ("GoingUp", "Up", "GoingDown", "Down", "ComponentRegistered")
LISTENER_SLOTS = (("A", 5), ("B", -1))          # (slot, priority): ahead of / behind the GoingUp handlers that take deferrals
LISTENER_FAULTS_Q = ("ValueError", "bad-str", "ReventError:undeclared-event", "SystemExit")
LISTENER_FAULTS_T = LISTENER_FAULTS_Q + ("KeyError", "StopIteration", "TypeError", "AttributeError", "ReventError",
                                         "ReventError:unknown-event-name", "ReventError-subclass", "KeyboardInterrupt")

_P = None
_CUR = None


# ---------------------------------------------------------------------------------------
# environment
# ---------------------------------------------------------------------------------------
class _Null (object):
  def write (self, s): return len(s)
  def flush (self): pass
  def isatty (self): return False


class _Time (object):
  """Stands in for the `time` module inside pox.core: sleep() is virtual and lets the
  (absent) scheduler thread make progress, i.e. runs what was handed to callLater."""
  def __init__ (self, real): self._real = real
  def sleep (self, s):
    w = _CUR
    if w is None: return
    w.vtime += s
    w.run_later()
  def __getattr__ (self, n): return getattr(self._real, n)


class _FakeThread (object):
  """threading.Thread as seen by core.quit(): start() parks the body; the explorer runs it
  as an operation of its own."""
  def __init__ (self, group=None, target=None, name=None, args=(), kwargs=None, daemon=None):
    self.target = target; self.args = args; self.kwargs = kwargs or {}
    self.daemon = daemon; self.name = name
  def start (self):
    _CUR.threads.append(self)
  def run_body (self):
    return self.target(*self.args, **self.kwargs)


class NS (object): pass


def _no_collect (*a): return 0


def _import ():
  global _P
  if _P is not None: return _P
  hidden = dict((m, sys.modules.pop(m)) for m in ("unittest", "nose") if m in sys.modules)
  try:
    import pox.core as poxcore      # must not auto-create a core (real scheduler thread)
  finally:
    sys.modules.update(hidden)
  import pox.lib.util
  import pox.lib.recoco.recoco as rc
  import pox.lib.revent.revent as rv
  rc.Scheduler.runThreaded = lambda self, daemon=False: None

  class FakePinger (object):
    def ping (self): pass
    def pong (self): pass
    def pongAll (self): pass
    def fileno (self): return -1
  pox.lib.util.makePinger = lambda: FakePinger()
  poxcore.time = _Time(poxcore.time)
  logging.getLogger().addHandler(logging.NullHandler())
  logging.disable(logging.CRITICAL)
  warnings.simplefilter("ignore")

  P = NS()
  P.core = poxcore; P.rv = rv
  P.root = os.path.dirname(os.path.abspath(poxcore.__file__)) + os.sep

  class Ev (rv.Event): pass
  class Comp (rv.EventMixin):
    _eventMixin_events = set([Ev])
    def __init__ (self, name, gen): self.name = name; self.gen = gen
  class Plain (object):
    def __init__ (self, name, gen): self.name = name; self.gen = gen
  # component kinds other than "raises Ev": what a sink may also name as a dependency
  class CompEmpty (rv.EventMixin):             # an EventMixin that declares an EMPTY event set
    _eventMixin_events = set()
    def __init__ (self, name, gen): self.name = name; self.gen = gen
  class CompAny (rv.EventMixin):               # documented: True = "all events are acceptable"
    _eventMixin_events = True
    def __init__ (self, name, gen): self.name = name; self.gen = gen
  class CompUndeclared (rv.EventMixin):        # an EventMixin that declares nothing (class default None)
    def __init__ (self, name, gen): self.name = name; self.gen = gen
  P.Ev = Ev; P.Comp = Comp; P.Plain = Plain
  class Undeclared (rv.Event): pass            # an event class no component lists in _eventMixin_events
  class ReventSub (rv.ReventError): pass
  P.Undeclared = Undeclared; P.ReventSub = ReventSub
  P.LIFE = {"GoingUp": poxcore.GoingUpEvent, "Up": poxcore.UpEvent, "GoingDown": poxcore.GoingDownEvent,
            "Down": poxcore.DownEvent, "ComponentRegistered": poxcore.ComponentRegistered}
  P.KINDS = {"events": Comp, "empty": CompEmpty, "plain": Plain, "any": CompAny, "undeclared": CompUndeclared}
  P.KIND_OF = dict((c, k) for k, c in P.KINDS.items())

  class SinkBase (object):
    # kind: row of P.SINKS; ser: which object (several of one class may exist); n: its latest declaration
    def __init__ (self, w, kind, ser=0): self.w = w; self.kind = kind; self.ser = ser; self.n = 0
  class S_foo (SinkBase):                      # no completion callback: wiring seen by probing only
    def _handle_foo_Ev (self, e): self.w.sink_hit(self, "foo")
  class S_foobar (SinkBase):                   # component name with an underscore
    def _handle_foo_bar_Ev (self, e): self.w.sink_hit(self, "foo_bar")
    def _all_dependencies_met (self): self.w.sink_ready(self)
  class S_both (SinkBase):
    def _handle_foo_Ev (self, e): self.w.sink_hit(self, "foo")
    def _handle_foo_bar_Ev (self, e): self.w.sink_hit(self, "foo_bar")
    def _all_dependencies_met (self): self.w.sink_ready(self)
  class S_bazplus (SinkBase):                  # one handler + one explicitly named component
    def _handle_baz_Ev (self, e): self.w.sink_hit(self, "baz")
    def _all_dependencies_met (self): self.w.sink_ready(self)
  class S_core (SinkBase):                     # depends on core itself (always there) and foo
    def _handle_core_ComponentRegistered (self, e): self.w.sink_cr(self, e)
    def _handle_foo_Ev (self, e): self.w.sink_hit(self, "foo")
    def _all_dependencies_met (self): self.w.sink_ready(self)
  class S_qux (SinkBase):                      # explicit plain component, short attribute names
    def _handle_baz_Ev (self, e): self.w.sink_hit(self, "baz")
    def _all_dependencies_met (self): self.w.sink_ready(self)
  class S_shx (SinkBase):                      # `components=` is an object SHARED with S_shy (per execution)
    def _handle_foo_bar_Ev (self, e): self.w.sink_hit(self, "foo_bar")
    def _all_dependencies_met (self): self.w.sink_ready(self)
  class S_shy (SinkBase):
    def _handle_baz_Ev (self, e): self.w.sink_hit(self, "baz")
    def _all_dependencies_met (self): self.w.sink_ready(self)
  class S_expl (SinkBase):                     # one handler-derived + two explicitly listed components
    def _handle_foo_Ev (self, e): self.w.sink_hit(self, "foo")
    def _all_dependencies_met (self): self.w.sink_ready(self)
  class S_la (SinkBase):                       # three event-raising dependencies; used with listen_args variants
    def _handle_foo_Ev (self, e): self.w.sink_hit(self, "foo")
    def _handle_foo_bar_Ev (self, e): self.w.sink_hit(self, "foo_bar")
    def _handle_baz_Ev (self, e): self.w.sink_hit(self, "baz")
    def _all_dependencies_met (self): self.w.sink_ready(self)
  class S_ro (SinkBase):                       # the attribute done() wants to set for the component cannot be set: the
    c08_broken = True                          # wiring step fails inside core's own callback, before anything of the
    _foo_bar_ = property(lambda self: None)    # sink is called (what else of it still happens is not constrained)
  P.SinkBase = SinkBase
  # kind -> (name, class, deps (None: computed per call), components that have an Ev handler, has completion
  #          callback, ltd kwargs; ("shared", form) stands for the execution's one shared set / list object)
  P.SINKS = [
    ("S_foo",     S_foo,     ("foo",),            ("foo",),           False, {}),
    ("S_foobar",  S_foobar,  ("foo_bar",),        ("foo_bar",),       True,  {}),
    ("S_both",    S_both,    ("foo", "foo_bar"),  ("foo", "foo_bar"), True,  {}),
    ("S_bazplus", S_bazplus, ("baz", "foo"),      ("baz",),           True,  {"components": "foo"}),
    ("S_core",    S_core,    ("core", "foo"),     ("foo",),           True,  {}),
    ("S_qux",     S_qux,     ("baz", "qux"),      ("baz",),           True,
     {"components": ["qux"], "short_attrs": True}),
    ("S_shx_set",  S_shx,    None,                ("foo_bar",),       True,  {"components": ("shared", "set")}),
    ("S_shy_set",  S_shy,    None,                ("baz",),           True,  {"components": ("shared", "set")}),
    ("S_shx_list", S_shx,    None,                ("foo_bar",),       True,  {"components": ("shared", "list")}),
    ("S_shy_list", S_shy,    None,                ("baz",),           True,  {"components": ("shared", "list")}),
    # listen_args dimension: wildcard entry {None: ...} ("add it to all"), wildcard + own entry, own entries only
    ("S_la_wild", S_la, ("baz", "foo", "foo_bar"), ("foo", "foo_bar", "baz"), True,
     {"listen_args": {None: {"priority": 10}}}),
    ("S_la_mix",  S_la, ("baz", "foo", "foo_bar"), ("foo", "foo_bar", "baz"), True,
     {"listen_args": {None: {"priority": 10}, "baz": {"priority": -10}}}),
    ("S_la_own",  S_la, ("baz", "foo", "foo_bar"), ("foo", "foo_bar", "baz"), True,
     {"listen_args": {"foo": {"priority": 10}, "foo_bar": {"priority": -10}}}),
    ("S_both_wild", S_both, ("foo", "foo_bar"),   ("foo", "foo_bar"), True,
     {"listen_args": {None: {"priority": -10}}}),
    ("S_expl",    S_expl,    ("baz", "foo", "foo_bar"), ("foo",),     True,  {"components": ["foo_bar", "baz"]}),
    ("S_ro",      S_ro,      ("foo_bar",),        (),                 False, {"components": ["foo_bar"]}),
  ]
  P.SHARED_INIT = ("foo",)                     # what the caller wrote into the shared collection
  _P = P
  return P


class Env (object):
  """Patches that must only be in force while an execution runs."""
  def __init__ (self, w): self.w = w
  def __enter__ (self):
    global _CUR
    import threading
    self.thread = threading.Thread; threading.Thread = _FakeThread
    self.out = sys.stdout; sys.stdout = _Null()
    self.err = sys.stderr; sys.stderr = _Null()
    self.collect = gc.collect; gc.collect = _no_collect     # _quit() collects garbage up to 51 times
    _CUR = self.w
    return self
  def __exit__ (self, *a):
    global _CUR
    import threading
    threading.Thread = self.thread
    sys.stdout = self.out; sys.stderr = self.err
    gc.collect = self.collect
    _CUR = None
    return False


def _allocate (cls, address=None):
  """An uninitialised instance of cls; with `address` (of an object of the same class freed just now) the instance
  the allocator places there, if it does so within a bounded number of requests."""
  if address is not None:
    others = []
    for i in range(2048):
      c = object.__new__(cls)
      if id(c) == address: return c
      others.append(c)
  return object.__new__(cls)


def _snap (x):
  """Value of a `components` argument, comparable before/after a call."""
  if isinstance(x, (set, frozenset)): return "%s(%s)" % (type(x).__name__, sorted(x))
  return repr(x)


def _handler_comps (spec):
  name, cls, deps, handled, adm, kw = spec
  return handled + (("core",) if hasattr(cls, "_handle_core_ComponentRegistered") else ())


# ---------------------------------------------------------------------------------------
# kinds of callable handed to call_when_ready
# ---------------------------------------------------------------------------------------
class _Holder (object):
  def __init__ (self, target): self.target = target
  def run (self, *a, **k): return self.target(*a, **k)


class _CallableObject (object):
  def __init__ (self, target): self.target = target
  def __call__ (self, *a, **k): return self.target(*a, **k)


class _CallableObjectNameNone (_CallableObject):
  __name__ = None                               # call_when_ready: "if name is None: name = str(callback)"


def make_callable (ck, target, tag):
  """A callable of kind `ck` which, called as cb(*(pre + args), **kw), runs target(*args, **kw) and returns its
  result / lets its exception through.  Returns (cb, pre): `pre` has to be put in front of the `args=` passed to
  call_when_ready (non-empty only for the builtin, which needs to be told what to call)."""
  def fn (*a, **k): return target(*a, **k)
  fn.__name__ = "cb_%s" % (tag,)
  if ck == "function": return fn, ()
  if ck == "lambda": return (lambda *a, **k: target(*a, **k)), ()
  if ck == "method": return _Holder(target).run, ()
  if ck == "classmethod":
    cls = type("Holder_%s" % (tag,), (object,), {"run": classmethod(lambda cls, *a, **k: target(*a, **k))})
    return cls.run, ()
  if ck == "partial":
    def fn2 (pre, *a, **k): return target(*a, **k)
    return functools.partial(fn2, "pre-bound"), ()
  if ck == "partial-method": return functools.partial(_Holder(target).run), ()
  if ck == "partial-wrapped":                   # has __name__ / __module__ / __wrapped__ but still no __code__
    return functools.update_wrapper(functools.partial(fn), fn), ()
  if ck == "object": return _CallableObject(target), ()
  if ck == "object-name-none": return _CallableObjectNameNone(target), ()
  if ck == "builtin": return operator.call, (fn,)           # builtin_function_or_method: no __code__, no source file
  if ck == "class":                             # "instantiate this component class once its dependencies are there"
    # (its __module__ names no loaded module, so `inspect` has no source file to search for its definition)
    return type("Comp_%s" % (tag,), (object,), {"__init__": lambda self, *a, **k: target(*a, **k),
                                                "__module__": "c08_dynamic_component"}), ()
  raise ValueError(ck)


def arg_mode (am, tag):
  """(args, kw) a dependent passes with its declaration in argument mode `am` (None: parameter not given)."""
  if am == "plain": return None, None
  if am == "args": return (("a", tag),), None
  if am == "args-list": return [("a", tag), "second"], None
  if am == "kw": return None, {"k": ("k", tag)}
  if am == "both": return (("a", tag),), {"k": ("k", tag)}
  raise ValueError(am)


def site_of (P, e):
  """basename:function:exception of the innermost pox frame."""
  tb = e.__traceback__; best = None
  while tb is not None:
    fn = tb.tb_frame.f_code.co_filename
    if os.path.abspath(fn).startswith(P.root):
      best = "%s:%s" % (os.path.basename(fn), tb.tb_frame.f_code.co_name)
    tb = tb.tb_next
  return "%s:%s" % (best or "harness", type(e).__name__)


# ---------------------------------------------------------------------------------------
# one execution
# ---------------------------------------------------------------------------------------
class World (object):
  def __init__ (self, P, ctx, prm):
    self.P = P; self.ctx = ctx; self.prm = prm
    self.nc = prm["nc"]; self.names = NAMES[:self.nc]
    self.model = Model()
    self.violated = None          # (key, text) - latched: pox swallows exceptions
    self.hist = []
    self.oplog = []               # observations made during the current operation
    self.calls = 0                # calls into core made by the current operation (top-level + chained)
    self.nops = 0
    self.vtime = 0.0
    self.later = []
    self.threads = []
    self.quits = 0
    self.sched_quit = 0
    self.goup_variant = None
    self.deferrals = []           # outstanding deferrals: (index, callable, holder); holder "h" = a GoingUp handler
    self.goingup_event = None     # the GoingUpEvent, kept by a listener (public way to take a deferral later)
    self.took = set()             # "launch" / "late": deferrals were taken outside GoingUp handlers
    self.ndeferral = 0
    self.next_wid = 0
    self.invocations = 0
    self.objects = {}             # (name, gen) -> object
    self.sinks = {}               # kind -> sink object (the one declared last)
    self.sink_n = {}              # kind -> number of listen_to_dependencies calls made for sinks of this kind
    self.sink_objs = {}           # wid -> sink object, while that declaration has not been verified as wired
    self.wid_ser = {}             # wid -> serial number of the sink object that declared it
    self.sink_how = {}            # wid -> how a sink kind came to be declared once more (see do_ltd)
    self.sink_out = {}            # wid -> "ok" / "failed": how the completion callback of that wiring ended
    self.nsinks = 0
    self.sink_deps = {}           # wid -> components the sink named in its listen_to_dependencies call
    self.sink_opts = {}           # kind -> {component: addListeners options requested (model)}
    self.probe_order = []         # call order within one probe raise: "ref" (harness listener) / (kind, comp)
    self.shared = {"set": set(P.SHARED_INIT), "list": list(P.SHARED_INIT)}   # one object each per execution
    self.sink_base = {}           # wid -> number of register calls before core wiring
    self.sink_crs = {}            # (kind, serial) -> ComponentRegistered deliveries to that sink object
    self.cr_log = []
    self.probing = False
    self.probe_hits = []
    self.cur_op = None
    self.depth = 0                # >0 while inside a callback (chained calls)
    self.chained = False
    self.check_from = 0
    self.decl = {}                # wid -> (form if no deps, ready when declared)
    self.parked = False           # a quit was issued during start-up
    self.cb_wid = {}              # id(callable) -> wid, for callables that cannot carry an attribute
    self.keep = []                # keeps those callables alive (ids stay unique)
    self.wkind = {}               # wid -> (callable kind, argument mode) where not the plain function
    self.injected = []            # exception objects raised on purpose by component listeners on core
    self.fault = None             # (event, exception class) a component listener failed with during the current operation
    self.reentry = None           # (event, action) a component listener called back into core during the current operation

  def boot (self):
    P = self.P
    core = P.core.POXCore(threaded_selecthub=False, handle_signals=False)
    P.core.core = core
    self.core = core
    sch = core.scheduler
    w = self
    def squit ():
      sch._hasQuit = True; sch._allDone = True; w.sched_quit += 1
    sch.quit = squit
    sch.callLater = lambda f, *a, **k: w.later.append((f, a, k))
    listen = self.prm.get("listeners")
    # with component listeners around, the observing listeners have to be ahead of them (a listener that fails or
    # halts the event ends its delivery: revent semantics, not constrained here)
    okw = dict(priority=10) if listen else {}
    for name, cls in (("GoingUp", P.core.GoingUpEvent), ("Up", P.core.UpEvent),
                      ("GoingDown", P.core.GoingDownEvent), ("Down", P.core.DownEvent)):
      core.addListener(cls, self._life(name), **okw)
    core.addListener(P.core.ComponentRegistered, self._on_cr, **okw)
    if listen:
      # component A: an object with _handle_<Event> methods, subscribed with core.addListeners(obj);
      # component B: plain functions subscribed by event name
      for slot, prio in LISTENER_SLOTS[:self.prm.get("nlisteners", 2)]:
        if slot == "A":
          body = dict(("_handle_" + P.LIFE[ev].__name__, self._listener(ev, slot, True)) for ev in listen)
          self.keep.append(type("ComponentA", (object,), body)())
          core.addListeners(self.keep[-1], priority=prio)
        else:
          for ev in listen:
            core.addListenerByName(P.LIFE[ev].__name__, self._listener(ev, slot, False), priority=prio)

  def note (self, fmt, *args):
    self.hist.append((fmt, args))

  def render (self):
    out = []
    for h in self.hist:
      if h[0] == "op": out.append(self.describe(h[1]))
      else: out.append(h[0] % h[1] if h[1] else h[0])
    return out

  def run_later (self):
    while self.later:
      f, a, k = self.later.pop(0)
      f(*a, **k)

  # ---- failure latch ------------------------------------------------------
  def fail (self, clause, text, feature=None):
    if self.violated is None:
      if feature is None: feature = self.feature()
      # an oracle clause that fails in an operation during which a component's listener on core failed / called
      # back into core names that circumstance (one defect of that kind = one key per clause)
      if self.fault: feature += ":%s-listener-raised-%s" % self.fault
      elif self.reentry: feature += ":%s-inside-%s-listener" % (self.reentry[1], self.reentry[0])
      self.violated = ("%s:%s:%s" % (PID, clause, feature), text)
      self.note("  !! %s: %s", clause, text)

  def feature (self):
    """Operation kind (for clauses about a core call that misbehaved as a whole)."""
    op = self.cur_op or ("?",)
    kind = {"reg": "register", "cwr": "call_when_ready", "ltd": "listen_to_dependencies",
            "goUp": "goUp", "release": "release", "take": "take-deferral", "quit": "quit",
            "thread": "quit-thread"}.get(op[0], op[0])
    if op[0] == "cwr" and op[1] == 0: kind += ":empty-" + op[2]
    return kind

  def subject (self, wid, trigger=False):
    """Who misbehaved: a plain callback or a dependency-driven sink; for a waiter that did
    not run also how it became ready."""
    s = "callback" if wid[0] == "w" else "sink"
    if trigger:
      form, ready = self.decl.get(wid, (None, False))
      if form is not None: s += ":empty-deps-" + form
      elif ready: s += ":ready-at-declaration"
      else: s += ":completed-by-register"
    if wid in self.sink_how: s += ":" + self.sink_how[wid]
    return s

  def swid (self, sink):
    return ("s", sink.kind, sink.n)

  def sink_feature (self, kind):
    """Sink class; says so when sinks of that class were declared more than once in this history."""
    return self.P.SINKS[kind][0] + (":declared-more-than-once" if self.sink_n.get(kind, 0) > 1 else "")

  def sink_name (self, kind):
    return self.P.SINKS[kind][0]

  def life_feature (self, clause="up"):
    if "down" in clause or clause == "quit-lost":
      return "quit-during-startup" if self.parked else "quit-after-startup"
    v = self.goup_variant
    if v is None: f = "before-goUp"
    elif "I" in v: f = "release-inside-handler"
    elif "L" in v: f = "release-after-goUp"
    else: f = "no-deferral"
    if self.took: f = "component-takes"       # deferrals also taken outside GoingUp handlers (launch / later stage)
    if "after-up" in self.took: f = "deferral-taken-after-up"     # ... even when there was nothing left to defer
    return f

  # ---- listeners on core ---------------------------------------------------
  def _life (self, name):
    def h (event):
      if name == "GoingUp": self.goingup_event = event
      self.oplog.append(("life", name))
      self.note("  event %s", name)
      err = self.model.observe(name)
      if err: self.fail(err[0], err[1], self.life_feature(err[0]))
    return h

  def _on_cr (self, event):
    ok = event.name in self.core.components and self.core.components[event.name] is event.component
    self.cr_log.append((event.name, getattr(event.component, "gen", None), ok))
    self.oplog.append(("cr", event.name))

  # ---- waiter callbacks ---------------------------------------------------
  def make_cb (self, wid, deps, ck="function", am="plain"):
    """The callback of waiter `wid` as a callable of kind ck, declared in argument mode am.
    Returns (callback, extra keyword arguments for call_when_ready)."""
    w = self
    if ck == "function" and am == "plain":
      def cb ():
        w.invoked(wid, deps)
      cb.c08 = wid
      cb.__name__ = "cb%d" % wid[1]
      return cb, {}
    args, kw = arg_mode(am, wid[1])
    exp = (tuple(args or ()), dict(kw or {}))
    def target (*a, **k):
      if (a, k) != exp:
        w.note("  waiter %s%s called with %r %r", wid[0], wid[1], a, k)
        w.fail("callback-arguments", "waiter %s was declared with args=%r kw=%r but its callback was called with %r %r"
               % (wid, args, kw, a, k), "callback")
      w.invoked(wid, deps)
    cb, pre = make_callable(ck, target, wid[1])
    self.cb_wid[id(cb) if not pre else id(pre[0])] = wid
    self.keep.append((cb, pre))
    extra = {}
    if pre or args is not None: extra["args"] = (pre + tuple(args or ())) if pre else args
    if kw is not None: extra["kw"] = kw
    if ck in NAMELESS: extra["name"] = "waiter-%d" % wid[1]    # nothing to derive a name from
    self.wkind[wid] = (ck, am)
    return cb, extra

  def wid_of_entry (self, e):
    """Which harness waiter a core._waiters entry belongs to (None: an entry made by core itself)."""
    wid = getattr(e[0], "c08", None)
    if wid is None: wid = self.cb_wid.get(id(e[0]))
    if wid is None and e[3]: wid = self.cb_wid.get(id(e[3][0]))
    return wid

  def invoked (self, wid, deps):
    self.invocations += 1
    reg = tuple(sorted(self.core.components))
    self.oplog.append(("cb", tuple(sorted(deps)), reg))
    self.note("  waiter %s%s runs, registry=%s", wid[0], wid[1], reg)
    err = self.model.invoked(wid, reg)
    if err:
      self.fail(err[0], err[1], self.subject(wid)); return
    if self.violated or self.invocations > INVOCATION_LIMIT:
      if self.invocations > INVOCATION_LIMIT: self.fail("runaway", "more than %d callback invocations" % INVOCATION_LIMIT, self.subject(wid))
      return
    behs = ["none", "raise"]
    behs += ["reg:" + n for n in self.names if n not in self.model.comps]
    if len(self.model.pending) < self.prm["maxp"]:
      behs += ["cwr:" + n for n in self.names]
    b = behs[self.ctx.choose(len(behs), "beh")]
    if b == "none": return
    self.note("    -> %s", b)
    self.oplog.append(("beh", b.split(":")[0]))
    if b == "raise":
      raise ValueError("callback of waiter %s fails" % (wid,))
    self.depth += 1; self.chained = True
    try:
      if b.startswith("reg:"):
        self.do_register(b[4:])
      else:
        self.do_cwr([b[4:]], "str")
    except Exception as e:
      if self.is_injected(e): raise            # a listener's failure passes through the callback like any other error
      self.fail("raises", "chained %s raised %s: %s" % (b, type(e).__name__, e),
                ("register" if b.startswith("reg:") else "call_when_ready") + ":" + site_of(self.P, e))
    finally:
      self.depth -= 1

  # ---- component listeners on core's own events ------------------------------
  def is_injected (self, e):
    return any(e is x for x in self.injected)

  def _listener (self, ev, slot, method):
    w = self
    if method:
      def h (self_, event): return w.listener_runs(ev, slot)
    else:
      def h (event): return w.listener_runs(ev, slot)
    return h

  def listener_runs (self, ev, slot):
    """A component's listener for one of core's own events is called: it returns, fails, halts the event or calls
    back into core (quit / register / call_when_ready) - one choice per call."""
    prm = self.prm
    if self.violated: return
    self.invocations += 1
    if self.invocations > INVOCATION_LIMIT:
      self.fail("runaway", "more than %d callback invocations" % INVOCATION_LIMIT, "listener"); return
    behs = ["none"] + ["raise:" + k for k in prm["lfaults"]] + ["halt"]
    if self.quits < 2 and not prm.get("noquit"): behs.append("quit")
    behs += ["reg:" + n for n in self.names if n not in self.model.comps]
    if len(self.model.pending) < prm["maxp"]:
      behs += ["cwr:" + n for n in self.names]
    b = behs[self.ctx.choose(len(behs), "lbeh")]
    if b == "none": return
    self.note("  component %s's %s listener -> %s", slot, ev, b)
    self.oplog.append(("lbeh", ev, slot, b))
    if b == "halt": return True
    if b.startswith("raise:"): self.raise_fault(ev, b[6:])
    self.reentry = (ev, {"quit": "quit", "reg": "register", "cwr": "call_when_ready"}[b.split(":")[0]])
    self.depth += 1; self.chained = True
    try:
      if b == "quit": self.do_quit()
      elif b.startswith("reg:"): self.do_register(b[4:])
      else: self.do_cwr([b[4:]], "str")
    except BaseException as e:
      if self.is_injected(e) or not isinstance(e, Exception): raise     # (self.fault names the listener that raised it)
      self.fail("raises", "%s inside a %s listener raised %s" % (b, ev, _txt(e)),
                self.reentry[1] + ":" + site_of(self.P, e))
    finally:
      self.depth -= 1

  def fault_class (self, e):
    return ("ReventError" if isinstance(e, self.P.rv.ReventError) else
            "Exception" if isinstance(e, Exception) else "BaseException")

  def raise_fault (self, ev, kind):
    P = self.P
    try:
      if kind == "ReventError:undeclared-event":         # the handler announces an event its class never declared
        P.Comp("store", 0).raiseEvent(P.Undeclared())
      elif kind == "ReventError:unknown-event-name":     # the handler subscribes to an event core does not have
        self.core.addListenerByName("NoSuchEvent", lambda e: None)
      elif kind == "ReventError": raise P.rv.ReventError("listener fails on purpose")
      elif kind == "ReventError-subclass": raise P.ReventSub("listener fails on purpose")
      elif kind == "bad-str": raise _BadStr()
      elif kind == "SystemExit": raise SystemExit(3)
      elif kind == "KeyboardInterrupt": raise KeyboardInterrupt()
      else: raise _EXC[kind]("listener fails on purpose")
    except BaseException as e:
      self.injected.append(e)
      self.fault = (ev, self.fault_class(e))
      raise
    raise RuntimeError("harness: listener fault %r did not raise" % (kind,))

  # ---- sinks -----------------------------------------------------------------
  def sink_hit (self, sink, comp):
    if self.probing:
      self.probe_hits.append((self.probe_target, sink.kind, sink.ser, comp))
      self.probe_order.append((sink.kind, comp))
    else:
      self.fail("sink-spurious-event", "sink %s got an event of %s outside a probe" % (sink.kind, comp), self.sink_name(sink.kind))

  def sink_cr (self, sink, event):
    self.sink_crs[(sink.kind, sink.ser)] = self.sink_crs.get((sink.kind, sink.ser), 0) + 1

  def sink_ready (self, sink):
    P = self.P
    name, cls, deps, handled, adm, kw = P.SINKS[sink.kind]
    self.invocations += 1
    reg = tuple(sorted(self.core.components))
    self.oplog.append(("wired", name, reg))
    self.note("  sink %s wired, registry=%s", name, reg)
    wid = self.swid(sink)
    err = self.model.invoked(wid, reg)
    if err:
      self.fail(err[0], err[1], self.subject(wid)); return
    self.sink_base[wid] = len(self.model.reg_calls)
    self.sink_out[wid] = "ok"
    self.check_attrs(sink)
    if self.violated or self.invocations > INVOCATION_LIMIT: return
    b = self.ctx.choose(2, "sinkbeh")
    if b:
      self.note("    -> raise"); self.oplog.append(("beh", "raise"))
      self.sink_out[wid] = "failed"
      raise ValueError("_all_dependencies_met of %s fails" % name)

  def check_attrs (self, sink):
    name, cls, deps, handled, adm, kw = self.P.SINKS[sink.kind]
    if getattr(cls, "c08_broken", False): return
    for d in sorted(self.sink_deps[self.swid(sink)]):
      an = d if kw.get("short_attrs") else "_%s_" % d
      got = getattr(sink, an, None)
      if got is None or got is not self.core.components.get(d):
        self.fail("sink-attr", "sink %s: attribute %s is %s, but component %s is registered"
                  % (name, an, "missing" if got is None else "another object", d),
                  "short_attrs" if kw.get("short_attrs") else "attrs")

  def probe (self):
    """Raise Ev on every component object ever registered; exactly the sinks the model
    considers wired to that object must be called, once each."""
    P = self.P
    self.probing = True; self.probe_hits = []
    orders = {}
    try:
      for key in sorted(self.objects):
        obj = self.objects[key]
        if not isinstance(obj, P.Comp): continue
        self.probe_target = key
        self.probe_order = []
        try:
          obj.raiseEvent(P.Ev())
        except Exception as e:
          self.fail("raises", "probe raise on %s failed: %r" % (key, e), "probe:" + site_of(P, e))
        orders[key] = self.probe_order
    finally:
      self.probing = False
    expected = []
    for wid, bound in self.model.fired.items():
      if wid[0] != "s": continue
      for comp in P.SINKS[wid[1]][3]:
        # a handler is wired iff the component object bound at wiring time raises Ev (declared event set);
        # for any other kind of object (empty set, plain object, ...) there is nothing to wire
        if isinstance(self.objects.get((comp, bound[comp])), P.Comp):
          expected.append(((comp, bound[comp]), wid[1], self.wid_ser[wid], comp))
    got = sorted(self.probe_hits); expected.sort()
    # a handler is called once per event; where ONE sink object was wired to the same component object by several
    # of its declarations (a retry after its completion callback failed) once per wiring at most
    dup = sorted(x for x in set(got) if got.count(x) > max(1, expected.count(x)))
    extra = [x for x in got if x not in expected]
    missing = [x for x in expected if x not in got]
    if dup or extra or missing:
      if dup: x = dup[0]; what = "duplicate"
      elif extra:
        x = extra[0]
        wids = [wid for wid, ser in self.wid_ser.items() if wid[1] == x[1] and ser == x[2]]
        what = ("wrong-object" if any(wid in self.model.fired for wid in wids) else
                "early" if any(wid in self.model.pending for wid in wids) else "undeclared")
      else: x = missing[0]; what = "missing"
      self.fail("sink-wiring-" + what,
                "probing component objects: handlers called %s, expected %s (component object, sink class, "
                "sink object, component)" % (got, expected), self.sink_feature(x[1]))
    if self.violated is None:
      # requested priority, relative to the harness' own listener (priority 0, subscribed when the object was made):
      # a handler asked for with a higher priority runs before it, any other one after it
      for key, order in sorted(orders.items()):
        if order.count("ref") != 1:
          self.fail("harness-ref-listener", "reference listener ran %d times" % order.count("ref"), "probe"); break
        r = order.index("ref")
        for i, item in enumerate(order):
          if item == "ref": continue
          kind, comp = item
          prio = self.sink_opts[kind][comp]["priority"]
          if (i < r) != (prio > 0):
            self.fail("sink-wiring-priority",
                      "event of %s: call order %s; sink %s asked for priority %d on %s (reference listener has 0)"
                      % (key, order, P.SINKS[kind][0], prio, comp), self.sink_feature(kind))
    per_obj = {}                                 # sink object wired to core -> [registrations since, per wiring]
    for wid, base in self.sink_base.items():
      if "core" in self.sink_deps[wid]:
        per_obj.setdefault((wid[1], self.wid_ser[wid]), []).append(len(self.model.reg_calls) - base)
    for (kind, ser), since in sorted(per_obj.items()):
      n = self.sink_crs.get((kind, ser), 0)      # (several wirings of one object: once per registration at least)
      if not max(since) <= n <= sum(since):
        self.fail("sink-core-events", "sink %s wired to core saw %d ComponentRegistered, %s registrations since its wiring(s)"
                  % (P.SINKS[kind][0], n, since), self.sink_feature(kind))

  # ---- calls into core ---------------------------------------------------
  def do_register (self, name, kind=None):
    g = self.model.register(name)
    if kind is None: kind = "plain" if name == "qux" else "events"
    obj = self.P.KINDS[kind](name, g)
    self.objects[(name, g)] = obj
    if isinstance(obj, self.P.Comp):
      obj.addListener(self.P.Ev, self._ref_listener)       # priority 0, first subscriber
    self.calls += 1
    self.core.register(name, obj)

  def _ref_listener (self, event):
    if self.probing: self.probe_order.append("ref")

  def do_cwr (self, deps, form, ck="function", am="plain"):
    wid = ("w", self.next_wid); self.next_wid += 1
    self.decl[wid] = ((form if not deps else None), self.model.ready(deps))
    self.model.declare(wid, deps)
    cb, extra = self.make_cb(wid, deps, ck, am)
    if form == "str": arg = deps[0]
    elif form == "list": arg = list(deps)
    elif form == "tuple": arg = tuple(deps)
    elif form == "set": arg = set(deps)
    self.calls += 1
    if form == "list" and not deps and self.prm.get("default_arg", True):
      self.core.call_when_ready(cb, **extra)      # the documented default: components=[]
    else:
      self.core.call_when_ready(cb, arg, **extra)

  def do_ltd (self, kind, how=None):
    """listen_to_dependencies for a sink of class `kind`.  Where the configuration allows a class to be declared
    more than once: how == "fresh": ANOTHER object of that class declares its interest (the previous one may still
    be waiting, be wired, or have failed in its completion callback) and the dependent keeps the previous one;
    how == "reuse": the previous object is not waiting any more and is dropped first; if that freed it (no component
    holds it as its listener), the new object is the one the allocator places at ITS ADDRESS (where a new object
    lives is enumerated, never left to chance: no other sink object is freed during an execution); how == "again": the SAME
    object declares its interest once more after its completion callback failed (a retry).  Every declaration is a
    waiter of its own: its wiring runs exactly once, when its components are there."""
    name, cls, deps, handled, adm, kw = self.P.SINKS[kind]
    n = self.sink_n.get(kind, 0); self.sink_n[kind] = n + 1
    wid = ("s", kind, n)
    if how is not None:
      prev = ("s", kind, n - 1)
      self.sink_how[wid] = ("same-sink-again-after-failed-wiring" if how == "again" else "another-sink-of-the-class-" +
                            ("while-first-waits" if prev in self.model.pending else
                             "after-failed-wiring" if self.sink_out.get(prev) == "failed" else "after-wiring"))
    if how == "again":
      sink = self.sinks[kind]
      sink.n = n
    else:
      target = None
      if how == "reuse":                         # (a finished declaration is not in sink_objs any more)
        old = self.sinks.pop(kind)
        target = id(old); alive = weakref.ref(old)
        del old
        if alive() is not None: target = None    # components hold it as their listener: nothing was freed
      sink = _allocate(cls, target)
      sink.__init__(self, kind, self.nsinks); self.nsinks += 1
      if target is not None: self.note("  (the new sink object lives at the address of the dropped one: %s)", id(sink) == target)
      sink.n = n
      if kind in self.sinks: self.keep.append(self.sinks[kind])
      self.sinks[kind] = sink
    self.sink_objs[wid] = sink
    self.wid_ser[wid] = sink.ser
    kw = dict(kw)
    la = kw.get("listen_args")
    if la is not None:                           # a fresh dict per call (the call consumes the wildcard entry)
      kw["listen_args"] = dict((k, dict(v)) for k, v in la.items())
    self.sink_opts[kind] = dict((c, Model.listen_options(la, c)) for c in handled)      # (same for every object of the class)
    arg = kw.get("components")
    form = None
    if isinstance(arg, tuple) and arg[0] == "shared":
      form = arg[1]
      arg = kw["components"] = self.shared[form]       # the SAME object for every sink kind of this form
    before = _snap(arg)
    # the components this sink names in THIS call: explicit argument (value now) + its own handler names
    mine = Model.sink_deps(arg, _handler_comps(self.P.SINKS[kind]))
    self.sink_deps[wid] = mine
    self.decl[wid] = (None, self.model.ready(mine))
    self.model.declare(wid, mine, silent=not adm)
    self.calls += 1
    try:
      self.core.listen_to_dependencies(sink, **kw)
    finally:
      if _snap(arg) != before:
        self.note("  caller's components object: %s -> %s", before, _snap(arg))
        self.fail("caller-components-modified",
                  "listen_to_dependencies(%s, components=%s) changed the caller's object to %s (it is reused for "
                  "the next sink, which then waits for components it never named)" % (name, before, _snap(arg)),
                  "listen_to_dependencies:" + type(arg).__name__)

  def do_goup (self, variant):
    P = self.P
    self.goup_variant = variant
    for code in variant:
      self.core.addListener(P.core.GoingUpEvent, self._goup_handler(code))
    self.model.begin_goup()
    self.calls += 1
    try:
      self.core.goUp()
    except BaseException:
      self.model.abort_goup()                  # goUp did not return: nothing is demanded of a start-up that failed
      raise
    self.model.end_goup()

  def _goup_handler (self, code):
    def h (event):
      d = event.get_deferral()
      idx = self.ndeferral; self.ndeferral += 1
      self.model.take(idx)
      self.oplog.append(("defer", code))
      if code == "I":
        self.note("  GoingUp handler takes a deferral and releases it at once")
        self.model.release(idx)
        d()
      else:
        self.note("  GoingUp handler takes a deferral (released later)")
        self.deferrals.append((idx, d, "h"))
    return h

  def do_take (self, holder):
    """Component `holder` takes a deferral outside a GoingUp handler: while launching (before goUp) or as the
    next stage of its start-up after goUp returned (through the GoingUpEvent it kept)."""
    self.took.add("launch" if self.model.starting else "after-up" if "Up" in self.model.log else "late")
    self.calls += 1
    if self.goingup_event is not None: d = self.goingup_event.get_deferral()
    else: d = self.core._get_go_up_deferral()
    idx = self.ndeferral; self.ndeferral += 1
    self.model.take(idx)
    self.deferrals.append((idx, d, holder))

  def do_release (self, j):
    idx, d, holder = self.deferrals.pop(j)
    self.model.release(idx)
    self.calls += 1
    d()

  def do_quit (self):
    self.quits += 1
    if self.model.starting: self.parked = True
    self.model.quit_called()
    self.calls += 1
    self.core.quit()

  def do_thread (self):
    t = self.threads.pop(0)
    self.model.thread_runs()
    self.calls += 1
    t.run_body()

  # ---- top level ------------------------------------------------------------
  def ops (self):
    prm = self.prm
    st = prm.get("_static")
    if st is None:
      regs = [("reg", n) for n in self.names]
      regs += [("reg", n, k) for n in self.names for k in prm.get("kinds", ())]   # other kinds of component object
      cwrs = []
      forms = prm["forms"]
      only = prm.get("cwr_masks")               # optional restriction of the waiter alphabet
      for mask in range(1, 1 << self.nc):
        if only is not None and mask not in only: continue
        single = (mask & (mask - 1)) == 0
        for form in (forms[0] if single else forms[1]):
          cwrs.append(("cwr", mask, form))
      if only is None:
        for form in ("set", "list", "tuple"):
          cwrs.append(("cwr", 0, form))
      # the same declarations with the callback being another kind of callable / taking declared arguments
      for mask in range(0, 1 << self.nc):
        if only is not None and mask not in only: continue
        single = (mask & (mask - 1)) == 0
        for ck, am in prm.get("callables", ()):
          cwrs.append(("cwr", mask, "list" if not mask else (forms[0] if single else forms[1])[0], ck, am))
      st = prm["_static"] = (regs, cwrs, [("goUp", v) for v in prm["goup"]])
    ops = list(st[0])
    if len(self.model.pending) < prm["maxp"]:
      ops += st[1]
      for kind in prm["sinks"]:
        if kind not in self.sinks: ops.append(("ltd", kind))
        elif self.sink_n[kind] < prm.get("resink", 1):
          last = ("s", kind, self.sink_n[kind] - 1)
          ops.append(("ltd", kind, "fresh"))
          if last not in self.model.pending: ops.append(("ltd", kind, "reuse"))
          if self.sink_out.get(last) == "failed": ops.append(("ltd", kind, "again"))
    if self.model.starting: ops += st[2]
    # (where not stated otherwise components defer start-up only while the system is not up yet)
    if "Up" not in self.model.log or prm.get("take_after_up"):
      for c in range(prm.get("takers", 0)):
        if sum(1 for x in self.deferrals if x[2] == c) < prm["hold_max"]: ops.append(("take", c))
    for j in range(len(self.deferrals)):
      if self.model.starting and not prm.get("pre_release", True): break
      ops.append(("release", j))
    if self.quits < 2 and not prm.get("noquit"): ops.append(("quit",))
    if self.threads: ops.append(("thread",))
    return ops

  def describe (self, op):
    if op[0] == "cwr":
      return "call_when_ready(cb, %s as %s)%s" % ([n for i, n in enumerate(self.names) if op[1] >> i & 1], op[2],
             " [cb is a %s, arguments: %s]" % (op[3], op[4]) if len(op) > 3 else "")
    if op[0] == "ltd":
      return "listen_to_dependencies(%s)" % self.P.SINKS[op[1]][0] + (
        "" if len(op) < 3 else " by the SAME object once more" if op[2] == "again" else
        " by ANOTHER object of that class" + ("; the dependent dropped the previous one before it made the new one"
                                              if op[2] == "reuse" else ""))
    if op[0] == "reg": return "register(%s)" % op[1] + (" as %s object" % op[2] if len(op) > 2 else "")
    if op[0] == "goUp": return "goUp() with GoingUp handlers %r" % (op[1],)
    if op[0] == "release": return "release outstanding deferral #%d" % op[1]
    if op[0] == "take": return "component %d takes a deferral (%s)" % (op[1], "outside a GoingUp handler")
    if op[0] == "thread": return "thread spawned by quit() runs"
    return "quit()"

  def do_op (self, op):
    self.cur_op = op; self.oplog = []; self.chained = False; self.calls = 0
    self.fault = None; self.reentry = None
    self.nops += 1
    self.hist.append(("op", op))
    try:
      k = op[0]
      if k == "reg": self.do_register(op[1], op[2] if len(op) > 2 else None)
      elif k == "cwr":
        self.do_cwr([n for i, n in enumerate(self.names) if op[1] >> i & 1], op[2], *op[3:])
      elif k == "ltd": self.do_ltd(op[1], *op[2:])
      elif k == "goUp": self.do_goup(op[1])
      elif k == "release": self.do_release(op[1])
      elif k == "take": self.do_take(op[1])
      elif k == "quit": self.do_quit()
      elif k == "thread": self.do_thread()
    except BaseException as e:
      if self.is_injected(e):
        # the failure of a component's listener came out of the call: by itself not constrained (the statement
        # speaks of what is raised and run, which the clauses below check)
        self.note("  (the listener's %s comes out of the call)", type(e).__name__)
        self.oplog.append(("escaped", type(e).__name__))
      elif isinstance(e, Exception):
        self.fail("raises", "%s raised %s: %s" % (self.describe(op), type(e).__name__, e),
                  self.feature() + ":" + site_of(self.P, e))
      else: raise
    if self.violated is None: self.end_of_op()
    for wid in [x for x in self.sink_objs if x in self.model.fired]:
      del self.sink_objs[wid]                     # wired: from now on the harness holds the LATEST object of a class only

  def end_of_op (self):
    m = self.model
    errs, auto = m.quiescent()
    for wid in auto:
      self.note("  (model: sink %s must be wired now)", self.P.SINKS[wid[1]][0])
      if getattr(self.P.SINKS[wid[1]][1], "c08_broken", False): self.sink_out[wid] = "failed"
    for c, t, wid in errs:
      self.fail(c, t, self.subject(wid, True)); return
    exp = [(n, g, True) for (n, g) in m.reg_calls]
    if self.cr_log != exp:
      self.fail("component-registered-event", "ComponentRegistered log %s, registrations %s" % (self.cr_log, exp), "mismatch"); return
    for c, t in m.end_of_op():
      self.fail(c, t, self.life_feature(c)); return
    if m.starting and m.quit_pending and not self.threads:
      self.fail("quit-lost", "quit() during start-up left nothing behind to retry it", self.life_feature("quit-lost")); return
    if self.nops <= self.check_from: return     # replayed prefix: already probed when it was new
    self.probe()
    if self.violated: return
    for wid in auto:
      self.check_attrs(self.sink_objs[wid])

  # ---- canonical state (state matching) ----------------------------------
  def canon_val (self, x, depth=0):
    """Canonical, history-independent rendering of a value held by the core (entry fields, closure cells)."""
    P = self.P
    if x is None or isinstance(x, (str, int, float, bool)): return x
    if depth > 4: return type(x).__name__
    if isinstance(x, (set, frozenset)): return ("set", tuple(sorted((self.canon_val(v, depth + 1) for v in x), key=repr)))
    if isinstance(x, (list, tuple)): return (type(x).__name__, tuple(self.canon_val(v, depth + 1) for v in x))
    if isinstance(x, dict):
      return ("dict", tuple(sorted(((repr(k), self.canon_val(v, depth + 1)) for k, v in x.items()), key=repr)))
    if isinstance(x, P.SinkBase): return ("sink", x.kind)
    if x is self.core: return "core"
    if type(x) in P.KIND_OF: return ("component", x.name, P.KIND_OF[type(x)], self.model.comps.get(x.name) == x.gen)
    if getattr(x, "c08", None) is not None: return ("w", tuple(sorted(self.model.declared[x.c08])))
    if hasattr(x, "__closure__") and hasattr(x, "__code__"):
      cells = []
      for name, cell in zip(x.__code__.co_freevars, x.__closure__ or ()):
        try: v = cell.cell_contents
        except ValueError: v = "<empty>"
        cells.append((name, self.canon_val(v, depth + 1)))
      return ("function", x.__code__.co_name, tuple(cells))
    return type(x).__name__

  def canon (self):
    core = self.core; P = self.P
    ws = []
    for e in core._waiters:
      wid = self.wid_of_entry(e)
      if wid is not None:
        ws.append(("w", tuple(sorted(self.model.declared[wid]))) + self.wkind.get(wid, ()))
      else:
        # an entry made by core itself (listen_to_dependencies): everything it carries, including what its
        # callback closes over - two histories only merge if that hidden state agrees too
        ws.append(tuple(self.canon_val(x) for x in e))
    sinks = []
    again = self.prm.get("resink", 1) > 1
    for kind in self.prm["sinks"]:
      # per declaration made for this class: waiting / wired to which (current? kind of) component objects; where a
      # class may be declared again also which of its objects declared and how its completion callback ended (that
      # decides which operations are possible next, and a failed wiring may leave its own traces in the core)
      ds = []
      sers = sorted(set(self.wid_ser[("s", kind, n)] for n in range(self.sink_n.get(kind, 0))))
      for n in range(self.sink_n.get(kind, 0)):
        wid = ("s", kind, n)
        if wid in self.model.fired:
          b = self.model.fired[wid]
          st = (2, tuple((b[c] == self.model.comps.get(c, 0), P.KIND_OF.get(type(self.objects.get((c, b[c])))))
                         for c in sorted(b) if c != "core"))
        else: st = 1
        ds.append((st, sers.index(self.wid_ser[wid]), self.sink_out.get(wid)) if again else st)
      sinks.append(tuple(ds))
    return (tuple(sorted((n, P.KIND_OF.get(type(o))) for n, o in core.components.items())), tuple(ws),
            core.running, core.starting_up, len(core._go_up_deferrals), core.scheduler._hasQuit,
            tuple(x[2] for x in self.deferrals),
            tuple(sorted(repr(t) if isinstance(t, (int, str, tuple, float)) else "o" for t in core._go_up_deferrals)),
            len(self.threads), self.quits, len(self.later),
            tuple(sinks), tuple(sorted(self.shared["set"])), tuple(self.shared["list"]), self.model.canon(),
            self.core_rest())

  # attributes of a POXCore object that are rendered field by field above, or never change during an execution
  CORE_ATTRS = frozenset(("_eventMixin_handlers", "_eventMixin_initialized", "_eventMixin_prioritized",
                          "_go_up_deferrals", "_handle_signals", "_openflow_wanted", "_quit_lock", "_waiters",
                          "components", "debug", "quit_condition", "running", "scheduler", "starting_up"))

  def core_rest (self):
    """Whatever ELSE the core object holds (state this harness does not know by name): rendered generically, numbers
    that are the id() of a live harness object as that object.  Two histories only merge if this agrees too."""
    rest = [k for k in vars(self.core) if k not in self.CORE_ATTRS]
    if not rest: return ()
    ids = {}
    for o in list(self.sinks.values()) + list(self.sink_objs.values()) + list(self.objects.values()):
      ids[id(o)] = o
    for e in self.core._waiters:
      for x in (e[0],) + tuple(e[3]): ids.setdefault(id(x), x)
    def val (x, depth=0):
      if isinstance(x, int) and not isinstance(x, bool) and x in ids: return ("id-of", self.canon_val(ids[x]))
      if depth < 4 and isinstance(x, (set, frozenset)): return ("set", tuple(sorted((val(v, depth + 1) for v in x), key=repr)))
      if depth < 4 and isinstance(x, (list, tuple)): return (type(x).__name__, tuple(val(v, depth + 1) for v in x))
      if depth < 4 and isinstance(x, dict):
        return ("dict", tuple(sorted(((val(k, depth + 1), val(v, depth + 1)) for k, v in x.items()), key=repr)))
      return self.canon_val(x, depth)
    return tuple((k, val(vars(self.core)[k])) for k in sorted(rest))


def make_run (P, prm, limit, check_from=0):
  def run (ctx):
    w = World(P, ctx, prm)
    w.check_from = check_from
    with Env(w):
      w.boot()
      for step in range(limit):
        ops = w.ops()
        i = ctx.choose(len(ops) + 1, "op", costly=False)
        if i == 0: break
        w.do_op(ops[i - 1])
        if w.violated: break
    return w
  return run


# ---------------------------------------------------------------------------------------
# breadth-first over canonical states; explore() enumerates one-operation successors
# ---------------------------------------------------------------------------------------
def params (cfg):
  """One or more alphabets/bounds; each is explored completely."""
  q = dict(nc=3, maxp=3, depth=5, dev=2, sinks=[0, 1, 2, 3, 4], goup=GOUP_VARIANTS,
           forms=(("str",), ("list",)))
  # sinks that pass ONE shared collection object (a set, a list) as `components=`, next to a sink with a private
  # argument and plain waiters on single components; life-cycle reduced to a plain goUp (no interaction with the argument)
  shared = dict(nc=3, maxp=cfg.pick(3, 4), depth=cfg.pick(5, 6), dev=1, sinks=[6, 7, 8, 9, 3], goup=[""], noquit=True,
                cwr_masks=cfg.pick([2, 4], [1, 2, 4]), forms=(("str",), ("list",)))
  # start-up deferrals: every take / release / goUp history; components take deferrals while launching, in GoingUp
  # handlers and as later stages after goUp returned (non-monotone: new ones while others are outstanding)
  defer = dict(nc=0, maxp=0, depth=cfg.pick(7, 8), dev=0, sinks=[], goup=GOUP_VARIANTS, noquit=True, cwr_masks=[],
               takers=2, hold_max=3, take_after_up=True, forms=(("str",), ("list",)))
  # listen_args dimension of the dependency wiring: wildcard / wildcard + own entry / own entries / none, on sinks
  # with two and three event-raising dependencies; every order of declaration and (re-)registration
  wiring = dict(nc=3, maxp=3, depth=cfg.pick(6, 7), dev=1, sinks=[10, 11, 12, 13, 2], goup=[""], noquit=True,
                cwr_masks=[4], forms=(("str",), ("list",)))
  # kinds of component object a sink may name: raises events / EventMixin with an empty event set / plain object, by
  # handler name and by explicit list.  (Kinds "any" = `_eventMixin_events = True` and "undeclared" = class default None
  # exist as well; on the current tree both make revent.autoBindEvents raise TypeError inside done(), reported to the lead.)
  kinds = dict(nc=3, maxp=2, depth=5, dev=1, sinks=[14, 3, 2, 0, 10], goup=[""], noquit=True, cwr_masks=[4],
               kinds=["empty", "plain", "any", "undeclared"],
               forms=(("str",), ("list",)))
  # kinds of CALLABLE a dependent declares (the callback need not be a plain function: bound method, functools.partial,
  # object with __call__, builtin, class) and declarations that carry args= / kw= for the callback, next to plain
  # waiters and one sink; every such waiter may return / raise / register / declare like any other
  # (the full product kind x name x arguments x ending x order x position x forms is the lattice in callable_part)
  callables = dict(nc=2, maxp=cfg.pick(2, 3), depth=5, dev=2, sinks=[0], goup=[""], noquit=True,
                   forms=(("str",), ("list",)),
                   callables=[(ck, "plain") for ck in BFS_CALLABLES] + [("function", "both")])
  # components that LISTEN to core's own events (GoingUp, Up, GoingDown, Down, ComponentRegistered): two per event, one
  # ahead of and one behind the deferral-taking GoingUp handlers; whenever one is called it returns / fails (every
  # fault kind) / halts the event / calls quit() / registers a component / declares a waiter.  The harness' observing
  # listeners are ahead of both.
  listeners = dict(nc=2, maxp=2, depth=5, dev=cfg.pick(1, 2), sinks=[0, 2], goup=["", "L", "I"],
                   cwr_masks=[1, 3], forms=(("str",), ("list",)),
                   listeners=list(LISTENER_EVENTS), nlisteners=2,
                   lfaults=list(cfg.pick(LISTENER_FAULTS_Q, LISTENER_FAULTS_T)))
  # the same with TWO non-default picks per history (a listener calls quit() and another one fails inside that quit; two
  # listeners fail; a waiter callback registers a component whose announcement fails ...) on a smaller alphabet
  listeners2 = dict(listeners, nc=1, maxp=1, depth=cfg.pick(5, 6), dev=2, sinks=[0], goup=["", "L"], cwr_masks=[1])
  # a sink class declared MORE THAN ONCE in a history: another object of the class while the first still waits / after
  # it was wired / after its completion callback failed (the dependent then drops the old object, so the new one may
  # well live at the same address), and the same object once more after its completion callback failed (a retry);
  # components that raise events (they keep a wired sink alive as their listener) and plain ones (they do not)
  resink = dict(nc=2, maxp=2, depth=5, dev=2, sinks=[1, 0, 2, 15], goup=[""], noquit=True, cwr_masks=[2],
                kinds=["plain"], resink=cfg.pick(2, 3), forms=(("str",), ("list",)))
  for label, p in (("q", q), ("shared", shared), ("defer", defer), ("wiring", wiring), ("kinds", kinds),
                   ("callables", callables), ("listeners", listeners), ("listeners2", listeners2), ("resink", resink)):
    p["_label"] = label
  if cfg.quick: return [q, shared, defer, wiring, kinds, callables, listeners, listeners2, resink]
  deep = dict(q, maxp=4, depth=6, _label="deep")
  wide = dict(nc=4, maxp=5, depth=4, dev=3, sinks=[0, 1, 2, 3, 4, 5], goup=GOUP_VARIANTS,
              forms=(("str", "list"), ("list", "tuple", "set")), _label="wide")
  return [deep, wide, shared, defer, wiring, dict(kinds, depth=6, maxp=3), callables, dict(listeners, depth=6), listeners2,
          dict(resink, depth=6)]


def public (prm):
  return dict((k, v) for k, v in prm.items() if not k.startswith("_"))


def _expand (args):
  prm, level, last, batch = args
  P = _import()
  rep = Report(PID, "model_checking")
  run = make_run(P, prm, level + 1, level)
  succ = []
  t0 = time.process_time()
  def on_exec (ctx, w):
    if w.nops <= level: return            # the representative itself
    rep.evaluations += 1
    rep.transitions += w.calls
    rep.outcome((w.cur_op, tuple(w.oplog), w.violated and w.violated[0]))
    if w.violated:
      key, text = w.violated
      rep.violation(key, text, dict(choices=ctx.choices(), prm=public(prm), history=w.render()))
      return
    st = digest(w.canon())
    rep.state(st)
    if not last:
      used = sum(1 for (c, n, l, costly) in ctx.trace if costly and c)
      succ.append((st, used, ctx.choices()))
    if len(rep.samples) < 2 and (rep.evaluations % 997) == 1 and level >= 2:
      rep.sample(dict(history=w.render()))
  for choices in batch:
    explore(run, dev_bound=prm["dev"], prefix0=choices, on_exec=on_exec)
  rep.extra["worker_cpu_ms"] = int((time.process_time() - t0) * 1000)
  return rep, succ


LATTICE_RULE = (
  " || name-collision lattices: a component whose name is also an attribute of the core object %s (+ an ordinary "
  "name for the sink lattice): (a) call_when_ready x declaration form x order; (b) listen_to_dependencies with the "
  "component named by %s x %s x component object %s x order: the wiring runs once, not before the component is "
  "REGISTERED, the attribute set on the sink is the registered object, an event it raises reaches the handler once, an "
  "unrelated registration runs nothing."
  " || API-form lattice (full product, one fresh core per case): a waiter whose callback is a callable of kind %s "
  "(builtin-method = list.append: args forms and `return` only; none = callback None: `return` only) x waiter name "
  "%s x declared arguments %s x how the callback ends %s x %s x its position among %d waiters for the same component "
  "(the others are plain functions) x form of its components argument %s x form of the registration %s; then an "
  "unrelated component is registered.  Reference: no call into core raises; each waiter runs exactly once, during "
  "the call that completes its components (its own declaration if complete), with them registered, with the "
  "arguments it declared; nothing runs at the unrelated registration. "
  "|| shared-callable lattice: ONE callable of kind %s handed to two declarations that differ in %s, callback ends "
  "%s, every permutation of {declare 1, declare 2, register x, register y}: two waiters, each runs once when its own "
  "components are there with its own arguments.")

RULE = ("breadth-first over canonical states of a real POXCore: every history of <=DEPTH operations from "
        "{register(c) incl. re-registration (object kinds: raises events; where stated also EventMixin with an empty event set / `True` / nothing declared, plain object - a sink naming them must still complete its wiring, handlers are wired only to objects that raise the event); call_when_ready(cb, every subset of the components in the given argument "
        "forms, the empty set as set()/default []/()); listen_to_dependencies(one of the sink classes: underscore "
        "component names, explicit components, short attrs, dependency on core, with/without completion callback, "
        "`components=` being ONE set / list object per execution shared by two sink kinds - the caller's object must "
        "be left as it was and each sink's dependency set is the argument's value at its own call plus its own "
        "handler names; listen_args with a wildcard entry {None: ...}, wildcard + own entry, own entries only, none - "
        "every _handle_<component>_<Event> method must be wired to exactly that component's object, with the "
        "requested priority relative to a reference listener); "
        "goUp with GoingUp handlers %s (I: deferral released inside the handler, L: released by a later operation, "
        "every order); a component taking a deferral outside a handler (while launching, or as a later start-up "
        "stage after goUp returned while others may be outstanding; only while the system is not up); release of any "
        "held deferral; quit (<=2); run of a thread spawned by quit()}, at most MAXP pending waiters; every "
        "waiter callback invoked picks one of {return, raise, register an unregistered component, declare a further "
        "waiter on one component}, sink completion callbacks {return, raise}, <=DEV non-default picks per history. "
        "Where stated the callback of a declared waiter is another KIND OF CALLABLE (bound method, functools.partial, "
        "object with __call__, builtin, class; a name= is given only where the callable has no __name__) or the "
        "declaration carries args=/kw= which the callback must receive; such a waiter has the same choices. "
        "Where stated COMPONENTS LISTEN TO CORE'S OWN EVENTS (GoingUp, Up, GoingDown, Down, ComponentRegistered): two "
        "listeners per event (A: object subscribed with core.addListeners, priority 5, ahead of the deferral-taking "
        "GoingUp handlers; B: functions subscribed by event name, priority -1, behind them; the observing listeners of "
        "the harness are ahead of both), and EVERY call of such a listener picks one of {return, fail with each of the "
        "stated fault kinds (ordinary Exception, Exception whose text cannot be produced, revent's own ReventError "
        "raised by revent for a misuse inside the handler / directly / as a subclass, SystemExit / KeyboardInterrupt), "
        "halt the event, call core.quit(), register an unregistered component, declare a further waiter}; these "
        "picks count as non-default picks.  A listener's exception that comes out of goUp / release / quit / register "
        "is by itself not a violation; the rendezvous and life-cycle clauses are demanded unchanged: GoingDown then "
        "Down once per effective quit and every ready waiter run by the end of the operation, whatever a listener did. "
        "Where stated A SINK CLASS IS DECLARED MORE THAN ONCE in a history: another object of the class while the first "
        "still waits / after it was wired / after its completion callback failed - made either while the dependent still "
        "holds the previous object, or after it dropped it, in which case (if no component holds the old one as its "
        "listener) the new object is the one the allocator places at the freed ADDRESS; and the same object once more "
        "after its completion callback failed (a retry).  Every declaration is a waiter of its own (wired exactly once, "
        "when its components are there; a handler of an object wired k times to one component object is called 1..k "
        "times per event).  Sink class S_ro cannot take the attribute core sets for its component: its wiring fails "
        "inside core's own callback before anything of the sink runs (only the other waiters are constrained then). "
        "Where stated a component takes a deferral also AFTER UpEvent (through the GoingUpEvent it kept) and releases "
        "it later: UpEvent stays raised exactly once. "
        "One representative history per distinct (state, fewest deviations) is extended; state = components, "
        "_waiters in order, running/starting_up/deferrals/scheduler flags, outstanding deferrals, parked quit threads, "
        "sink wiring incl. stale bindings (where a class may be declared again: per declaration, with the declaring "
        "object and how its completion callback ended), event log, model state, and generically every attribute of the "
        "core object not rendered by name (state the harness does not know of keeps histories apart). After every new operation every component object "
        "ever registered is probed with an event. distinct = (operation, observations, verdict) digests. "
        "Configurations: %s")


# ---------------------------------------------------------------------------------------
# component names that collide with attributes of the core object itself
# ---------------------------------------------------------------------------------------
COLLIDING = ("version", "scheduler", "debug", "running", "components", "starting_up", "log")

def collision_part (rep):
  out = sys.stdout; sys.stdout = _Null()       # (a new core prints its banner)
  try: _collision_part(rep)
  finally: sys.stdout = out


def _collision_part (rep):
  """A waiter naming a component whose name is also an attribute of POXCore ("version", "scheduler", ...) must
  still wait for that component to be REGISTERED (every name x declaration form x order)."""
  P = _import()
  for name in COLLIDING:
    for order in ("declare-first", "register-first"):
      for form in ("str", "list", "tuple", "set"):
        core = P.core.POXCore(threaded_selecthub=False, handle_signals=False)
        P.core.core = core
        calls = []
        cb = lambda: calls.append(sorted(core.components))
        deps = dict(str=name, list=[name], tuple=(name,), set=set([name]))[form]
        obj = object()
        bad = None
        try:
          if order == "declare-first":
            core.call_when_ready(cb, deps)
            if calls: bad = ("collision:fired-before-registered", "call_when_ready(cb, %r) ran the callback although no component %r is registered (the name is also an attribute of the core object)" % (deps, name))
            core.register(name, obj)
            if not bad and len(calls) != 1: bad = ("collision:not-fired-on-register", "register(%r) ran the waiting callback %d times" % (name, len(calls)))
          else:
            core.register(name, obj)
            core.call_when_ready(cb, deps)
            if len(calls) != 1: bad = ("collision:not-fired-at-declaration", "callback ran %d times although %r was already registered" % (len(calls), name))
          if not bad and calls and name not in calls[-1]:
            bad = ("collision:fired-without-component", "callback ran while %r was not among the registered components %r" % (name, calls[-1]))
        except Exception as e:
          bad = ("collision:raises:%s" % type(e).__name__, "%s with component name %r: %r" % (order, name, e))
        rep.evaluations += 1; rep.transitions += 2
        rep.outcome(("collision", name, order, form, bad and bad[0]))
        if bad:
          rep.violation("%s:%s" % (PID, bad[0]), bad[1] + " [%s, deps as %s]" % (order, form), dict(collision=dict(name=name, order=order, form=form)))


SINK_NAMING = ("handler", "explicit-str", "explicit-list", "handler+explicit")
SINK_ATTRS = ("attrs", "short_attrs", "no-attrs")
SINK_COMPONENT = ("events", "plain")

def sink_collision_case (P, case):
  """The same for dependency-driven wiring: a sink names (by a _handle_<name>_Ev method and / or explicitly) a
  component whose name is also an attribute of the core object.  Its wiring runs once, not before that component is
  REGISTERED, and it is wired to the registered object: the attribute it gets is that object, and an event raised
  by that object reaches its handler once."""
  name, order, naming, attrs, ckind = case
  core = P.core.POXCore(threaded_selecthub=False, handle_signals=False)
  P.core.core = core
  met, hits = [], []
  body = {"_all_dependencies_met": lambda self: met.append(name in core.components)}
  if "handler" in naming: body["_handle_%s_Ev" % name] = lambda self, e: hits.append(e)
  sink = type("CollidingSink", (object,), body)()
  kw = {}
  if "explicit" in naming: kw["components"] = [name] if naming == "explicit-list" else name
  if attrs == "short_attrs": kw["short_attrs"] = True
  elif attrs == "no-attrs": kw["attrs"] = False
  obj = P.KINDS[ckind](name, 0)
  bad = None
  try:
    if order == "declare-first":
      core.listen_to_dependencies(sink, **kw)
      if met: bad = ("wired-before-registered", "listen_to_dependencies ran the wiring although no component %r is registered" % (name,))
      core.register(name, obj)
      if not bad and len(met) != 1: bad = ("not-wired-on-register", "register(%r) ran the waiting sink's wiring %d times" % (name, len(met)))
    else:
      core.register(name, obj)
      core.listen_to_dependencies(sink, **kw)
      if len(met) != 1: bad = ("not-wired-at-declaration", "the wiring ran %d times although %r was already registered" % (len(met), name))
    if not bad and not met[-1]: bad = ("wired-without-component", "the wiring ran while %r was not among the registered components" % (name,))
    if not bad:
      core.register("unrelated", object())
      if len(met) != 1: bad = ("wired-again", "an unrelated registration ran the wiring again")
    if not bad and attrs != "no-attrs":
      an = name if attrs == "short_attrs" else "_%s_" % name
      got = vars(sink).get(an, None)
      if got is not obj:
        bad = ("attr-wrong-object", "after the wiring sink.%s is %s, not the object registered as component %r"
               % (an, "not set" if an not in vars(sink) else "another object (a %s)" % type(got).__name__, name))
    if not bad and "handler" in naming and ckind == "events":
      obj.raiseEvent(P.Ev())
      if len(hits) != 1:
        bad = ("handler-not-wired" if not hits else "handler-wired-twice",
               "an event raised by the object registered as %r reached the sink's handler %d times" % (name, len(hits)))
  except Exception as e:
    bad = ("raises:" + site_of(P, e), "%s with component name %r: %s" % (order, name, _txt(e)))
  return bad, (len(met), len(hits))


def sink_collision_part (rep):
  P = _import()
  w = World(P, None, dict(nc=0))
  with Env(w):
    for case in itertools.product(COLLIDING + ("ordinary",), ("declare-first", "register-first"), SINK_NAMING,
                                  SINK_ATTRS, SINK_COMPONENT):
      bad, seen = sink_collision_case(P, case)
      rep.evaluations += 1; rep.transitions += 3
      rep.outcome(("sink-collision", case, seen, bad and bad[0]))
      if bad:
        rep.violation("%s:sink-collision:%s" % (PID, bad[0]), bad[1] + " [component name also an attribute of core; %r]" % (case,),
                      dict(sink_collision=list(case)))


# ---------------------------------------------------------------------------------------
# API-form lattice: kind of callable x waiter name x declared arguments x how the callback ends x order x position
# among other waiters x form of the dependency argument x form of the registration
# ---------------------------------------------------------------------------------------
class _BadStr (Exception):
  """A failure whose text cannot be produced (reporting it must stay best-effort)."""
  def __str__ (self): raise RuntimeError("no text for this failure")
  __repr__ = __str__

LATTICE_KINDS = CALLABLE_KINDS + ("builtin-method", "none")
ENDINGS = ("return", "ValueError", "TypeError", "AttributeError", "KeyError", "StopIteration", "bad-str")
_EXC = dict(ValueError=ValueError, TypeError=TypeError, AttributeError=AttributeError, KeyError=KeyError,
            StopIteration=StopIteration)
NAME_MODES = ("derived", "explicit")
ORDERS = ("declare-first", "declare-first,unrelated-registration-between", "register-first")
DEP_FORMS = ("str", "list", "tuple+registered", "set+registered", "frozenset", "generator+registered", "dict-keys")
REG_FORMS = ("name,object", "object:class-name", "object:_core_name", "registerNew", "registerNew:_core_name+args")


def _kind_class (ck):
  return "callable-without-__name__" if ck in NAMELESS else ck


def _txt (e):
  try: return "%s: %s" % (type(e).__name__, e)
  except Exception: return "%s (no text)" % type(e).__name__


def _raise (ending):
  if ending == "return": return
  if ending == "bad-str": raise _BadStr()
  raise _EXC[ending]("callback fails on purpose")


def _register_form (core, name, rf):
  """Register a fresh component under `name` in one of the documented ways."""
  if rf == "name,object": return core.register(name, object())
  if rf == "object:class-name": return core.register(type(name, (object,), {})())
  if rf == "object:_core_name": return core.register(type("SomeComponent", (object,), {"_core_name": name})())
  if rf == "registerNew": return core.registerNew(type(name, (object,), {}))
  if rf == "registerNew:_core_name+args":
    cls = type("SomeComponent", (object,), {"_core_name": name, "__init__": lambda self, a, k=None: None})
    return core.registerNew(cls, "a", k="k")
  raise ValueError(rf)


def callable_cases (cfg, ck, orders=ORDERS):
  """Every case of the lattice for one kind of callable (quick: 3 waiters; thorough: 4)."""
  slots = cfg.pick(3, 4)
  ams = ("args", "args-list") if ck == "builtin-method" else ARG_MODES
  endings = ("return",) if ck in ("builtin-method", "none") else ENDINGS
  for nm, am, ending, order, pos, df, rf in itertools.product(NAME_MODES, ams, endings, orders, range(slots),
                                                              DEP_FORMS, REG_FORMS):
    yield (ck, nm, am, ending, order, pos, df, rf, slots)


def callable_case (P, case):
  """One waiter (the subject) is declared with a callable of kind ck among plain-function waiters for the same
  component; reference: a waiter runs exactly once, during the call that completes its components (its own
  declaration if they are complete already), with them registered and with the arguments it declared; no call
  into core raises; a later unrelated registration runs nothing."""
  ck, nm, am, ending, order, pos, df, rf, slots = case
  core = P.core.POXCore(threaded_selecthub=False, handle_signals=False)
  P.core.core = core
  runs = []                                     # (slot, components present, arguments as declared)
  appended = []                                 # what the builtin bound method (list.append) collected
  declared, done, registered = {}, set(), set(["w"])     # the reference
  subj_names = ["w", "x"] if df.endswith("+registered") else ["x"]
  subj_deps = {"str": "x", "list": ["x"], "tuple+registered": ("w", "x"), "set+registered": set(["x", "w"]),
               "frozenset": frozenset(["x"]), "generator+registered": (n for n in ("w", "x")),   # can be read only once
               "dict-keys": {"x": 1}.keys()}[df]
  by_deps = ["x", ["w", "x"], ("x",)]
  trace = []

  def declare (slot):
    if slot == pos:
      args, kw = arg_mode(am, "s")
      deps = subj_deps
      names = subj_names
      exp = (tuple(args or ()), dict(kw or {}))
      def target (*a, **k):
        runs.append((slot, all(d in core.components for d in names), (a, k) == exp))
        _raise(ending)
      extra = {}
      if ck == "none": cb, pre = None, ()
      elif ck == "builtin-method": cb, pre = appended.append, ()
      else: cb, pre = make_callable(ck, target, "s")
      if pre or args is not None: extra["args"] = (pre + tuple(args or ())) if pre else args
      if ck == "builtin-method": extra["args"] = args[:1]          # list.append takes exactly one argument
      if kw is not None: extra["kw"] = kw
      if nm == "explicit": extra["name"] = "the-subject"
      if ck != "none": declared[slot] = set(names)
      core.call_when_ready(cb, deps, **extra)
    else:
      deps = by_deps[(slot - (slot > pos)) % len(by_deps)]
      names = [deps] if isinstance(deps, str) else list(deps)
      def bystander ():
        runs.append((slot, all(d in core.components for d in names), True))
      declared[slot] = set(names)
      core.call_when_ready(bystander, deps)

  def role (slot):
    return "subject" if slot == pos else ("bystander-before-subject" if slot < pos else "bystander-after-subject")

  steps = [("decl", i) for i in range(slots)]
  if order == "declare-first": steps = steps + [("reg", "x")]
  elif order == "register-first": steps = [("reg", "x")] + steps
  else: steps = steps + [("reg", "u"), ("reg", "x")]          # every pending waiter is looked at once more before x comes
  steps.append(("reg", "y"))
  bad = None
  core.register("w", object())
  for kind, what in steps:
    before = len(runs)
    op = "call_when_ready" if kind == "decl" else "register"
    try:
      if kind == "decl": declare(what)
      elif what == "x": _register_form(core, "x", rf)
      else: core.register(what, object())
    except Exception as e:
      site = site_of(P, e)
      key = "raises:%s:%s" % (op, site)
      if nm == "derived" and site.startswith("core.py:call_when_ready:"):
        key += ":default-name-of-" + _kind_class(ck)
      bad = (key, "%s raised %s" % (op, _txt(e)))
    if kind == "reg": registered.add(what)
    for item in appended[sum(1 for r in runs if r[0] == pos):]:        # what list.append was called with meanwhile
      runs.append((pos, True, item == ("a", "s")))
    new = runs[before:]
    trace.append((kind, what, tuple(new)))
    if bad: break
    due = sorted(s for s, d in declared.items() if s not in done and d <= registered)
    got = [r[0] for r in new]
    for slot, present, argsok in new:
      if slot in done or got.count(slot) > 1: bad = ("fired-twice:" + role(slot), "waiter %d ran again" % slot)
      elif slot not in due or not present:
        bad = ("fired-early:" + role(slot), "waiter %d ran while its components were not all registered" % slot)
      elif not argsok:
        bad = ("callback-arguments:" + role(slot), "waiter %d was not called with the arguments it declared" % slot)
      if bad: break
    if not bad:
      for slot in due:
        if slot not in got:
          bad = ("never-fired:" + role(slot), "waiter %d has all its components registered but did not run in the "
                 "call that completed them (%s %s)" % (slot, op, what)); break
    done.update(got)
    if bad: break
  return bad, tuple(trace)


SHARED_VARIANTS = ("different-components", "different-arguments", "different-components-and-arguments")

def shared_cases (cfg, ck, orders=None):
  for variant, ending, perm in itertools.product(SHARED_VARIANTS, ("return", "ValueError"),
                                                 itertools.permutations(("D1", "D2", "Rx", "Ry"))):
    yield (ck, variant, ending, perm)


def shared_case (P, case):
  """ONE callable is handed to call_when_ready in two declarations which differ in the components they name and /
  or in the arguments they carry (kind "method-equal": two distinct but equal bound-method objects).  These are two
  waiters: each runs once, when ITS components are there, with ITS arguments."""
  ck, variant, ending, perm = case
  core = P.core.POXCore(threaded_selecthub=False, handle_signals=False)
  P.core.core = core
  runs, trace = [], []
  def target (*a, **k):
    runs.append((a, tuple(sorted(core.components))))
    _raise(ending)
  if ck == "method-equal":
    h = _Holder(target); cbs = {"D1": h.run, "D2": h.run}; pre = ()
  else:
    cb, pre = make_callable(ck, target, "shared"); cbs = {"D1": cb, "D2": cb}
  spec = {"D1": (["x"], ("one",)), "D2": (["y"], ("two",))}
  if variant == "different-components": spec = {"D1": (["x"], ()), "D2": (["y"], ())}
  elif variant == "different-arguments": spec["D2"] = (["x"], ("two",))
  pending, registered = [], set()
  bad = None
  for step in perm:
    before = len(runs)
    op = "call_when_ready" if step[0] == "D" else "register"
    try:
      if step[0] == "D":
        deps, args = spec[step]
        pending.append((args, set(deps)))
        extra = {"args": pre + args} if (pre or args) else {}
        if ck in NAMELESS: extra["name"] = "waiter-" + step
        core.call_when_ready(cbs[step], list(deps), **extra)
      else:
        registered.add(step[1].lower())
        core.register(step[1].lower(), object())
    except Exception as e:
      bad = ("raises:%s:%s" % (op, site_of(P, e)), "%s raised %s" % (op, _txt(e)))
    new = runs[before:]
    trace.append((step, tuple(new)))
    if bad: break
    for a, reg in new:
      hit = [p for p in pending if p[0] == a and p[1] <= registered and p[1] <= set(reg)]
      if not hit:
        bad = ("shared-callable:fired-unexpected", "the callable ran with arguments %r and components %r: no waiter "
               "declared with these arguments is due (pending: %r)" % (a, reg, pending)); break
      pending.remove(hit[0])
    if bad: break
    late = [p for p in pending if p[1] <= registered]
    if late:
      bad = ("shared-callable:never-fired", "after %s the waiter(s) %r have all their components registered (%s) but "
             "did not run" % (step, late, sorted(registered))); break
  return bad, tuple(trace)


def _callable_work (item):
  part, quick, ck, orders = item
  P = _import()
  rep = Report(PID, "model_checking")
  cfg = _PickCfg(quick)
  cases, fn = ((callable_cases, callable_case) if part == "callable" else (shared_cases, shared_case))
  w = World(P, None, dict(nc=0))                 # only for the environment patches (stdout, threads)
  with Env(w):
    for case in cases(cfg, ck, orders):
      bad, trace = fn(P, case)
      rep.evaluations += 1
      rep.transitions += len(trace) + (part == "callable")
      rep.outcome((part, case[:4] if part == "callable" else case[:3], trace, bad and bad[0]))
      if bad:
        rep.violation("%s:%s" % (PID, bad[0]), "%s [%s lattice case %r]" % (bad[1], part, case),
                      dict(lattice=part, case=list(case)))
      elif len(rep.samples) < 1 and rep.evaluations % 499 == 7:
        rep.sample(dict(lattice=part, case=list(case), trace=repr(trace)))
  return rep


class _PickCfg (object):
  def __init__ (self, quick): self.quick = quick
  def pick (self, q, t): return q if self.quick else t


def callable_part (cfg, rep):
  items = [("callable", cfg.quick, ck, (order,)) for ck in LATTICE_KINDS for order in ORDERS]
  items += [("shared", cfg.quick, ck, None) for ck in CALLABLE_KINDS + ("method-equal",)]
  for r in pmap(_callable_work, items, cfg.workers, seed=cfg.seed):
    rep.merge(r)


# ---------------------------------------------------------------------------------------
# E-thr: two threads call quit() concurrently (DESIGN.md C08, thorough scenario; cheap enough for quick)
# ---------------------------------------------------------------------------------------
def quit_race_run (ctx):
  import gc
  from mc import thr
  P = _import()
  log = []
  st = dict(done=0)
  S = thr.Sched(ctx, trace_files=("pox/core.py",), trace_funcs=("POXCore.quit", "POXCore._quit"),
                pending=lambda: st["done"] < 2, max_points=4000)
  core = P.core.POXCore(threaded_selecthub=False, handle_signals=False)
  for attr, val in list(vars(core).items()):
    # real locks held by the core (e.g. the one around quit) must be controlled ones, or a thread blocked on
    # one would block the explorer itself
    if type(val).__name__ == "lock": setattr(core, attr, thr.CLock(S, attr))
  P.core.core = core
  core.starting_up = False                     # the system is up
  sch = core.scheduler
  def squit (): sch._hasQuit = True; sch._allDone = True
  sch.quit = squit
  core.callLater = lambda f, *a, **k: f(*a, **k)          # the (absent) scheduler thread runs it at once
  class Cond (object):
    def __init__ (self): self.l = thr.CLock(S, "quit_condition")
    def acquire (self): return self.l.acquire()
    def release (self): return self.l.release()
    def notifyAll (self): pass
    notify_all = notifyAll
  core.quit_condition = Cond()
  real_time = P.core.time
  P.core.time = thr.CTime(S)
  core.addListener(P.core.GoingDownEvent, lambda e: log.append("GoingDown"))
  core.addListener(P.core.DownEvent, lambda e: log.append("Down"))
  def body ():
    core.quit()
    st["done"] += 1
  S.spawn(body, name="Q0"); S.spawn(body, name="Q1")
  try:
    leaked = S.run(first=0)
  finally:
    P.core.time = real_time
  v = S.verdict
  bad = None
  if v: bad = ("quit-race:" + v[0], v[1])
  elif log != ["GoingDown", "Down"]:
    bad = ("quit-race:lifecycle-events", "two threads called quit() concurrently: life-cycle events raised %r, expected exactly ['GoingDown', 'Down']" % (log,))
  return bad, tuple(log)


def quit_race_part (cfg, rep):
  import gc
  gc.disable()
  out = sys.stdout; sys.stdout = _Null()       # (a new core prints its banner)
  try:
    n = [0]
    def on_exec (ctx, res):
      bad, out = res
      rep.evaluations += 1; rep.transitions += len(ctx.trace)
      rep.outcome(("quit-race", bad and bad[0], out))
      n[0] += 1
      if n[0] % 200 == 0: gc.collect()
      if bad:
        rep.violation("%s:%s" % (PID, bad[0]), bad[1], dict(quit_race=True, choices=ctx.choices()))
    explore(quit_race_run, dev_bound=cfg.pick(2, 3), on_exec=on_exec)
  finally:
    sys.stdout = out
    gc.collect(); gc.enable()


def run (cfg):
  P = _import()
  rep = Report(PID, "model_checking")
  prms = params(cfg)
  only = set(cfg.only.split(",")) if getattr(cfg, "only", None) else None     # debugging: --only callables,lattice
  if only is not None: prms = [p for p in prms if p.get("_label") in only]
  rep.rule = RULE % (GOUP_VARIANTS, "; ".join(
    "components=%s DEPTH=%d MAXP=%d DEV=%d sinks=%s forms=%s goUp=%s%s"
    % (NAMES[:p["nc"]], p["depth"], p["maxp"], p["dev"], [P.SINKS[k][0] for k in p["sinks"]], p["forms"], p["goup"],
       (" no-quit" if p.get("noquit") else "") + (" waiters-only-on-masks=%s" % p["cwr_masks"] if p.get("cwr_masks") else "")
       + (" deferral-takers=%d(<=%d held each%s)" % (p["takers"], p["hold_max"], ", also after UpEvent" if p.get("take_after_up") else "")
          if p.get("takers") else "")
       + (" register-also-as=%s" % (p["kinds"],) if p.get("kinds") else "")
       + (" each-sink-class-declared-up-to-%d-times(another object / same object again)" % p["resink"] if p.get("resink") else "")
       + (" callbacks-also-as(kind of callable, declared arguments)=%s" % (p["callables"],) if p.get("callables") else "")
       + (" component-listeners-on=%s x%d fault-kinds=%s" % (p["listeners"], p.get("nlisteners", 2), p["lfaults"])
          if p.get("listeners") else ""))
    for p in prms))
  rep.rule += LATTICE_RULE % (COLLIDING, SINK_NAMING, SINK_ATTRS, SINK_COMPONENT, LATTICE_KINDS, NAME_MODES, ARG_MODES, ENDINGS, ORDERS, cfg.pick(3, 4), DEP_FORMS,
                              REG_FORMS, CALLABLE_KINDS + ("method-equal",), SHARED_VARIANTS, ("return", "ValueError"))
  rep.bound = dict(configurations=[dict(depth=p["depth"], deviations=p["dev"], components=p["nc"],
                                        pending_waiters=p["maxp"], sinks=len(p["sinks"]),
                                        **(dict(listened_events=len(p["listeners"]), listeners_per_event=p.get("nlisteners", 2),
                                                listener_fault_kinds=len(p["lfaults"])) if p.get("listeners") else {}))
                                   for p in prms],
                   callable_lattice=dict(kinds=len(LATTICE_KINDS), names=len(NAME_MODES), arguments=len(ARG_MODES),
                                         endings=len(ENDINGS), orders=len(ORDERS), waiters=cfg.pick(3, 4),
                                         component_forms=len(DEP_FORMS), registration_forms=len(REG_FORMS)),
                   collision_lattices=dict(names=len(COLLIDING), callback_cases=len(COLLIDING) * 8,
                                           sink_cases=(len(COLLIDING) + 1) * 2 * len(SINK_NAMING) * len(SINK_ATTRS) * len(SINK_COMPONENT)),
                   shared_callable_lattice=dict(kinds=len(CALLABLE_KINDS) + 1, variants=len(SHARED_VARIANTS),
                                                endings=2, permutations=24))
  rep.assumptions = [
    "threads spawned by quit() run atomically between operations (fine-grained interleaving is the E-thr scenario)",
    "the scheduler thread is absent: scheduler.callLater is queued and run by the virtual sleep; scheduler.quit is a stub; gc.collect is a no-op",
    "merged states have equal futures: the digest covers the whole mutable state of the core object, the harness and the model",
    "a chained registration inside a callback only registers a not yet registered component",
    "the order among several simultaneously ready waiters is unconstrained",
    "UpEvent after a quit, and UpEvent at the release instant inside a GoingUp handler vs. at the end of goUp, are unconstrained",
    "exploration of a history stops at its first violation",
    "a failing callback raises an Exception subclass (ValueError in histories; ValueError, TypeError, AttributeError, "
    "KeyError, StopIteration, an exception whose __str__/__repr__ raise in the lattice); BaseException-only failures "
    "(SystemExit, KeyboardInterrupt) of a waiter callback are not demanded to be contained (for a component's listener "
    "on core's events they are among the fault kinds)",
    "waiter names given explicitly are strings; the SAME callable declared twice with identical components and "
    "arguments is not constrained (two waiters or one - the statement is silent)",
    "the dynamically made callback class names no loaded module (inspect has no source file to search)",
    "one sink OBJECT declared again while its earlier declaration still waits, or after it was wired successfully, is "
    "not constrained (one wiring or two - the statement is silent) and not enumerated; declared again after its "
    "completion callback failed it is a new waiter.  Sink objects are only freed where the history says the dependent "
    "dropped one before making the next (CPython then hands the freed block to the next object of that size, which "
    "the harness requests: <= 2048 allocations); all other sink objects stay alive to the end of the execution",
    "a deferral taken after UpEvent has nothing left to defer; releasing it must not raise UpEvent again",
    "component listeners on core's events: a listener that fails or halts ends the delivery of that event to the "
    "listeners behind it (revent semantics, unconstrained); the harness' observers are ahead of all of them.  After a "
    "goUp that did not return (a GoingUp / Up listener's failure came out of it) UpEvent is not demanded (boot treats "
    "it as a failed start-up).  Whether a listener's exception comes out of the core call is unconstrained; what is "
    "demanded is what the statement names: waiters run when ready, GoingDown then Down exactly once on quit.  A weak "
    "listener whose object is gone is removed by revent before it can be called (its ReventError path is not reachable "
    "sequentially)",
  ]
  for spec in P.SINKS:
    if spec[2] is not None:
      arg = spec[5].get("components")
      if Model.sink_deps(arg, _handler_comps(spec)) != frozenset(spec[2]):
        raise RuntimeError("sink table out of date for %s" % spec[0])
  rep.extra["new_states_per_level"] = []
  for prm in prms:
    levels = bfs(cfg, prm, rep)
    rep.extra["new_states_per_level"].append(levels)
  if only is None or "collision" in only: collision_part(rep); sink_collision_part(rep)
  if only is None or "lattice" in only: callable_part(cfg, rep)
  if only is None or "quitrace" in only: quit_race_part(cfg, rep)
  return rep


def bfs (cfg, prm, rep):
  best = {}                # state digest -> fewest deviations it was reached with
  frontier = [[]]
  levels = []
  for level in range(prm["depth"]):
    last = (level == prm["depth"] - 1)
    nb = max(1, min(len(frontier), cfg.workers * 4))
    size = max(1, min(64, (len(frontier) + nb - 1) // nb))
    batches = [frontier[i:i + size] for i in range(0, len(frontier), size)]
    items = [(public(prm), level, last, b) for b in batches]
    cand = {}
    for r, succ in pmap(_expand, items, cfg.workers, seed=cfg.seed):
      rep.merge(r)
      for st, used, choices in succ:
        c = cand.get(st)
        if c is None or (used, choices) < c: cand[st] = (used, choices)
    frontier = []
    for st in sorted(cand):
      used, choices = cand[st]
      if best.get(st, 1 << 30) <= used: continue
      best[st] = used
      frontier.append(choices)
    if not last: levels.append(len(frontier))
    if not frontier: break
  return levels


def replay (cfg, data):
  P = _import()
  if "quit_race" in data:
    import gc
    gc.disable()
    try: bad, out = quit_race_run(Ctx(list(data["choices"])))
    finally: gc.enable()
    return bool(bad), "two threads call quit(): events %r => %r" % (out, bad)
  if "lattice" in data:
    fn = callable_case if data["lattice"] == "callable" else shared_case
    with Env(World(P, None, dict(nc=0))):
      bad, trace = fn(P, data["case"])
    return bool(bad), "%s lattice case %r\nobserved per step: %r\n=> %r" % (data["lattice"], data["case"], trace, bad)
  if "sink_collision" in data:
    with Env(World(P, None, dict(nc=0))):
      bad, seen = sink_collision_case(P, tuple(data["sink_collision"]))
    return bool(bad), "sink naming a component whose name is an attribute of core: %r\n(wirings, handler calls) = %r => %r" % (
      data["sink_collision"], seen, bad)
  if "collision" in data:
    r = Report(PID, "model_checking"); collision_part(r)
    c = data["collision"]
    hits = [v for k, v in r.violations.items()]
    return bool(hits), "component name colliding with a core attribute: %r\n%s" % (c, "\n".join(v["what"] for v in hits))
  prm = data["prm"]
  w = make_run(P, prm, 1 << 20)(Ctx(list(data["choices"])))
  text = "\n".join(w.render()) + "\n=> %r" % (w.violated,)
  return bool(w.violated), text
