"""C07/S5 - cooperative recoco.Lock: at most one holder, hand-over to exactly one waiter, no stranded
waiter.  Sequential E-seq exploration: every program (2-3 tasks x scripts over acquire / try-acquire /
release / yield on 1-2 locks) x every choice of which waiter a release pops, run on the real
Scheduler.cycle() with no threads.

The reference is a lock WITHOUT an owner (the library documents "similar semantics to the Python Lock"):
a lock is held or free; it may be created held (Lock(locked=True)); ANY task may release a held lock, not
only the one that took it, and the release may be issued from a @task_function helper (which runs as a task
object of its own), as may the acquire.  Two families of programs are enumerated: the `owned' ones (each script
releases only what it acquired itself) and the `free-form' ones (every sequence of operations; a release of a
lock that the reference says is free is issued too - the statement says nothing about what happens to the
task that does it, and neither does the oracle)."""
import itertools, types
from mc.engine import explore, pmap, Ctx, split
from mc.report import Report

PID = "C07"
OPS = ("A1", "N1", "R1", "A2", "R2", "Y")
# free-form alphabets.  hA / hR: the operation is done by a @task_function-style helper (recoco.Again), i.e. by
# a task object other than the one running the script
FREE1 = ("A1", "N1", "R1", "hA1", "hR1", "Y")
FREE1_PLAIN = ("A1", "N1", "R1", "Y")
FREE2 = ("A1", "N1", "R1", "A2", "R2", "hR1", "hR2", "Y")


class ChoiceSet (object):
  """Stands in for Lock._waiting (a set): pop() is an explored choice instead of hash order."""
  def __init__ (self, ctx): self.items = []; self.ctx = ctx
  def add (self, x):
    if x not in self.items: self.items.append(x)
  def discard (self, x):
    if x in self.items: self.items.remove(x)
  def pop (self):
    if not self.items: raise KeyError("pop from an empty set")
    i = self.ctx.choose(len(self.items), "waiter", costly=False)
    return self.items.pop(i)
  def __len__ (self): return len(self.items)
  def __bool__ (self): return bool(self.items)
  def __contains__ (self, x): return x in self.items
  def __iter__ (self): return iter(list(self.items))


def scripts (maxlen, locks):
  ops = [o for o in OPS if o == "Y" or int(o[1]) <= locks]
  out = []
  for n in range(1, maxlen + 1):
    for s in itertools.product(ops, repeat=n):
      # well-formed: a release only after an acquire of the same lock in this script
      ok = True; held = set()
      for o in s:
        if o[0] in "AN":
          if o[1] in held and o[0] == "A": ok = False; break     # re-acquiring a held lock self-deadlocks by design
          held.add(o[1])
        elif o[0] == "R":
          if o[1] not in held: ok = False; break
          held.discard(o[1])
      if ok and any(o[0] in "AN" for o in s): out.append(s)
  return out


def free_scripts (maxlen, ops):
  """Every sequence of operations up to the length (no ownership discipline) that ends in a lock operation (a
  yield after a task's last lock operation only delays its end: dominated by the script without it)."""
  out = []
  for n in range(1, maxlen + 1):
    for s in itertools.product(ops, repeat=n):
      if s[-1] != "Y": out.append(s)
  return out


def run_program (ctx, prog, init=(), falsy=()):
  """prog: one script per task; init: names of the locks that are created with Lock(locked=True); falsy: indices of the
  tasks whose task object is false in a boolean context (a Task subclass with __len__, e.g. one that is also a
  container and happens to be empty) - who holds a lock must not depend on what bool(holder) says."""
  import threading, queue
  from mc.env import boot, FakePinger, VClock
  boot()
  import pox.lib.recoco.recoco as R, pox.lib.util as U
  R.threading = threading; R.Thread = threading.Thread; R.Queue = queue.Queue; R.time = VClock()
  from mc.props.c07 import field_points
  field_points(R, None, ())             # (the thread scenarios' attribute hooks, if this process ran one before)
  # the scheduler prints a traceback for every task it de-schedules because of an exception (a release of a free
  # lock raises by design); keep the check's output readable
  R.print = lambda *a, **k: None
  R.traceback = types.SimpleNamespace(print_exc=lambda *a, **k: None, format_exc=lambda *a, **k: "")
  U.makePinger = FakePinger
  sch = R.Scheduler(isDefaultScheduler=True, startInThread=False, threaded_selecthub=False)
  locks = {k: (R.Lock(locked=True) if k in init else R.Lock()) for k in ("1", "2")}
  for l in locks.values(): l._waiting = ChoiceSet(ctx)
  # ---- reference: a lock without an owner --------------------------------------------------------------------
  mlocked = {k: (k in init) for k in locks}         # is the lock held?
  holder = {k: ("init" if k in init else None) for k in locks}   # who was told last that it holds it (reporting)
  waiting = {"1": [], "2": []}          # tasks inside a blocking acquire that has not returned
  granted = {"1": set(), "2": set()}    # waiters that a release has handed the lock to and that have not resumed yet
  inrel = {}                            # task -> (lock, waiters) while inside a release of a held lock
  bad = []
  done = set()

  def who (t):
    """Script index of a task object; a helper's task object (AgainTask) stands for the task that called it."""
    i = getattr(t, "idx", None)
    if i is None:
      p = getattr(t, "parent", None)
      if p is not None: i = getattr(getattr(p, "task", None), "idx", None)
    return i

  def op (idx, o):
    """One operation; a generator of recoco blocking operations, run either inline by the task (yield from) or as
    the body of a helper."""
    k = o[-1]
    c = o[-2]
    if c == "A":
      waiting[k].append(idx)
      r = yield locks[k].acquire()
      waiting[k].remove(idx)
      if r is not True: bad.append(("acquire-returned", "blocking acquire returned %r" % (r,)))
      if idx in granted[k]:
        granted[k].discard(idx)                     # handed over by a release; the reference lock stayed held
      elif not mlocked[k]:
        mlocked[k] = True; holder[k] = idx
      else:
        bad.append(("two-holders", "task %r got lock %s while %r holds it" % (idx, k, holder[k])))
    elif c == "N":
      r = yield locks[k].acquire(blocking=False)
      if r is True:
        if mlocked[k]: bad.append(("two-holders", "task %r got lock %s (non-blocking) while %r holds it" % (idx, k, holder[k])))
        mlocked[k] = True; holder[k] = idx
      elif r is not False:
        bad.append(("acquire-returned", "non-blocking acquire returned %r" % (r,)))
    elif c == "R":
      if mlocked[k]:
        cands = [i for i in waiting[k] if i not in granted[k]]
        nw = len(cands)
        inrel[idx] = (k, nw)
        yield locks[k].release()
        del inrel[idx]
        # hand-over: exactly one of the waiters must now own the lock and be queued exactly once
        if nw:
          owner = locks[k]._locked
          queued = [t for t in sch._ready if who(t) in cands]
          if owner is None or owner is False or owner is True or who(owner) not in cands or len(queued) != 1 or queued[0] is not owner:
            bad.append(("hand-over", "release with %d waiter(s): owner %r, %d waiter(s) queued" % (nw, who(owner) if owner not in (None, True, False) else owner, len(queued))))
          else:
            granted[k].add(who(owner)); holder[k] = who(owner)
        else:
          mlocked[k] = False; holder[k] = None
      else:
        # the reference says the lock is free: whatever becomes of this task, nothing is demanded of it
        yield locks[k].release()

  class Prog (R.BaseTask):
    def run (self, idx, script):
      for o in script:
        if o == "Y":
          yield 0
        elif o[0] == "h":
          yield R.Again(op(idx, o))
        else:
          yield from op(idx, o)
      done.add(idx)
      yield False
  class EmptyProg (Prog):
    def __len__ (self): return 0
  tasks = []
  for i, s in enumerate(prog):
    t = (EmptyProg if i in falsy else Prog)(i, s); t.idx = i
    tasks.append(t); t.start(sch, fast=True)
  steps = 0
  while len(sch._ready) and steps < 200 and not bad:
    sch.cycle(); steps += 1
    for idx, (k, nw) in list(inrel.items()):
      # a release never hands control back to the scheduler loop: if the task is still `inside' it after the
      # cycle, the release failed and the task is gone
      del inrel[idx]
      if nw:
        bad.append(("hand-over", "release of the held lock %s with %d waiter(s) by task %r did not complete: nothing handed over" % (k, nw, idx)))
      else:
        mlocked[k] = False; holder[k] = None          # by the reference the lock is free now
    for k, l in locks.items():
      if (l._locked is None or l._locked is False) and waiting[k] and not any(who(t) in waiting[k] for t in sch._ready):
        bad.append(("stranded-waiter", "lock %s is free but task(s) %r stay blocked on it" % (k, sorted(waiting[k]))))
      elif not mlocked[k] and waiting[k] and not any(who(t) in waiting[k] for t in sch._ready):
        bad.append(("stranded-waiter", "lock %s was released (free by the reference) but task(s) %r stay blocked on it" % (k, sorted(waiting[k]))))
  if steps >= 200: bad.append(("no-progress", "more than 200 scheduler cycles"))
  if not bad:
    for k, l in locks.items():
      if waiting[k] and not mlocked[k]:
        bad.append(("stranded-waiter", "at the end nobody holds lock %s but task(s) %r are blocked on it" % (k, sorted(waiting[k]))))
  return bad, (tuple(sorted(done)), tuple(sorted((k, str(v)) for k, v in holder.items())))


def _worker (progs):
  rep = Report(PID, "model_checking")
  for item in progs:
    prog, init = item[:2]
    falsy = item[2] if len(item) > 2 else ()
    def on_exec (ctx, res):
      bad, out = res
      rep.evaluations += 1; rep.transitions += sum(len(s) for s in prog)
      rep.outcome(("lock", prog, init, falsy, out, tuple(b[0] for b in bad)))
      for k, what in bad:
        rep.violation("%s:lock:%s%s" % (PID, k, ":falsy-task" if falsy else ""),
                      "%s; program %r%s%s" % (what, prog, ", created locked: %r" % (init,) if init else "",
                                              ", tasks with bool(task) == False: %r" % (falsy,) if falsy else ""),
                      dict(locks=True, program=[list(s) for s in prog], init=list(init), falsy=list(falsy), choices=ctx.choices()))
    explore(lambda ctx: run_program(ctx, prog, init, falsy), on_exec=on_exec)
  rep.state_count = rep.evaluations
  return rep


def programs (quick):
  """-> [(scripts, locks created held)]"""
  ps = []
  # owned programs (each script releases only what it took itself), locks created free
  s2 = scripts(3, 2)
  ps += [(p, ()) for p in itertools.product(s2, repeat=2)]
  s3 = scripts(2 if quick else 3, 1)
  ps += [(p, ()) for p in itertools.product(s3, repeat=3)]
  if not quick:
    s4 = scripts(4, 1)
    ps += [(p, ()) for p in itertools.product(s4, repeat=2)]
    ps += [(p, ()) for p in itertools.product(scripts(2, 1), repeat=4)]
  seen = set(ps)
  def add (progs, inits):
    for p in progs:
      for i in inits:
        if (p, i) not in seen:
          seen.add((p, i)); ps.append((p, i))
  one = ((), ("1",))
  two = ((), ("1",), ("2",), ("1", "2"))
  # free-form programs: any task may release; locks created free or held; operations inside helpers
  add(itertools.product(free_scripts(3, FREE1), repeat=2), one)                      # 2 tasks, 1 lock, helpers
  add(itertools.product(free_scripts(2, FREE1), repeat=3), one)                      # 3 tasks, 1 lock, helpers
  add(itertools.product(free_scripts(2, FREE2), repeat=2), two)                      # 2 tasks, 2 locks
  if not quick:
    add(itertools.product(free_scripts(3, FREE1_PLAIN), repeat=3), one)
    add(itertools.product(free_scripts(3, FREE2), repeat=2), two)
    add(itertools.product(free_scripts(2, FREE1_PLAIN), repeat=4), one)
  # task objects that are false in a boolean context (every non-empty subset of the tasks): owned programs of 2 tasks
  # (scripts <= 3 ops; thorough: 3 tasks x scripts <= 2 ops too) and free-form ones (scripts <= 2 ops), one lock
  fam = [(p, ()) for p in itertools.product(scripts(3, 1), repeat=2)]
  fam += [(p, i) for p in itertools.product(free_scripts(2, FREE1_PLAIN), repeat=2) for i in one]
  if not quick: fam += [(p, ()) for p in itertools.product(scripts(2, 1), repeat=3)]
  for p, i in fam:
    for k in range(1, len(p) + 1):
      for f in itertools.combinations(range(len(p)), k):
        ps.append((p, i, f))
  return ps


def run_locks (cfg):
  rep = Report(PID, "model_checking")
  ps = programs(cfg.quick)
  for r in pmap(_worker, split(ps, cfg.workers * 4), cfg.workers, seed=cfg.seed):
    rep.merge(r)
  rep.extra["lock_programs"] = len(ps)
  return rep


def replay_locks (data):
  prog = tuple(tuple(s) for s in data["program"])
  init = tuple(data.get("init", ()))
  falsy = tuple(data.get("falsy", ()))
  bad, out = run_program(Ctx(list(data["choices"])), prog, init, falsy)
  return bool(bad), "program %r, created locked %r, falsy task objects %r\n=> %r %r" % (prog, init, falsy, bad, out)
