"""C07/S5 - cooperative recoco.Lock: at most one holder, hand-over to exactly one waiter, no stranded
waiter.  Sequential E-seq exploration: every program (2-3 tasks x scripts over acquire / try-acquire /
release / yield on 1-2 locks) x every choice of which waiter a release pops, run on the real
Scheduler.cycle() with no threads."""
import itertools
from mc.engine import explore, pmap, Ctx, split
from mc.report import Report

PID = "C07"
OPS = ("A1", "N1", "R1", "A2", "R2", "Y")


class ChoiceSet (object):
  """Stands in for Lock._waiting (a set): pop() is an explored choice instead of hash order."""
  def __init__ (self, ctx): self.items = []; self.ctx = ctx
  def add (self, x):
    if x not in self.items: self.items.append(x)
  def discard (self, x):
    if x in self.items: self.items.remove(x)
  def pop (self):
    if not self.items: raise KeyError("pop from an empty set")
    i = self.ctx.choose(len(self.items), "waiter", costly=False)
    return self.items.pop(i)
  def __len__ (self): return len(self.items)
  def __bool__ (self): return bool(self.items)
  def __contains__ (self, x): return x in self.items
  def __iter__ (self): return iter(list(self.items))


def scripts (maxlen, locks):
  ops = [o for o in OPS if o == "Y" or int(o[1]) <= locks]
  out = []
  for n in range(1, maxlen + 1):
    for s in itertools.product(ops, repeat=n):
      # well-formed: a release only after an acquire of the same lock in this script
      ok = True; held = set()
      for o in s:
        if o[0] in "AN":
          if o[1] in held and o[0] == "A": ok = False; break     # re-acquiring a held lock self-deadlocks by design
          held.add(o[1])
        elif o[0] == "R":
          if o[1] not in held: ok = False; break
          held.discard(o[1])
      if ok and any(o[0] in "AN" for o in s): out.append(s)
  return out


def run_program (ctx, prog):
  import threading, queue
  from mc.env import boot, FakePinger, VClock
  boot()
  import pox.lib.recoco.recoco as R, pox.lib.util as U
  R.threading = threading; R.Thread = threading.Thread; R.Queue = queue.Queue; R.time = VClock()
  U.makePinger = FakePinger
  sch = R.Scheduler(isDefaultScheduler=True, startInThread=False, threaded_selecthub=False)
  locks = {"1": R.Lock(), "2": R.Lock()}
  for l in locks.values(): l._waiting = ChoiceSet(ctx)
  holding = {"1": set(), "2": set()}        # tasks that were told they hold the lock
  waiting = {"1": set(), "2": set()}        # tasks blocked in a blocking acquire
  bad = []
  done = set()
  class Prog (R.BaseTask):
    def run (self, idx, script):
      mine = set()
      for o in script:
        k = o[1] if len(o) > 1 else None
        if o == "Y":
          yield 0
        elif o[0] == "A":
          waiting[k].add(idx)
          r = yield locks[k].acquire()
          waiting[k].discard(idx)
          if r is not True: bad.append(("acquire-returned", "blocking acquire returned %r" % (r,)))
          holding[k].add(idx); mine.add(k)
          if len(holding[k]) > 1: bad.append(("two-holders", "tasks %r hold lock %s at once" % (sorted(holding[k]), k)))
        elif o[0] == "N":
          r = yield locks[k].acquire(blocking=False)
          if r is True:
            holding[k].add(idx); mine.add(k)
            if len(holding[k]) > 1: bad.append(("two-holders", "tasks %r hold lock %s at once" % (sorted(holding[k]), k)))
          elif r is not False:
            bad.append(("acquire-returned", "non-blocking acquire returned %r" % (r,)))
        elif o[0] == "R":
          if k in mine:
            mine.discard(k); holding[k].discard(idx)
            nw = len(waiting[k])
            yield locks[k].release()
            # hand-over: exactly one of the waiters must now own the lock and be queued exactly once
            if nw:
              owner = locks[k]._locked
              queued = [t for t in sch._ready if getattr(t, "idx", None) in waiting[k]]
              if owner is None or owner is False or getattr(owner, "idx", None) not in waiting[k] or len(queued) != 1 or queued[0] is not owner:
                bad.append(("hand-over", "release with %d waiter(s): owner %r, %d waiter(s) queued" % (nw, getattr(owner, "idx", owner), len(queued))))
      done.add(idx)
      yield False
  tasks = []
  for i, s in enumerate(prog):
    t = Prog(i, s); t.idx = i
    tasks.append(t); t.start(sch, fast=True)
  steps = 0
  while len(sch._ready) and steps < 200 and not bad:
    sch.cycle(); steps += 1
    for k, l in locks.items():
      if not l._locked and waiting[k] and not any(getattr(t, "idx", None) in waiting[k] for t in sch._ready):
        bad.append(("stranded-waiter", "lock %s is free but task(s) %r stay blocked on it" % (k, sorted(waiting[k]))))
  if steps >= 200: bad.append(("no-progress", "more than 200 scheduler cycles"))
  if not bad:
    for k, l in locks.items():
      if waiting[k] and not holding[k]:
        bad.append(("stranded-waiter", "at the end nobody holds lock %s but task(s) %r are blocked on it" % (k, sorted(waiting[k]))))
  return bad, (tuple(sorted(done)), tuple(sorted((k, tuple(sorted(v))) for k, v in holding.items())))


def _worker (progs):
  rep = Report(PID, "model_checking")
  for prog in progs:
    def on_exec (ctx, res):
      bad, out = res
      rep.evaluations += 1; rep.transitions += sum(len(s) for s in prog)
      rep.outcome(("lock", prog, out, tuple(b[0] for b in bad)))
      for k, what in bad:
        rep.violation("%s:lock:%s" % (PID, k), "%s; program %r" % (what, prog), dict(locks=True, program=[list(s) for s in prog], choices=ctx.choices()))
    explore(lambda ctx: run_program(ctx, prog), on_exec=on_exec)
  rep.state_count = rep.evaluations
  return rep


def programs (quick):
  ps = []
  s2 = scripts(3, 2)
  ps += list(itertools.product(s2, repeat=2))
  s3 = scripts(2 if quick else 3, 1)
  ps += list(itertools.product(s3, repeat=3))
  if not quick:
    s4 = scripts(4, 1)
    ps += list(itertools.product(s4, repeat=2))
    ps += list(itertools.product(scripts(2, 1), repeat=4))
  return ps


def run_locks (cfg):
  rep = Report(PID, "model_checking")
  ps = programs(cfg.quick)
  for r in pmap(_worker, split(ps, cfg.workers * 4), cfg.workers, seed=cfg.seed):
    rep.merge(r)
  rep.extra["lock_programs"] = len(ps)
  return rep


def replay_locks (data):
  prog = tuple(tuple(s) for s in data["program"])
  bad, out = run_program(Ctx(list(data["choices"])), prog)
  return bool(bad), "program %r\n=> %r %r" % (prog, bad, out)
