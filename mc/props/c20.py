"""C20 - the send path preserves the byte stream under partial writes, back-pressure and errors.

PART 1 (E-seq, mc.engine.explore): the switch-side RecocoIOWorker inside a hand-driven RecocoIOLoop
  (the real `RecocoIOLoop.run()` generator is advanced by the harness, which answers every yielded
  Select with the ready lists).  Three distinct messages are queued with send()/send_fast(), optionally
  with worker.shutdown() between/after them or close() at the end; the outcome of every socket.send call
  is an explorer choice; so is the interleaving of client calls and loop iterations.
PART 2 (E-thr, mc/thr.py): the controller's real of_01.Connection.send on a controlled "cooperative"
  thread and the real DeferredSender.run loop on its own controlled thread; every thread schedule
  within a deviation bound (line granularity in the hand-off functions of of_01.py) x every script of
  socket outcomes within its own deviation bound.  "Back-pressure" scenarios add a model of full socket
  buffers (not writable for select until a peer thread drains them) and default socket scripts that put
  two connections into the deferred state, with the last message sent after the deferred sender went idle.

Oracle (both parts): the bytes accepted by the socket are a prefix of the concatenation of the queued
messages, all of it at quiescence unless the connection was lost; after a fatal send error no further
socket.send on that socket; the close notification (close handler / ConnectionDown) exactly once;
SHUT_WR (part 1) at most once, only after every queued byte was accepted, and no send after it.
"""
import errno, gc, os, socket as _socket, sys
from mc.engine import explore, pmap, Ctx, cost_of
from mc.report import Report

PID = "C20"

MSGS = (b"ABCDE", b"fghijkl", b"0123", b"mnopqr")      # distinct lengths, disjoint alphabets (part 1 uses the first three)


def options (n, half=False, default="all"):
  """Distinct outcomes of a send call that was offered n bytes; index 0 is the default outcome
  (accept everything unless the scenario's own default script says otherwise)."""
  o = [("all", n)]
  if n > 1: o.append(("one", 1))
  if n > 2: o.append(("nm1", n - 1))
  if half and n > 4: o.append(("half", (n + 1) // 2))        # at least half, not all, distinct from 1 and n-1
  o.append(("eagain", None))
  o.append(("epipe", None))
  if default != "all":
    for i, x in enumerate(o):
      if x[0] == default:
        o.insert(0, o.pop(i)); break
  return o


class Script (object):
  """Per-call socket outcomes chosen by the explorer: the first `max_calls` send calls are choices
  (choice 0 = accept everything), later calls accept everything.  `max_dev` (optional) bounds the
  number of non-default outcomes independently of the explorer's own deviation bound."""
  def __init__ (self, ctx, max_calls, max_dev=None, costly=True, half=False):
    self.ctx = ctx; self.max_calls = max_calls; self.max_dev = max_dev; self.costly = costly; self.half = half
    self.calls = 0; self.devs = 0
  def outcome (self, n, label, default="all"):
    """default: the outcome the scenario's own script prescribes for this call (choice 0)."""
    self.calls += 1
    opts = options(n, self.half, default)
    if self.calls > self.max_calls: return opts[0]
    if self.max_dev is not None and self.devs >= self.max_dev: return opts[0]
    c = self.ctx.choose(len(opts), label, costly=self.costly)
    if c: self.devs += 1
    return opts[c]


def site_of (exc):
  """file:function of the innermost pox frame of an exception's traceback."""
  tb = exc.__traceback__
  best = None
  while tb is not None:
    fn = tb.tb_frame.f_code.co_filename.replace("\\", "/")
    if "/pox/" in fn and tb.tb_frame.f_code.co_name != "assert_type":
      parts = fn.split("/")
      name = parts[-1] if parts[-1] != "__init__.py" else parts[-2] + "/__init__.py"
      best = "%s:%s" % (name, tb.tb_frame.f_code.co_name)
    tb = tb.tb_next
  return best or "?"


OBJ_XIDS = (0x41414141, 0x62626262, 0x33333333, 0x6d6d6d6d)

def ref_echo_request (xid, body):
  """OpenFlow 1.0 echo request on the wire (version 1, type 2, length, xid, body) - written from the specification."""
  import struct
  return struct.pack("!BBHL", 1, 2, 8 + len(body), xid) + body


def first_fatal (calls):
  for i, (n, kind) in enumerate(calls):
    if kind in ("epipe", "after-close", "after-shutdown", "after-fatal", "after-shutwr"): return i
  return None


# ===========================================================================================
# PART 1: RecocoIOWorker in a hand-driven RecocoIOLoop
# ===========================================================================================
class LogRec (object):
  """Stands in for pox.lib.ioworker.log: keeps what the code under test logged."""
  def __init__ (self): self.records = []
  def _rec (self, level):
    def f (*a, **k):
      e = sys.exc_info()[1]
      self.records.append((level, site_of(e) if e is not None else None, type(e).__name__ if e is not None else None,
                           str(a[0]) if a else ""))
    return f
  def __getattr__ (self, name):
    if name in ("debug", "info", "warning", "warn", "error", "exception", "critical", "log"):
      return self._rec(name)
    raise AttributeError(name)

_LOG = LogRec()


class P1Pinger (object):
  def __init__ (self): self.pings = 0; self.total = 0
  def ping (self): self.pings += 1; self.total += 1
  def pongAll (self): self.pings = 0
  def pong (self): self.pings = max(0, self.pings - 1)
  def fileno (self): return 4
  def __lt__ (self, o): return id(self) < id(o)


class P1Sock (object):
  def __init__ (self, script, tag=""):
    self.script = script
    self.tag = tag
    self.accepted = b""
    self.calls = []            # (offered, outcome)
    self.closed = 0
    self.shut = []             # (how, bytes accepted so far, send calls so far)
    self.shutwr = 0
    # what the peer did (life-cycle scenarios): rx = None | "data" | "eof" | "reset" (what the next recv meets),
    # exc = select reports an exceptional condition once
    self.rx = None; self.exc = False
    self.rxlog = []            # what recv calls delivered
    self.rxfatal_at = None     # number of send calls made when a recv failed fatally
    self.lost_by_peer = False  # EOF / reset delivered or exceptional condition reported
  def fileno (self): return 5
  def getpeername (self): return ("peer", 1)
  def getsockname (self): return ("local", 2)
  def setblocking (self, b): pass
  def setsockopt (self, *a): pass
  def connect_ex (self, addr): return errno.EINPROGRESS
  def send (self, data, flags=0):
    n = len(data)
    if self.closed:
      self.calls.append((n, "after-close"))
      raise _socket.error(errno.EBADF, "bad file descriptor")
    if self.shutwr:
      self.calls.append((n, "after-shutwr"))
      raise _socket.error(errno.EPIPE, "broken pipe")
    kind, k = self.script.outcome(n, "sock%s.send" % self.tag)
    self.calls.append((n, kind))
    if kind == "eagain": raise _socket.error(errno.EAGAIN, "would block")
    if kind == "epipe": raise _socket.error(errno.EPIPE, "broken pipe")
    self.accepted += bytes(data[:k])
    return k
  def recv (self, n, flags=0):
    if self.closed: raise _socket.error(errno.EBADF, "bad file descriptor")
    peek = bool(flags & _socket.MSG_PEEK)
    if self.rx == "reset":
      self.rxlog.append("reset"); self.lost_by_peer = True
      if self.rxfatal_at is None: self.rxfatal_at = len(self.calls)
      raise _socket.error(errno.ECONNRESET, "connection reset by peer")
    if self.rx == "eof":
      self.rxlog.append("eof-peek" if peek else "eof")
      if not peek: self.lost_by_peer = True
      return b""
    if self.rx == "data":
      if peek: return b"x"
      self.rx = None; self.rxlog.append("data")
      return b"xyz"
    raise _socket.error(errno.EAGAIN, "would block")
  def shutdown (self, how):
    self.shut.append((how, len(self.accepted), len(self.calls)))
    if how in (_socket.SHUT_WR, _socket.SHUT_RDWR): self.shutwr += 1
  def close (self): self.closed += 1


_p1_ready = False

def p1_setup ():
  global _p1_ready
  from mc.env import boot
  boot()
  import pox.lib.ioworker as io
  if not _p1_ready:
    io.makePinger = P1Pinger
    io.log = _LOG
    _p1_ready = True
  # executions must be independent: clear class-level mutable state an earlier execution may have left behind
  # (sharing of such state is reproduced INSIDE one execution by the two-worker / reconnect scenarios)
  for cls in (io.IOWorker, io.RecocoIOWorker):
    for v in list(vars(cls).values()):
      if isinstance(v, (bytearray, list, dict, set)): v.clear()
  return io


def p1_exec (ctx, c):
  """One execution.  c: dict(api=tuple of 'send'|'fast', close=bool, calls=int).
  Returns (bad, observation) with bad = None | (clause, what)."""
  io = p1_setup()
  _LOG.records = []
  script = Script(ctx, c["calls"], half=True)
  sock = P1Sock(script)
  loop = io.RecocoIOLoop()
  worker = loop.new_worker(sock)
  closes = []
  worker.close_handler = lambda w: closes.append(1)
  pinger = loop.pinger
  gen = loop.run()
  st = dict(sel=None, alive=True, started=False, ops=0, connects=0)
  queued = []
  ops = [(a, MSGS[i]) for i, a in enumerate(c["api"])]
  if c.get("sd") is not None: ops.insert(c["sd"], ("shutdown", None))     # worker.shutdown() after c["sd"] sends
  if c.get("close"): ops.append(("close", None))
  hist = []
  sd = dict(pending=None)        # were bytes still unsent when shutdown() was requested?
  if c.get("conn"):
    # a worker that is still connecting (as ctl.py / PersistentIOWorker create them): the connect completes on the
    # loop's first pass over it (socket.recv(1, MSG_PEEK) answers EAGAIN = connected), which runs the connect
    # handler; the handler may itself queue a message.  What was buffered before is decided by the interleaving.
    worker._connecting = True
    def on_connect (w):
      st["connects"] += 1
      if c["conn"] != "none":
        queued.append(MSGS[3]); hist.append(("connect-handler:" + c["conn"], MSGS[3]))
        (w.send if c["conn"] == "send" else w.send_fast)(MSGS[3])
    worker.connect_handler = on_connect

  def answer ():
    sel = st["sel"]
    r, w, x = sel._args[0], sel._args[1], sel._args[2]
    return ([o for o in r if o is pinger and pinger.pings > 0], list(w), [])

  def loop_step (timeout=False):
    """Advance the real loop by one iteration (up to its next Select)."""
    st["ops"] += 1
    try:
      if not st["started"]:
        st["started"] = True
        st["sel"] = next(gen)
      else:
        st["sel"] = gen.send(([], [], []) if timeout else answer())
    except StopIteration:
      st["alive"] = False; st["sel"] = None

  def can_loop ():
    if not st["alive"]: return False
    if not st["started"]: return True
    a = answer()
    return bool(a[0] or a[1])

  def check (quiescent=False):
    exp = b"".join(queued)
    if not exp.startswith(sock.accepted):
      return ("stream-prefix", "socket accepted %r which is not a prefix of the queued messages %r" % (sock.accepted, exp))
    ff = first_fatal(sock.calls)
    if ff is not None and len(sock.calls) > ff + 1:
      return ("send-after-fatal", "socket.send called again after a fatal send error: calls %r" % (sock.calls,))
    if len(closes) > 1:
      return ("closed-twice", "the close handler ran %d times" % len(closes))
    if not st["alive"]:
      exc = [r for r in _LOG.records if r[0] == "exception"]
      where = "%s:%s" % (exc[-1][1], exc[-1][2]) if exc else "?"
      return ("loop-died:" + where, "RecocoIOLoop.run ended (%s); calls %r" % (where, sock.calls))
    exc = [r for r in _LOG.records if r[0] == "exception"]
    if exc:
      return ("logged-exception:%s:%s" % (exc[0][1], exc[0][2]), "an exception was caught and logged inside the worker: %s at %s (socket calls %r)"
              % (exc[0][2], exc[0][1], sock.calls))
    closed_by_client = c.get("close") and ("close", None) in hist
    wr = [x for x in sock.shut if x[0] in (_socket.SHUT_WR, _socket.SHUT_RDWR)]
    if wr:
      if ("shutdown", None) not in hist:
        return ("shutwr-spurious", "socket.shutdown(SHUT_WR) without a shutdown request")
      if wr[0][1] != len(exp):
        return ("shutwr-early", "socket.shutdown(SHUT_WR) after %d of the %d queued bytes were accepted: the tail %r is lost (socket calls %r)"
                % (wr[0][1], len(exp), exp[wr[0][1]:], sock.calls))
      if len(wr) > 1:
        return ("shutwr-twice", "socket.shutdown(SHUT_WR) issued %d times" % len(wr))
      if len(sock.calls) > wr[0][2]:
        return ("send-after-shutwr", "socket.send called after socket.shutdown(SHUT_WR): calls %r" % (sock.calls,))
    if ff is None and not closed_by_client and closes:
      return ("closed-spurious", "close handler ran without a fatal error or a close request")
    if quiescent:
      if ff is not None or closed_by_client:
        if len(closes) != 1:
          return ("close-count", "connection lost (fatal=%r, closed by client=%r) but the close handler ran %d times"
                  % (ff is not None, bool(closed_by_client), len(closes)))
      elif sock.accepted != exp:
        return ("stream-incomplete", "at quiescence the socket accepted %r of %r (send_buf=%r)" % (sock.accepted, exp, worker.send_buf))
      elif sd["pending"] and not wr:
        return ("shutwr-missing", "shutdown() was requested while bytes were unsent; everything was flushed but SHUT_WR was never issued")
    return None

  bad = None
  qi = 0
  timeouts = 0
  while bad is None:
    cq = qi < len(ops)
    cl = can_loop()
    if cq and cl: ch = ctx.choose(2, "next-op", costly=False)       # 0 = client call, 1 = loop iteration
    elif cq: ch = 0
    elif cl: ch = 1
    else:
      # nothing is ready: the select would time out; one empty iteration, then quiescence
      if timeouts >= 2 or not st["alive"]:
        bad = check(quiescent=True); break
      timeouts += 1
      loop_step(timeout=True); hist.append("timeout")
      bad = check()
      continue
    timeouts = 0
    if ch == 0:
      api, m = ops[qi]; qi += 1
      if m is not None and sock.shutwr:
        break                    # queueing after the write side was shut down is the client's error: not explored
      hist.append((api, m))
      st["ops"] += 1
      try:
        if api == "close":
          worker.close()
        elif api == "shutdown":
          sd["pending"] = len(worker.send_buf) > 0 and not worker.closed
          worker.shutdown()
        else:
          queued.append(m)
          (worker.send if api == "send" else worker.send_fast)(m)
      except Exception as e:
        bad = ("raises:%s:%s" % (site_of(e), type(e).__name__),
               "%s(%r) raised %s: %s after socket calls %r" % (api, m, type(e).__name__, e, sock.calls))
        break
    else:
      loop_step(); hist.append("loop")
    bad = check()
  try: gen.close()
  except Exception: pass
  obs = dict(api=list(c["api"]), close=bool(c.get("close")), sd=c.get("sd"), conn=c.get("conn"), connect_handler_runs=st["connects"], shutdowns=list(sock.shut), history=["%s %s" % (h[0], h[1].decode() if h[1] else "") if isinstance(h, tuple) else h for h in hist],
             socket_calls=list(sock.calls), accepted=sock.accepted, close_handler_runs=len(closes), socket_closed=sock.closed,
             send_buf=worker.send_buf, steps=st["ops"])
  return bad, obs


def p1_configs (cfg):
  apis = [("send",) * 3, ("fast",) * 3, ("fast", "send", "fast"), ("send", "fast", "send")]
  if not cfg.quick:
    import itertools
    apis = [t for t in itertools.product(("send", "fast"), repeat=3)]
  cs = []
  for a in apis:
    for close in (False, True):
      cs.append(dict(part=1, api=a, close=close, sd=None, calls=6, bound=cfg.pick(2, 3)))
    for sd in cfg.pick((3, 1), (3, 2, 1, 0)):       # worker.shutdown() after that many sends
      cs.append(dict(part=1, api=a, close=False, sd=sd, calls=6, bound=cfg.pick(2, 3)))
    for conn in ("none", "send", "fast"):           # connecting worker; what its connect handler queues
      cs.append(dict(part=1, api=a, close=False, sd=None, conn=conn, calls=6, bound=cfg.pick(2, 3)))
  return cs


def p1_name (c):
  return "p1/%s%s%s%s" % ("-".join(c["api"]), "/close" if c.get("close") else "",
                          "" if c.get("sd") is None else "/shutdown-after-%d" % c["sd"],
                          "/connecting(handler-%s)" % c["conn"] if c.get("conn") else "")


def p1_worker (c):
  rep = Report(PID, "model_checking")
  def on_exec (ctx, res):
    bad, obs = res
    rep.evaluations += 1
    rep.transitions += obs["steps"]
    rep.outcome(("p1", obs["api"], obs["close"], obs["sd"], obs["conn"], obs["shutdowns"], obs["history"], obs["socket_calls"], obs["accepted"], obs["close_handler_runs"], bad and bad[0]))
    if rep.evaluations % 997 == 1: rep.sample(dict(part=1, **obs))
    if bad:
      rep.violation("%s:p1:%s" % (PID, bad[0]), "%s [%s]" % (bad[1], p1_name(c)),
                    dict(part=1, config=dict(c, api=list(c["api"])), choices=ctx.choices()))
  explore(lambda ctx: p1_exec(ctx, c), dev_bound=c["bound"], on_exec=on_exec)
  k = "execs:" + p1_name(c)
  rep.extra[k] = rep.evaluations
  rep.state_count = rep.evaluations
  return rep


# ---- part 1, several workers in one loop (and a worker created after another one was closed) ----------------
# ops: ("send"|"fast", worker, message index) | ("close", worker) | ("new", worker)
TWO_ORDERS = {
  "A0-B0-A1-B1": [("q", "A", 0), ("q", "B", 2), ("q", "A", 1), ("q", "B", 3)],
  "A0-A1-B0-B1": [("q", "A", 0), ("q", "A", 1), ("q", "B", 2), ("q", "B", 3)],
  "A0-A1-closeA-newC-C0-C1": [("q", "A", 0), ("q", "A", 1), ("close", "A"), ("new", "C"), ("q", "C", 2), ("q", "C", 3)],
  "A0-B0-closeA-newC-C0-B1": [("q", "A", 0), ("q", "B", 2), ("close", "A"), ("new", "C"), ("q", "C", 1), ("q", "B", 3)],
}


def p1two_exec (ctx, c):
  """One execution with several workers.  c: dict(two=order name, api='send'|'fast', calls, bound).
  Returns (bad, observation)."""
  io = p1_setup()
  _LOG.records = []
  script = Script(ctx, c["calls"], half=True)
  loop = io.RecocoIOLoop()
  pinger = loop.pinger
  names = []; workers = {}; socks = {}; closes = {}; queued = {}; by_client = set()
  def new (nm):
    sk = P1Sock(script, nm)
    w = loop.new_worker(sk)
    closes[nm] = []
    w.close_handler = lambda w_, nm=nm: closes[nm].append(1)
    names.append(nm); workers[nm] = w; socks[nm] = sk; queued[nm] = []
    return w
  ops = list(TWO_ORDERS[c["two"]])
  for nm in sorted(set(o[1] for o in ops) - set(o[1] for o in ops if o[0] == "new")): new(nm)
  gen = loop.run()
  st = dict(sel=None, alive=True, started=False, ops=0)
  hist = []

  def answer ():
    sel = st["sel"]
    r, w = sel._args[0], sel._args[1]
    # workers are serviced in creation order (the loop iterates over the list it is given)
    return ([o for o in r if o is pinger and pinger.pings > 0], [workers[nm] for nm in names if workers[nm] in w], [])

  def loop_step (timeout=False):
    st["ops"] += 1
    try:
      if not st["started"]:
        st["started"] = True; st["sel"] = next(gen)
      else:
        st["sel"] = gen.send(([], [], []) if timeout else answer())
    except StopIteration:
      st["alive"] = False; st["sel"] = None

  def can_loop ():
    if not st["alive"]: return False
    if not st["started"]: return True
    a = answer()
    return bool(a[0] or a[1])

  def check (quiescent=False):
    if not st["alive"]:
      exc = [r for r in _LOG.records if r[0] == "exception"]
      where = "%s:%s" % (exc[-1][1], exc[-1][2]) if exc else "?"
      return ("loop-died:" + where, "RecocoIOLoop.run ended (%s)" % where)
    exc = [r for r in _LOG.records if r[0] == "exception"]
    if exc:
      return ("logged-exception:%s:%s" % (exc[0][1], exc[0][2]), "an exception was caught and logged inside the worker: %s at %s" % (exc[0][2], exc[0][1]))
    for nm in names:
      sk = socks[nm]; exp = b"".join(queued[nm])
      if not exp.startswith(sk.accepted):
        others = b"".join(b"".join(queued[o]) for o in names if o != nm)
        if any(ch in others and ch not in exp for ch in sk.accepted):
          return ("stream-foreign-bytes", "worker %s: its socket accepted %r, which contains bytes queued on another worker (own queue %r, others %r)"
                  % (nm, sk.accepted, exp, others))
        return ("stream-prefix", "worker %s: socket accepted %r which is not a prefix of the queued messages %r" % (nm, sk.accepted, exp))
      ff = first_fatal(sk.calls)
      if ff is not None and len(sk.calls) > ff + 1:
        return ("send-after-fatal", "worker %s: socket.send called again after a fatal send error: calls %r" % (nm, sk.calls))
      if len(closes[nm]) > 1:
        return ("closed-twice", "worker %s: the close handler ran %d times" % (nm, len(closes[nm])))
      if ff is None and nm not in by_client and closes[nm]:
        return ("closed-spurious", "worker %s: close handler ran without a fatal error or a close request" % nm)
      if quiescent:
        if ff is not None or nm in by_client:
          if len(closes[nm]) != 1:
            return ("close-count", "worker %s is lost but its close handler ran %d times" % (nm, len(closes[nm])))
        elif sk.accepted != exp:
          return ("stream-incomplete", "worker %s: at quiescence the socket accepted %r of %r (send_buf=%r)" % (nm, sk.accepted, exp, bytes(workers[nm].send_buf)))
    return None

  bad = None; qi = 0; timeouts = 0
  while bad is None:
    cq = qi < len(ops)
    cl = can_loop()
    if cq and cl: ch = ctx.choose(2, "next-op", costly=False)
    elif cq: ch = 0
    elif cl: ch = 1
    else:
      if timeouts >= 2 or not st["alive"]:
        bad = check(quiescent=True); break
      timeouts += 1
      loop_step(timeout=True); hist.append("timeout")
      bad = check(); continue
    timeouts = 0
    if ch == 0:
      op = ops[qi]; qi += 1
      st["ops"] += 1
      try:
        if op[0] == "new":
          w = new(op[1]); hist.append("new " + op[1])
          if len(w.send_buf):
            bad = ("new-worker-not-empty", "a newly created worker starts with %r in its send buffer" % bytes(w.send_buf)); break
        elif op[0] == "close":
          by_client.add(op[1]); hist.append("close " + op[1])
          workers[op[1]].close()
        else:
          m = MSGS[op[2]]; nm = op[1]
          queued[nm].append(m); hist.append("%s %s %s" % (c["api"], nm, m.decode()))
          (workers[nm].send if c["api"] == "send" else workers[nm].send_fast)(m)
      except Exception as e:
        bad = ("raises:%s:%s" % (site_of(e), type(e).__name__), "%r raised %s: %s" % (op, type(e).__name__, e))
        break
    else:
      loop_step(); hist.append("loop")
    bad = check()
  try: gen.close()
  except Exception: pass
  obs = dict(two=c["two"], api=c["api"], history=hist, socket_calls={nm: list(socks[nm].calls) for nm in names},
             accepted={nm: socks[nm].accepted for nm in names}, queued={nm: b"".join(queued[nm]) for nm in names},
             send_buf={nm: bytes(workers[nm].send_buf) for nm in names},
             close_handler_runs={nm: len(closes[nm]) for nm in names}, steps=st["ops"])
  return bad, obs


def p1two_configs (cfg):
  cs = []
  for order in sorted(TWO_ORDERS):
    for api in ("send", "fast"):
      big = order == "A0-B0-closeA-newC-C0-B1"          # three workers: the interleaving space is an order of magnitude larger
      cs.append(dict(part=1, two=order, api=api, calls=6, bound=cfg.pick(1, 2) if big else cfg.pick(2, 3)))
  return cs


def p1two_name (c):
  return "p1/workers/%s/%s" % (c["two"], c["api"])


def p1two_worker (c):
  rep = Report(PID, "model_checking")
  def on_exec (ctx, res):
    bad, obs = res
    rep.evaluations += 1
    rep.transitions += obs["steps"]
    rep.outcome(("p1two", obs["two"], obs["api"], obs["history"], sorted(obs["socket_calls"].items()), sorted(obs["accepted"].items()), bad and bad[0]))
    if rep.evaluations % 997 == 1: rep.sample(dict(part=1, **obs))
    if bad:
      rep.violation("%s:p1:%s" % (PID, bad[0]), "%s [%s]" % (bad[1], p1two_name(c)),
                    dict(part=1, config=c, choices=ctx.choices()))
  explore(lambda ctx: p1two_exec(ctx, c), dev_bound=c["bound"], on_exec=on_exec)
  rep.extra["execs:" + p1two_name(c)] = rep.evaluations
  rep.state_count = rep.evaluations
  return rep


# ---- part 1, connection life cycles: what the peer does, workers that connect again -------------------------
# worker kinds: the plain RecocoIOWorker (loop.new_worker) and the reconnecting workers of pox.lib.ioworker.workers /
# pox.datapaths (the kind a software switch uses towards its controller).  A connection is lost by a scripted fatal
# send error, a close() by the client, or by what the peer does (EOF, reset, exceptional condition; plain data is
# the harmless member of that family); a reconnecting worker then opens another connection when its (captured)
# timer is fired.  Every socket must accept exactly the messages queued on ITS connection.
LIFE_KINDS = ("RecocoIOWorker", "PersistentIOWorker", "BackoffWorker", "OpenFlowWorker")
LIFE_LOSS = (None, "close", "data", "eof", "reset", "exc")
LIFE_MAXCONN = 3
LIFE_MAXSTEPS = 80

def life_hmsg (i):
  """What the connect handler of the i-th connection queues (an alphabet of its own per connection)."""
  return bytes([ord("R") + i]) * (3 + i)


class SockShim (object):
  """Stands in for the `socket` module inside pox.lib.ioworker.workers: socket.socket() is the execution's next
  scripted socket."""
  def __init__ (self, real): self._real = real; self.factory = None
  def socket (self, *a, **k): return self.factory()
  def __getattr__ (self, n): return getattr(self._real, n)

_SHIM = None

def life_setup ():
  global _SHIM
  import pox.lib.ioworker.workers as workers
  import pox.datapaths as dp
  if _SHIM is None:
    _SHIM = SockShim(_socket)
    workers.socket = _SHIM
  return workers, dp


class StubSwitch (object):
  """What OpenFlowWorker needs of a switch: a dpid and set_connection (called when the connection is up)."""
  dpid = 1
  def __init__ (self, on_connection): self.on_connection = on_connection
  def set_connection (self, connection): self.on_connection(connection)


def life_exec (ctx, c):
  """One execution.  c: dict(life=kind, api='send'|'fast', loss=None|'close'|'data'|'eof'|'reset'|'exc',
  handler='none'|'send'|'fast', calls, bound).  Returns (bad, observation)."""
  io = p1_setup()
  workers, dp = life_setup()
  from mc.env import boot
  core = boot()
  _LOG.records = []
  script = Script(ctx, c["calls"], half=True)
  loop = io.RecocoIOLoop()
  pinger = loop.pinger
  socks = []; queued = []; closes = []; connects = []; by_client = set()
  regs = []; timers = []; hist = []
  kind = c["life"]; persistent = kind != "RecocoIOWorker"

  def mksock ():
    sk = P1Sock(script, "%d" % len(socks)); sk.idx = len(socks)
    socks.append(sk); queued.append([]); closes.append(0); connects.append(0)
    return sk
  _SHIM.factory = mksock
  orig_register = loop.register_worker
  def register (w):
    regs.append(w); return orig_register(w)
  loop.register_worker = register

  def idx_of (w): return socks.index(w.socket)
  def on_close (w): closes[idx_of(w)] += 1
  def on_connect (w, via=None):
    i = idx_of(w); connects[i] += 1
    if c["handler"] != "none":
      m = life_hmsg(i); queued[i].append(m); hist.append("connect-handler %d %s %s" % (i, c["handler"], m.decode()))
      if via is not None and c["handler"] == "send": via.send(m)          # through the switch's OFConnection
      else: (w.send if c["handler"] == "send" else w.send_fast)(m)

  def cap_delayed (delay, f, *a, **kw): timers.append((f, a, kw))
  def cap_later (f, *a, **kw): timers.append((f, a, kw))
  saved = {}
  for nm, fn in (("callDelayed", cap_delayed), ("call_delayed", cap_delayed), ("callLater", cap_later), ("call_later", cap_later)):
    saved[nm] = core.__dict__.get(nm, saved)
    setattr(core, nm, fn)
  gen = None
  st = dict(sel=None, alive=True, started=False, ops=0)
  try:
    if not persistent:
      w0 = loop.new_worker(mksock())
      w0.close_handler = on_close
    else:
      kw = dict(loop=loop, addr="192.0.2.1", port=6633, reconnect_delay=1, disconnect_callback=on_close)
      if kind == "OpenFlowWorker":
        kw["switch"] = StubSwitch(lambda conn: on_connect(conn.io_worker, conn))
        cls = dp.OpenFlowWorker
      else:
        kw["connect_callback"] = on_connect
        cls = getattr(workers, kind)
      cls.begin(**kw)
    gen = loop.run()
    ops = [("q", 0), ("q", 1)]
    if c["loss"] == "close": ops.append(("close",))
    elif c["loss"]: ops.append(("peer", c["loss"]))
    ops += [("q", 2)] if c.get("short") else [("q", 2), ("q", 3)]

    def by_sock (ws): return sorted(ws, key=idx_of)

    def answer ():
      sel = st["sel"]
      r, w, x = sel._args[0], sel._args[1], sel._args[2]
      rl = [o for o in r if o is pinger and pinger.pings > 0]
      rl += by_sock([o for o in r if o is not pinger and not o.socket.closed and o.socket.rx is not None])
      xl = by_sock([o for o in x if not o.socket.closed and o.socket.exc])
      return (rl, by_sock(list(w)), xl)

    def loop_step (timeout=False):
      st["ops"] += 1
      try:
        if not st["started"]:
          st["started"] = True; st["sel"] = next(gen)
        else:
          a = ([], [], []) if timeout else answer()
          for o in a[2]:
            o.socket.exc = False; o.socket.lost_by_peer = True; o.socket.rxlog.append("exc")
          st["sel"] = gen.send(a)
      except StopIteration:
        st["alive"] = False; st["sel"] = None

    def can_loop ():
      if not st["alive"]: return False
      if not st["started"]: return True
      a = answer()
      return bool(a[0] or a[1] or a[2])

    def check (quiescent=False):
      if not st["alive"]:
        exc = [r for r in _LOG.records if r[0] == "exception"]
        where = "%s:%s" % (exc[-1][1], exc[-1][2]) if exc else "?"
        return ("loop-died:" + where, "RecocoIOLoop.run ended (%s)" % where)
      exc = [r for r in _LOG.records if r[0] == "exception"]
      if exc:
        return ("logged-exception:%s:%s" % (exc[0][1], exc[0][2]), "an exception was caught and logged inside the worker: %s at %s" % (exc[0][2], exc[0][1]))
      for i, sk in enumerate(socks):
        exp = b"".join(queued[i])
        if not exp.startswith(sk.accepted):
          others = b"".join(b"".join(queued[o]) for o in range(len(socks)) if o != i)
          if any(ch in others and ch not in exp for ch in sk.accepted):
            return ("stream-foreign-bytes", "connection %d: its socket accepted %r, which contains bytes queued on another connection (own queue %r, others %r)"
                    % (i, sk.accepted, exp, others))
          return ("stream-prefix", "connection %d: socket accepted %r which is not a prefix of the queued messages %r" % (i, sk.accepted, exp))
        ff = first_fatal(sk.calls)
        if ff is not None and len(sk.calls) > ff + 1:
          return ("send-after-fatal", "connection %d: socket.send called again after a fatal send error: calls %r" % (i, sk.calls))
        if sk.rxfatal_at is not None and len(sk.calls) > sk.rxfatal_at:
          return ("send-after-fatal:recv-error", "connection %d: socket.recv failed fatally (connection reset) after %d send calls, yet socket.send was called again: calls %r"
                  % (i, sk.rxfatal_at, sk.calls))
        if closes[i] > 1:
          return ("closed-twice", "connection %d: the close notification ran %d times" % (i, closes[i]))
        if connects[i] > 1:
          return ("connected-twice", "connection %d: the connect notification ran %d times" % (i, connects[i]))
        lost = ff is not None or sk.lost_by_peer or i in by_client
        if not lost and closes[i]:
          return ("closed-spurious", "connection %d: close notification without a fatal error, a close request or a peer event" % i)
        if quiescent:
          if lost:
            if closes[i] != 1:
              return ("close-count", "connection %d is lost (fatal send error=%r, peer=%r, closed by client=%r) but the close notification ran %d times"
                      % (i, ff is not None, sk.rxlog, i in by_client, closes[i]))
          elif sk.accepted != exp:
            return ("stream-incomplete", "connection %d: at quiescence the socket accepted %r of %r" % (i, sk.accepted, exp))
      return None

    bad = None; qi = 0; timeouts = 0
    while bad is None:
      if st["ops"] > LIFE_MAXSTEPS:
        bad = ("step-limit", "more than %d steps" % LIFE_MAXSTEPS); break
      cur = regs[-1]
      cq = qi < len(ops) and (not persistent or ops[qi][0] == "peer" or not cur.closed)
      en = []
      if cq: en.append("client")
      if can_loop(): en.append("loop")
      if timers and len(socks) < LIFE_MAXCONN: en.append("timer")
      if not en:
        if timeouts >= 2 or not st["alive"]:
          bad = check(quiescent=True); break
        timeouts += 1
        loop_step(timeout=True); hist.append("timeout")
        bad = check(); continue
      timeouts = 0
      what = en[ctx.choose(len(en), "next-op", costly=False)] if len(en) > 1 else en[0]
      if what == "client":
        op = ops[qi]; qi += 1
        st["ops"] += 1
        try:
          if op[0] == "peer":
            sk = socks[-1]; hist.append("peer %s %d" % (op[1], sk.idx))
            if op[1] == "exc": sk.exc = True
            else: sk.rx = op[1]
          elif op[0] == "close":
            i = idx_of(cur); by_client.add(i); hist.append("close %d" % i)
            cur.close()
          else:
            m = MSGS[op[1]]; i = idx_of(cur)
            queued[i].append(m); hist.append("%s %d %s" % (c["api"], i, m.decode()))
            (cur.send if c["api"] == "send" else cur.send_fast)(m)
        except Exception as e:
          bad = ("raises:%s:%s" % (site_of(e), type(e).__name__), "%r raised %s: %s" % (op, type(e).__name__, e))
          break
      elif what == "timer":
        st["ops"] += 1
        f, a, kw = timers.pop(0); hist.append("timer")
        try:
          f(*a, **kw)
        except Exception as e:
          bad = ("raises:%s:%s" % (site_of(e), type(e).__name__), "the reconnect timer raised %s: %s" % (type(e).__name__, e))
          break
      else:
        loop_step(); hist.append("loop")
      bad = check()
  finally:
    for nm, v in saved.items():
      if v is saved: core.__dict__.pop(nm, None)
      else: setattr(core, nm, v)
    _SHIM.factory = None
    if gen is not None:
      try: gen.close()
      except Exception: pass
  obs = dict(life=kind, api=c["api"], loss=c["loss"], handler=c["handler"], history=hist,
             socket_calls=[list(sk.calls) for sk in socks], peer=[list(sk.rxlog) for sk in socks],
             accepted=[sk.accepted for sk in socks], queued=[b"".join(q) for q in queued],
             close_notifications=list(closes), connect_notifications=list(connects), steps=st["ops"])
  return bad, obs


def life_configs (cfg):
  cs = []
  for kind in LIFE_KINDS:
    plain = kind == "RecocoIOWorker"
    for api in ("send", "fast"):
      for loss in LIFE_LOSS:
        if plain and loss in (None, "close"): continue        # p1_configs / p1two_configs have these
        handlers = ("none",) if plain else ("none", "send", "fast")
        for h in handlers:
          if plain:
            cs.append(dict(part=1, life=kind, api=api, loss=loss, handler=h, calls=6, short=cfg.quick, bound=cfg.pick(1, 2)))
          elif h == api:
            # three client messages (two before the loss, one after).  quick: every reconnecting kind, both API forms
            # on the kind the software switch uses
            if cfg.quick and (kind, api) in (("PersistentIOWorker", "fast"), ("BackoffWorker", "send")): continue
            cs.append(dict(part=1, life=kind, api=api, loss=loss, handler=h, calls=6, short=True,
                           bound=cfg.pick(2, 3) if loss is None else cfg.pick(1, 2)))
          elif not cfg.quick:
            # the handler's API form differs from the client's (or it queues nothing): four client messages
            cs.append(dict(part=1, life=kind, api=api, loss=loss, handler=h, calls=6, short=False, bound=1))
  return cs


def life_name (c):
  return "p1/life/%s/%s/%s/handler-%s/%dmsgs" % (c["life"], c["api"], c["loss"] or "send-faults-only", c["handler"], 3 if c.get("short") else 4)


def life_worker (c):
  rep = Report(PID, "model_checking")
  def on_exec (ctx, res):
    bad, obs = res
    rep.evaluations += 1
    rep.transitions += obs["steps"]
    rep.outcome(("life", obs["life"], obs["api"], obs["loss"], obs["handler"], obs["history"], obs["socket_calls"], obs["peer"],
                 obs["accepted"], obs["close_notifications"], bad and bad[0]))
    if rep.evaluations % 997 == 1: rep.sample(dict(part=1, **obs))
    if bad:
      rep.violation("%s:p1:%s" % (PID, bad[0]), "%s [%s]" % (bad[1], life_name(c)),
                    dict(part=1, config=c, choices=ctx.choices()))
  explore(lambda ctx: life_exec(ctx, c), dev_bound=c["bound"], on_exec=on_exec)
  rep.extra["execs:" + life_name(c)] = rep.evaluations
  rep.state_count = rep.evaluations
  return rep


# ===========================================================================================
# PART 2: Connection.send (cooperative thread) and DeferredSender.run (its own thread)
# ===========================================================================================
FUNCS = ("Connection.send", "DeferredSender.send", "DeferredSender.run", "DeferredSender._sliceup",
         "DeferredSender.kill", "Connection.disconnect", "Connection.close")


class _NoThread (object):
  """Base-class stand-in: DeferredSender.__init__ calls threading.Thread.__init__(self)."""
  def __init__ (self, *a, **k): pass


class P2Threading (object):
  """Stands in for the `threading` module inside of_01."""
  def __init__ (self, S, thr):
    self.S = S; self.thr = thr; self.Thread = _NoThread
  def RLock (self):
    S = self.S; base = self.thr.CRLock
    class SetupTolerantRLock (base):
      """CRLock that is a no-op for the harness' own (uncontrolled) setup thread before the run starts."""
      def acquire (self_, blocking=True, timeout=-1):
        if S.cur is None: return True
        return base.acquire(self_, blocking, timeout)
      def release (self_):
        if S.cur is None: return
        return base.release(self_)
    return SetupTolerantRLock(S, "ds")
  def Lock (self):
    S = self.S; base = self.thr.CLock
    class SetupTolerantLock (base):
      """Non re-entrant CLock (a same-thread re-acquire blocks forever); no-op for the harness' setup thread."""
      def acquire (self_, blocking=True, timeout=-1):
        if S.cur is None: return True
        return base.acquire(self_, blocking, timeout)
      def release (self_):
        if S.cur is None: return
        return base.release(self_)
    return SetupTolerantLock(S, "ds")
  def Event (self): return self.thr.CEvent(self.S)
  def current_thread (self): return self.S.cur
  currentThread = current_thread


class CoreProxy (object):
  """of_01.core for the duration of part 2: the real core, but DeferredSender instances (one per
  execution) are not accumulated as listeners, and delayed calls are not registered."""
  running = True
  def __init__ (self, core, later): self._core = core; self._later = later
  def callLater (self, f, *a, **k): self._later.append((f, a, k))
  call_later = callLater
  def addListeners (self, *a, **k): return []
  def callDelayed (self, *a, **k): return None
  call_delayed = callDelayed
  def __getattr__ (self, n): return getattr(self._core, n)


class P2World (object):
  pass


class P2Sock (object):
  def __init__ (self, W, idx):
    self.W = W; self.idx = idx
    self.accepted = b""
    self.calls = []              # (offered, outcome, thread name)
    self.setup = True            # the HELLO written by Connection.__init__ is not part of the scenario
    self.shut = False; self.closed = False; self.eof = False; self.broken = False
    # back-pressure model (scenarios with c["backlog"]): after a short write or EAGAIN the socket's buffer is
    # full: select does not report it writable and sends fail with EAGAIN until the peer thread drains it
    self.backpressure = False; self.blocked = False
    self.defaults = []           # the scenario's own default outcome of the 1st, 2nd ... scripted call
    self.nscripted = 0
  def fileno (self): return -1 if self.closed else 10 + self.idx
  def getpeername (self): return ("switch", self.idx)
  def setblocking (self, b): pass
  def readable (self): return (not self.closed) and (self.shut or self.eof)
  def writable (self): return (not self.closed) and (self.shut or not self.blocked)
  def send (self, data, flags=0):
    if self.setup: return len(data)
    W = self.W; W.live()
    n = len(data); who = W.S.cur.name
    if self.closed:
      self.calls.append((n, "after-close", who))
      raise _socket.error(errno.EBADF, "bad file descriptor")
    if self.shut:
      self.calls.append((n, "after-shutdown", who))
      raise _socket.error(errno.EPIPE, "broken pipe")
    if self.broken:                # a fatal error is sticky: the connection is gone
      self.calls.append((n, "after-fatal", who))
      raise _socket.error(errno.EPIPE, "broken pipe")
    if self.blocked:
      self.calls.append((n, "eagain-full", who))
      raise _socket.error(errno.EAGAIN, "would block")
    dflt = self.defaults[self.nscripted] if self.nscripted < len(self.defaults) else "all"
    self.nscripted += 1
    kind, k = W.script.outcome(n, "sock%d.send" % self.idx, dflt)
    self.calls.append((n, kind, who))
    if self.backpressure and kind in ("one", "nm1", "half", "eagain"): self.blocked = True
    if kind == "eagain": raise _socket.error(errno.EAGAIN, "would block")
    if kind == "epipe":
      self.broken = True
      raise _socket.error(errno.EPIPE, "broken pipe")
    self.accepted += bytes(data[:k])
    return k
  def recv (self, n, flags=0):
    self.W.live()
    if self.closed: raise _socket.error(errno.EBADF, "bad file descriptor")
    if self.shut or self.eof: return b""
    raise _socket.error(errno.EAGAIN, "would block")
  def shutdown (self, how):
    self.W.live()
    if self.closed: raise _socket.error(errno.EBADF, "bad file descriptor")
    self.shut = True
  def close (self):
    self.W.live()
    self.closed = True


class P2Nexus (object):
  def __init__ (self, W):
    self.W = W; self._connections = {}
  def _disconnect (self, dpid):
    self.W.live()
    if dpid in self._connections:
      del self._connections[dpid]; return True
    return False
  def raiseEventNoErrors (self, event, *args, **kw):
    self.W.live()
    name = getattr(event, "__name__", str(event))
    con = args[0] if args else None
    if name == "ConnectionDown" and con in self.W.cons:
      self.W.downs_nexus[self.W.cons.index(con)].append(self.W.S.cur.name)
  raiseEvent = raiseEventNoErrors


def make_select (S, thr):
  class P2Select (thr.CSelect):
    """select for Connection objects (readiness comes from the connection's fake socket) and the waker.
    A closed socket has fileno() -1: like select.select it raises ValueError.  Every timeout is a
    polling interval (DeferredSender polls every 5 s): never fired while work is pending."""
    @staticmethod
    def _o (o): return getattr(o, "sock", o)
    def _closed (self, r, w, x):
      return any(getattr(self._o(o), "closed", False) for o in r + w + x)
    def _ready (self, r, w, x):
      live = lambda o: not getattr(self._o(o), "closed", False)
      ro = [o for o in r if live(o) and getattr(self._o(o), "readable", lambda: False)()]
      wo = [o for o in w if live(o) and getattr(self._o(o), "writable", lambda: False)()]
      return ro, wo, []
    def select (self, r, w, x, timeout=None):
      r, w, x = list(r), list(w), list(x)
      S.point("select")
      if self._closed(r, w, x):
        raise ValueError("file descriptor cannot be a negative integer (-1)")
      rdy = self._ready(r, w, x)
      if any(rdy): return rdy
      # a descriptor closed by another thread while we wait is not noticed by the OS; the poll
      # interval expires and the next call fails - modelled as an (empty) wake-up
      S.block(lambda: any(self._ready(r, w, x)) or self._closed(r, w, x), deadline=None,
              poll=timeout is not None, what="select")
      return self._ready(r, w, x)
  return P2Select(S)


_ORIG = {}

def p2_exec (ctx, c):
  """One execution.  c: dict(plan=[(con index, msg index)], ncons, eof=None|con index, calls, sdev,
  pipe_buf=None|int, rotate=bool).  Returns (bad list, observation)."""
  from mc.env import boot
  core = boot()
  from mc import thr
  import pox.openflow.of_01 as of01, pox.lib.util as U
  if not _ORIG:
    _ORIG["PIPE_BUF"] = of01.PIPE_BUF
  W = P2World()
  def pending ():
    ds = W.ds
    for con, data in list(ds._dataForConnection.items()):
      if data and not con.disconnected and not con.sock.closed and not con.sock.shut: return True
    # a thread that ends blocked on a lock never returns from the send path
    if any(t.state == "blocked" and t.what.startswith(("Lock ", "RLock ")) for t in S.threads): return True
    return False
  S = thr.Sched(ctx, trace_files=("openflow/of_01.py",), trace_funcs=FUNCS,
                pending=pending, max_points=c.get("max_points", 5000))
  S.rotate = bool(c.get("rotate"))
  W.S = S
  def live ():
    if S.aborting: raise thr.ExplorerExit()
  W.live = live
  W.script = Script(ctx, c["calls"], max_dev=c["sdev"], costly=False)
  of01.threading = P2Threading(S, thr)
  of01.select = make_select(S, thr)
  W.later = []                     # core.callLater(...) requests: run by the cooperative thread
  of01.core = CoreProxy(core, W.later)
  of01.PIPE_BUF = c.get("pipe_buf") or _ORIG["PIPE_BUF"]
  U.makePinger = lambda: thr.CPinger(S, "waker")
  of01.DeferredSender.start = lambda self: S.spawn(self.run, name="deferred")
  W.ds = ds = of01.DeferredSender()          # real object; its run() becomes controlled thread 0
  of01.deferredSender = ds
  nexus = P2Nexus(W)
  W.cons = []; W.socks = []
  W.downs_nexus = [[] for _ in range(c["ncons"])]
  W.downs_con = [[] for _ in range(c["ncons"])]
  W.expected = [b"" for _ in range(c["ncons"])]
  for i in range(c["ncons"]):
    sk = P2Sock(W, i)
    if c.get("backlog"):
      sk.backpressure = True; sk.defaults = list(c["backlog"][i])
    elif c.get("defaults"):
      sk.defaults = list(c["defaults"][i])
    con = of01.Connection(sk)
    sk.setup = False
    con.dpid = i + 1; con.ofnexus = nexus; nexus._connections[i + 1] = con; con.connect_time = 1.0
    def on_down (e, i=i):
      live(); W.downs_con[i].append(S.cur.name)
    con.addListener(of01.ConnectionDown, on_down)
    W.cons.append(con); W.socks.append(sk)
  W.coop_done = False
  W.listener_exc = None
  if c.get("listener"):
    # a component listening to ConnectionDown of connection 0 that reacts by sending on connection 1 (from
    # inside the handler, i.e. on whichever thread raises the event)
    def on_down_send (e):
      live()
      try:
        W.expected[1] += MSGS[3]
        W.cons[1].send(MSGS[3])
      except Exception as x:
        if W.listener_exc is None: W.listener_exc = x
    W.cons[0].addListener(of01.ConnectionDown, on_down_send)

  def deferred_idle ():
    t = S.threads[0]
    return t.state == "done" or (t.state == "blocked" and not t.pred())

  def peer ():
    """The other end of the wire reading: a full socket buffer drains (one socket per step)."""
    while True:
      S.block(lambda: any(sk.blocked and not sk.closed for sk in W.socks), what="peer drain")
      for sk in W.socks:
        if sk.blocked and not sk.closed:
          sk.blocked = False
          S.point("drained%d" % sk.idx)
          break

  def io_pass ():
    while W.later:
      f, a, kw = W.later.pop(0)
      f(*a, **kw)
    for k in [k for k in W.cons if not k.sock.closed]:
      if k.sock.readable():
        if k.read() is False:
          k.close()

  mobj = None
  W.sent_obj = [[] for _ in range(c["ncons"])]
  if c.get("form") == "object":
    import pox.openflow.libopenflow_01 as of
    mobj = of.ofp_echo_request()

  def coop ():
    for pi, (ci, mi) in enumerate(c["plan"]):
      if ci < 0:                   # one pass of the I/O loop at this point of the plan
        S.point("ioloop")
        io_pass()
        continue
      if pi in c.get("waits", ()):
        # the next message is sent "later": after the deferred sender had its chance to flush
        went_idle = [False]
        def later ():
          if deferred_idle(): went_idle[0] = True      # latched: evaluated at every switch while we wait
          return went_idle[0]
        S.block(later, what="later")
      if mobj is None:
        W.expected[ci] += MSGS[mi]
        W.cons[ci].send(MSGS[mi])
      else:
        # API form "message object": ONE object is re-used for every send of the plan (as components do with a
        # flow-mod they re-address); what is queued is the message as it was when send() was called
        mobj.xid = OBJ_XIDS[mi]; mobj.body = MSGS[mi]
        W.expected[ci] += ref_echo_request(OBJ_XIDS[mi], MSGS[mi])
        W.sent_obj[ci].append(ref_echo_request(OBJ_XIDS[mi], MSGS[mi]))
        W.cons[ci].send(mobj)
      S.point("sent")
    if mobj is not None:
      mobj.xid = 0x7e7e7e7e; mobj.body = b"~~~~~~~~~"      # the caller goes on using its object
    if c.get("eof") is not None:
      W.socks[c["eof"]].eof = True           # the peer closed: the I/O loop below reads EOF
    # what OpenFlow_01_Task does: select on the open connections, read, close on EOF
    while True:
      S.point("ioloop")
      open_ = [k for k in W.cons if not k.sock.closed]
      if not open_: break
      S.block(lambda: W.later or any(k.sock.readable() for k in open_), what="io loop select")
      io_pass()
    W.coop_done = True

  if c.get("backlog"): S.spawn(peer, name="peer")
  S.spawn(coop, name="coop")
  leaked = S.run(first=0)
  v = S.verdict
  bad = []
  herr = None
  if leaked: herr = "leaked threads: %s" % ",".join(leaked)
  if v is not None:
    if v[0] == "thread-exception":
      t = [t for t in S.threads if t.exc is not None][0]
      bad.append(("raises:%s:%s:%s" % (t.name, site_of(t.exc), type(t.exc).__name__),
                  "thread %s died: %s: %s" % (t.name, type(t.exc).__name__, t.exc)))
    elif v[0] in ("lost-wakeup", "deadlock"):
      bad.append(("stalled:" + v[0], v[1]))
    elif v[0] == "step-limit":
      bad.append(("step-limit", v[1]))
    else:
      herr = "%s: %s" % v
  if W.listener_exc is not None:
    x = W.listener_exc
    bad.append(("raises:listener:%s:%s" % (site_of(x), type(x).__name__),
                "send() from a ConnectionDown handler raised %s: %s" % (type(x).__name__, x)))
  died = bool(bad)
  for i, con in enumerate(W.cons):
    sk = W.socks[i]
    calls = [(n, k) for n, k, who in sk.calls]
    lost = con.disconnected or sk.closed or sk.shut
    if not W.expected[i].startswith(sk.accepted):
      clause = "stream-prefix"
      if mobj is not None:
        # does the stream diverge into a LATER state of the caller's message object?
        off = 0; rest = None
        for enc in W.sent_obj[i]:
          if sk.accepted[off:off + len(enc)] == enc: off += len(enc)
          else:
            rest = sk.accepted[off:]; break
        later = [e for q in W.sent_obj for e in q] + [ref_echo_request(0x7e7e7e7e, b"~~~~~~~~~")]
        if rest and any(e != enc and (rest.startswith(e) or e.startswith(rest)) for e in later):
          clause = "stream-prefix:message-object-read-after-send-returned"
      bad.append((clause, "connection %d: socket accepted %r which is not a prefix of the sent messages %r"
                  % (i, sk.accepted, W.expected[i])))
    elif not died and not lost and first_fatal(calls) is None and sk.accepted != W.expected[i]:
      bad.append(("stream-incomplete", "connection %d: at quiescence the socket accepted %r of %r" % (i, sk.accepted, W.expected[i])))
    ff = first_fatal(calls)
    if ff is not None and len(calls) > ff + 1:
      n2, k2, who2 = sk.calls[ff + 1]
      state = "socket-already-shut" if k2 in ("after-shutdown", "after-close") else "socket-not-yet-shut"
      bad.append(("send-after-fatal:%s:%s" % ("Connection.send" if who2 == "coop" else "DeferredSender.run", state),
                  "connection %d: sock.send called again (by %s, %s) after a fatal send error: %r" % (i, who2, state, sk.calls)))
    for nm, downs in (("nexus", W.downs_nexus[i]), ("connection", W.downs_con[i])):
      if len(downs) > 1:
        bad.append(("connectiondown-twice", "connection %d: ConnectionDown raised %d times on the %s (threads %r)" % (i, len(downs), nm, downs)))
        break
      if not died and lost and len(downs) == 0:
        bad.append(("connectiondown-missing", "connection %d is lost (disconnected=%r) but ConnectionDown was not raised on the %s"
                    % (i, con.disconnected, nm)))
        break
      if not lost and downs:
        bad.append(("connectiondown-spurious", "connection %d is up but ConnectionDown was raised" % i))
        break
  obs = dict(variant=p2_name(c), verdict=v and v[0], points=S.points,
             socket_calls=[list(sk.calls) for sk in W.socks], accepted=[sk.accepted for sk in W.socks],
             expected=list(W.expected), connection_down=[list(d) for d in W.downs_nexus],
             disconnected=[k.disconnected for k in W.cons], closed=[sk.closed for sk in W.socks],
             sending_flag=ds.sending)
  # break reference cycles of this execution eagerly (gc is disabled while exploring)
  ds._dataForConnection.clear()
  return (bad, herr), obs


def p2_name (c):
  bl = ""
  if c.get("backlog"):
    bl = "/backlog[%s]%s" % ("|".join(",".join(x) for x in c["backlog"]),
                             "/wait%s" % ",".join("%d" % w for w in c["waits"]) if c.get("waits") else "")
  if c.get("defaults"):
    bl = "/defaults[%s]%s%s" % ("|".join(",".join(x) for x in c["defaults"]),
                                "/wait%s" % ",".join("%d" % w for w in c["waits"]) if c.get("waits") else "",
                                "/down-listener-sends-on-1" if c.get("listener") else "")
  return "p2/%dcon%s%s%s%s/plan%s%s" % (c["ncons"], "" if c.get("eof") is None else "/eof%d" % c["eof"],
                                     "/pipebuf%d" % c["pipe_buf"] if c.get("pipe_buf") else "",
                                     "/one-message-object-reused" if c.get("form") == "object" else "", "/rotate" if c.get("rotate") else "",
                                     "".join("%d" % ci if ci >= 0 else "i" for ci, mi in c["plan"]), bl)


ONE = [(0, 0), (0, 1), (0, 2)]
TWO = [(0, 0), (1, 1), (0, 2)]
ABA = [(0, 0), (1, 1), (0, 2)]
ABBA = [(0, 0), (1, 1), (1, 2), (0, 3)]
IO = (-1, -1)                       # plan step: one pass of the I/O loop (read/close) on the cooperative thread
# fatal error in the deferred flush of A (A: short write, then EPIPE), then two later sends on B
LISTEN_DEFERRED = dict(plan=[(0, 0), (1, 1), (1, 2)], waits=[1], defaults=[["one", "epipe"], []])
LISTEN_DEFERRED_B = dict(plan=[(0, 0), (1, 1), (1, 2)], waits=[1], defaults=[["eagain", "epipe"], ["one"]])
# fatal error on the direct write path of A, the I/O loop closes A (ConnectionDown on the cooperative thread),
# B's socket short-writes what the listener sends, so the later sends on B go through the deferred sender
LISTEN_DIRECT = dict(plan=[(0, 0), IO, (1, 1), (1, 2)], waits=[], defaults=[["epipe"], ["one"]])
BACKLOGS = [[["one", "eagain"], ["one"]], [["one", "eagain", "eagain"], ["one"]], [["nm1", "one"], ["eagain", "one"]]]

def p2_configs (cfg):
  cs = []
  def add (ncons, plan, eof=None, bound=2, sdev=2, calls=4, **kw):
    cs.append(dict(part=2, ncons=ncons, plan=plan, eof=eof, bound=bound, sdev=sdev, calls=calls, **kw))
  # (schedule deviations, script deviations)
  if not cfg.quick:
    add(1, ONE, 0, 3, 1)              # the largest items first (load balance)
    add(1, ONE, None, 3, 1)
  for (b, s) in cfg.pick([(2, 1), (1, 2)], [(2, 2)]):
    add(1, ONE, None, b, s)
    add(2, TWO, None, b, s)
    add(1, ONE, 0, b, s)
    add(2, TWO, 0, b, s)
  add(1, ONE, None, 1, 2, pipe_buf=3)
  add(1, ONE, 0, 1, 2, pipe_buf=3)
  # back-pressure scenarios: the DEFAULT socket scripts already put both connections into the deferred state
  # (A: short write, then EAGAIN once or twice; B: short write, then everything), sockets are not writable
  # while full, a peer thread drains them; the last message is sent after the deferred sender went idle
  # fatal-error scenarios with a ConnectionDown listener that sends on the other connection
  for sc in (LISTEN_DEFERRED, LISTEN_DEFERRED_B, LISTEN_DIRECT):
    for (b, s) in cfg.pick([(2, 0), (1, 1)], [(2, 1), (3, 0), (1, 2)]):
      add(2, sc["plan"], None, b, s, calls=6, defaults=sc["defaults"], waits=sc["waits"], listener=True)
  def addb (bl, plan, waits, b, s, **kw): add(2, plan, None, b, s, calls=6, backlog=BACKLOGS[bl], waits=waits, **kw)
  # API form: a message OBJECT (packed by Connection.send) instead of bytes, the same object re-used for every send
  for (b, s) in cfg.pick([(1, 1)], [(2, 1), (1, 2)]):
    add(1, ONE, None, b, s, form="object")
    if not cfg.quick: add(2, TWO, 0, b, s, form="object")
  addb(0, ABA, [2], 1, cfg.pick(0, 1), form="object")
  addb(0, ABA, [], 1, 0, form="object")
  if not cfg.quick: add(1, ONE, None, 1, 2, pipe_buf=3, form="object")
  if cfg.quick:
    addb(0, ABA, [2], 2, 0); addb(0, ABA, [2], 1, 1)
    for bl in range(len(BACKLOGS)):
      for plan, waits in ((ABA, [2]), (ABBA, [3]), (ABA, [])):
        if (bl, plan, waits) != (0, ABA, [2]): addb(bl, plan, waits, 1, 0)
  else:
    addb(0, ABA, [2], 2, 0); addb(1, ABA, [2], 2, 0); addb(0, ABBA, [3], 2, 0)
    for bl in range(len(BACKLOGS)):
      for plan, waits in ((ABA, [2]), (ABBA, [3]), (ABA, [])):
        if waits: addb(bl, plan, waits, 1, 1)
        else: addb(bl, plan, waits, 1, 0)
  if not cfg.quick:
    add(1, ONE, None, 2, 2, pipe_buf=3)
    add(1, ONE, 0, 2, 1, rotate=True)
    add(2, TWO, 0, 2, 1, rotate=True)
  return cs


def p2_run_one (c, prefix):
  ctx = Ctx(prefix)
  res = p2_exec(ctx, c)
  return ctx, res


def kids_of (tr, plen, bound):
  """The children mc.engine.explore would generate for an execution whose prefix had plen choices."""
  base = cost_of(tr, plen)
  out = []
  for i in range(plen, len(tr)):
    ch, arity, label, costly = tr[i]
    for alt in range(1, arity):
      if costly and base + 1 > bound: break
      out.append([t[0] for t in tr[:i]] + [alt])
  return out


def p2_record (rep, c, ctx, res):
  (bad, herr), obs = res
  name = p2_name(c) + "/sched<=%d,script<=%d" % (c["bound"], c["sdev"])
  rep.evaluations += 1
  rep.transitions += obs["points"]
  rep.extra["execs:" + name] = rep.extra.get("execs:" + name, 0) + 1
  rep.outcome((obs["variant"], obs["verdict"], obs["socket_calls"], obs["accepted"], obs["connection_down"],
               obs["disconnected"], obs["closed"], sorted(b[0] for b in bad)))
  if rep.evaluations % 1999 == 1: rep.sample(dict(part=2, **obs))
  if herr: rep.error("%s: %s (choices %r)" % (name, herr, ctx.choices()))
  for clause, what in bad:
    rep.violation("%s:p2:%s" % (PID, clause), "%s [%s]" % (what, p2_name(c)),
                  dict(part=2, config=c, choices=ctx.choices()))
  if rep.evaluations % 200 == 0: gc.collect()


def p2_level_worker (item):
  """Run the executions of the given prefixes (one each, no exploration); return their children.
  The root is run twice to check that the default execution is deterministic."""
  ci, c, prefixes = item
  gc.disable()
  rep = Report(PID, "model_checking")
  kids = []
  npts = None
  try:
    for pfx in prefixes:
      ctx, res = p2_run_one(c, pfx)
      if not pfx:
        ctx2, res2 = p2_run_one(c, pfx)
        if [(t[1], t[2]) for t in ctx.trace] != [(t[1], t[2]) for t in ctx2.trace] or res[1] != res2[1]:
          raise RuntimeError("nondeterministic default execution for %s" % p2_name(c))
        npts = res[1]["points"]
      p2_record(rep, c, ctx, res)
      kids.extend(kids_of(ctx.trace, len(pfx), c["bound"]))
  finally:
    gc.collect(); gc.enable()
  rep.state_count = rep.evaluations
  return ci, rep, kids, npts


def p2_worker (item):
  ci, c, prefixes = item
  gc.disable()
  rep = Report(PID, "model_checking")
  try:
    for pfx in prefixes:
      explore(lambda ctx: p2_exec(ctx, c), dev_bound=c["bound"], prefix0=pfx,
              on_exec=lambda ctx, res: p2_record(rep, c, ctx, res))
  finally:
    gc.collect(); gc.enable()
  rep.state_count = rep.evaluations
  return rep


def chunks (xs, n):
  return [xs[i:i+n] for i in range(0, len(xs), n)]


# ===========================================================================================
def run (cfg):
  rep = Report(PID, "model_checking")
  only = cfg.only
  # ---- part 1
  c1 = p1_configs(cfg)
  if only: c1 = [c for c in c1 if only in p1_name(c)]
  for r in pmap(p1_worker, c1, cfg.workers, seed=cfg.seed):
    rep.merge(r)
  c1b = p1two_configs(cfg)
  if only: c1b = [c for c in c1b if only in p1two_name(c)]
  for r in pmap(p1two_worker, c1b, cfg.workers, seed=cfg.seed):
    rep.merge(r)
  c1c = life_configs(cfg)
  if only: c1c = [c for c in c1c if only in life_name(c)]
  for r in pmap(life_worker, c1c, cfg.workers, seed=cfg.seed):
    rep.merge(r)
  # ---- part 2
  c2 = p2_configs(cfg)
  if only: c2 = [c for c in c2 if only in p2_name(c)]
  pts = {}
  # the DFS tree is partitioned at depth 2: the root and its children are executed one by one
  # (collecting their children), every grandchild is the root of a subtree explored by one worker call
  level = [(ci, c, [[]]) for ci, c in enumerate(c2)]
  for depth in range(2):
    nxt = []
    for ci, r, kids, npts in pmap(p2_level_worker, level, cfg.workers):
      rep.merge(r)
      c = c2[ci]
      if npts is not None: pts["%s/sched<=%d,script<=%d" % (p2_name(c), c["bound"], c["sdev"])] = npts
      nxt.extend((ci, c, ch) for ch in chunks(kids, 4 if depth == 0 else 6))
    level = nxt
  level.sort(key=lambda it: (it[0], it[2]))
  for r in pmap(p2_worker, level, cfg.workers, seed=cfg.seed):
    rep.merge(r)
  rep.rule = ("part 1: real RecocoIOWorker in a hand-driven RecocoIOLoop.run() generator; messages %r queued with every listed "
              "send/send_fast combination (variants: close() at the end; worker.shutdown() after 0..3 of the sends; a worker that is "
              "still connecting, whose connect handler queues nothing / send(m4) / send_fast(m4) when the connect completes on the loop's first "
              "pass, with 0..3 messages buffered before; two workers A and B in one loop with two messages each, sends interleaved A,B,A,B or "
              "A,A,B,B, and reconnect histories where A is closed with bytes possibly still buffered and a NEW worker C is created and used: "
              "every socket receives exactly its own worker's bytes); every interleaving "
              "of client calls and loop iterations; every script of socket.send outcomes {accept all, accept 1, accept n-1, accept "
              "ceil(n/2), EAGAIN, EPIPE} over the first 6 "
              "send calls with <= %d non-default outcomes.  part 2: real of_01.Connection.send on a controlled cooperative thread "
              "(followed by a model of the OpenFlow_01_Task read/close loop) and the real DeferredSender.run on its own controlled "
              "thread; 1 or 2 connections, with and without EOF from the peer after the sends; every thread schedule within the "
              "stated number of deviations from the default schedule (scheduling points: line events in %s, every "
              "RLock/select/waker operation) x every script of outcomes of the first 4 sock.send calls within the stated number of "
              "non-default outcomes; back-pressure scenarios (2 connections, sends A,B,A / A,B,B,A, last send after the deferred "
              "sender went idle or immediately): default socket scripts %r (per connection), a full socket is not writable until a "
              "third controlled thread (the peer) drains it, first 6 sock.send calls scripted; fatal-error scenarios with a "
              "ConnectionDown listener on connection 0 that send()s on connection 1 from inside the handler (fatal error in the deferred "
              "flush: default scripts [one,epipe] / [eagain,epipe]; on the direct write path: [epipe] followed by an I/O-loop pass), then two "
              "later sends on connection 1; API form 'message object': the sends of plan 0,0,0 and of the first back-pressure scenario "
              "made with ONE ofp_echo_request object whose xid/body are set before each send and changed again after the last "
              "(expected bytes = the message as it was when send() was called, encoded from the specification).  "
              "part 1 life cycles: worker kinds %r (the reconnecting kinds on scripted sockets made by a stand-in for workers.socket, "
              "their reconnect timer captured from core.callDelayed and fired as an explorer-chosen step, at most %d connections), "
              "client sends m1 m2 [loss] m3 (where stated: m4) on the current connection, loss in %r (None = scripted send faults only; "
              "close = client close(); data/eof/reset = what the socket's next recv meets, exc = select reports an exceptional "
              "condition), connect handler queues nothing / send / send_fast of a per-connection message; every interleaving of "
              "client step, loop iteration and timer x send-outcome scripts with <= %d (no loss event: %d; four-message variants: 1) non-default outcomes; every "
              "socket accepts a prefix of what was queued on its own connection, no send after a fatal send OR recv error, "
              "close notification exactly once per lost connection.  "
              "distinct = (variant, history/verdict, socket calls, accepted bytes, notifications, failed clauses)"
              % (list(MSGS[:3]), cfg.pick(2, 3), ", ".join(FUNCS), BACKLOGS, list(LIFE_KINDS), LIFE_MAXCONN, list(LIFE_LOSS),
                 cfg.pick(1, 2), cfg.pick(2, 3)))
  rep.bound = dict(part1=dict(configs=len(c1) + len(c1b) + len(c1c), send_calls_scripted=6, script_deviations=cfg.pick(2, 3),
                              life_cycle_configs=len(c1c), life_cycle_connections=LIFE_MAXCONN),
                   part2=dict(configs=len(c2), send_calls_scripted=4, scheduling_points_default_execution=pts))
  rep.assumptions = ["C-level atomicity of dict/list operations (CPython GIL); code outside the listed of_01 functions runs atomically between scheduling points",
                     "modelled RLock/select/waker (mc/thr.py); the fake socket is always writable until closed, a shut-down socket is readable/writable and fails sends with EPIPE, "
                     "select on a closed socket raises ValueError like select.select; DeferredSender's 5 s select timeout is a polling interval never fired while data is queued",
                     "part 2: fatal errors are those of send calls; EOF is delivered to the cooperative thread only after its three sends",
                     "part 1 life cycles: a client does not send on a reconnecting worker between the loss of its connection and the next connection "
                     "(the statement does not say where such messages belong); EOF and an exceptional condition lose the connection but are not "
                     "'fatal socket errors': only a recv that raises (connection reset) forbids further sends",
                     "back-pressure scenarios: a short write or EAGAIN means the socket buffer is full; it stays unwritable (select) and refuses sends (EAGAIN) until the peer thread drains it",
                     "part 1: queueing after SHUT_WR was issued is a client error and is not explored; SHUT_WR is only demanded when shutdown() was requested while bytes were unsent",
                     "no partial-order reduction: counts are schedules x scripts, not equivalence classes"]
  return rep


def explains (known_key, key):
  """A listed key explains itself and its refinements (e.g. C20:p2:send-after-fatal:DeferredSender.run explains
  ...:DeferredSender.run:socket-already-shut)."""
  return key == known_key or key.startswith(known_key + ":")


def replay (cfg, data):
  c = dict(data["config"])
  if data.get("part") == 1 and c.get("life"):
    bad, obs = life_exec(Ctx(list(data["choices"])), c)
    lines = [life_name(c)]
    for k in ("history", "queued", "socket_calls", "peer", "accepted", "close_notifications", "connect_notifications"):
      lines.append("  %-22s %r" % (k, obs[k]))
    lines.append("=> %r" % (bad,))
    return bool(bad), "\n".join(lines)
  if data.get("part") == 1 and c.get("two"):
    bad, obs = p1two_exec(Ctx(list(data["choices"])), c)
    lines = [p1two_name(c)]
    for k in ("history", "queued", "socket_calls", "accepted", "send_buf", "close_handler_runs"):
      lines.append("  %-20s %r" % (k, obs[k]))
    lines.append("=> %r" % (bad,))
    return bool(bad), "\n".join(lines)
  if data.get("part") == 1:
    c["api"] = tuple(c["api"])
    ctx = Ctx(list(data["choices"]))
    bad, obs = p1_exec(ctx, c)
    lines = ["%s" % p1_name(c)]
    for k in ("history", "socket_calls", "accepted", "send_buf", "shutdowns", "close_handler_runs", "socket_closed"):
      lines.append("  %-20s %r" % (k, obs[k]))
    lines.append("=> %r" % (bad,))
    return bool(bad), "\n".join(lines)
  c["plan"] = [tuple(p) for p in c["plan"]]
  gc.disable()
  try:
    ctx, ((bad, herr), obs) = p2_run_one(c, list(data["choices"]))
  finally:
    gc.enable()
  lines = [p2_name(c), "  deviations (index, label, choice): %r" % [(i, t[2], t[0]) for i, t in enumerate(ctx.trace) if t[0]]]
  for k in ("verdict", "socket_calls", "accepted", "expected", "connection_down", "disconnected", "closed", "sending_flag"):
    lines.append("  %-18s %r" % (k, obs[k]))
  if herr: lines.append("  harness error: %s" % herr)
  lines.append("=> %r" % (bad,))
  return bool(bad), "\n".join(lines)
