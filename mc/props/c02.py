"""C02 - message framing is independent of how the byte stream is segmented.

Two real receivers are driven with spec-encoded byte streams (mc/refs/ofwire.py, mc/refs/ofwire_s2c.py;
nothing is encoded by libopenflow_01):

  controller  a real of_01.Connection (mc.env.ControllerStack) on a ScriptSock, handshake completed, then its
              handler table replaced by a recorder; every segment is queued on the socket and Connection.read()
              is called once per recv (recv(2048) hands a longer segment out in pieces, like TCP would).
  switch      mc.env.SwitchStack with a fresh RecocoIOWorker + OFConnection per case (built exactly as the stack
              builds them), message handler replaced by a recorder; the worker is registered with a REAL
              RecocoIOLoop whose run() generator the harness resumes once per select() wake-up with the worker
              readable (-> RecocoIOWorker._do_recv: socket.recv(loop._BUF_SIZE) -> _push_receive_data ->
              OFConnection.read).  The socket is a scripted non-blocking one: at a wake-up it holds one segment,
              recv hands out at most what is queued and raises EAGAIN when empty.

Enumerated: every sequence of <= n messages over a size-chosen alphabet; for each stream every 1-cut, every
fixed read size of a list (1 = the one-byte dribble), every 2-cut over the interesting positions (all 2-cuts for
short streams), (thorough) every 3-cut over the header-critical positions.

Further harnesses on the same two receivers (each described where it is defined): controller-nicira (Nicira VENDOR
unpacker installed), controller-live (real handshake inside the stream), switch-reconnect (loss mid-message, reconnect),
controller-types / switch-types (every message type in every legal length form of a list, e.g. a HELLO with a body),
controller-raising / switch-raising (the handler of chosen deliveries raises), controller-stock / switch-stock /
controller-handshake / controller-task (pox's own handlers and its own task loop in charge), and the context sweep (every
form behind / in front of k bytes of other traffic: where in the reassembly buffer the unpacker finds the message).

Oracle (reference = the sender's own list of messages and their byte slices):
  after every read call  #delivered <= #messages wholly contained in the bytes received so far   (never early)
                         delivered[i] is message i: type / xid / length, and its re-packed bytes equal slice i
                         (never merged, dropped, duplicated or corrupted)
  after the last read    #delivered == #sent, reassembly buffer empty, connection still open
"""
import bisect, errno, gc, itertools, multiprocessing, os, resource, signal, struct, sys, traceback
from mc.engine import pmap
from mc.report import Report
from mc.refs import ofwire as W
from mc.refs import ofwire_s2c as S

PID = "C02"


class HarnessError (Exception): pass

class CaseTimeout (BaseException):
  """Raised by the CPU-time watchdog inside a read call that does not return."""

class Runaway (BaseException):
  """One read call keeps delivering far more messages than were sent (seen with broken framing: a zero-length
  'message' decoded from garbage is delivered forever).  Raised to get out of the receiver's loop."""

class _Bomb (object):
  def __getitem__ (self, i): raise Runaway()
  def __len__ (self): return 256

CASE_CPU_LIMIT = 10.0       # seconds of *CPU* time (ITIMER_VIRTUAL) for one case; a normal case needs < 0.1 s
WORKER_AS_LIMIT = 3 << 30   # address-space cap of a pool worker: runaway allocation becomes a MemoryError

_FROZEN = False

def _on_vtalrm (signum, frame):
  raise CaseTimeout("no return after %.0f s of CPU time" % CASE_CPU_LIMIT)

def _guards ():
  """Keep a receiver that loops or allocates without bound (seen with broken framing, where the bytes that follow
  are decoded as garbage) from hanging or starving the machine: it becomes an exception escaping read()."""
  global _FROZEN
  signal.signal(signal.SIGVTALRM, _on_vtalrm)
  if not _FROZEN:
    # Every fresh receiver is a bundle of reference cycles (nexus <-> listeners <-> connection).  With the ~3e5
    # long-lived objects of the imported POX modules in the oldest generation, CPython postpones full collections
    # and dead receivers pile up (GBs).  Freezing the imported world keeps full collections frequent and cheap.
    gc.collect(); gc.freeze(); _FROZEN = True
  if multiprocessing.current_process().name != "MainProcess":
    soft, hard = resource.getrlimit(resource.RLIMIT_AS)
    if soft == resource.RLIM_INFINITY or soft > WORKER_AS_LIMIT:
      resource.setrlimit(resource.RLIMIT_AS, (WORKER_AS_LIMIT, hard))


class HandshakeFailed (Exception):
  """The controller connection did not get through its handshake although hello, features reply and barrier
  reply were each handed to Connection.read() whole.  They travel the read path under test, so this is reported
  as a violation (clause `handshake`), not as a harness error."""


# ---------------------------------------------------------------------------------------------------
# message alphabets (bytes from the specification encoders; xid distinguishes positions in a sequence)
# ---------------------------------------------------------------------------------------------------
# An exact match (no wildcards) and max_len 0 on a non-controller output are the forms libopenflow re-packs
# byte-for-byte (it normalises irrelevant wildcard bits / max_len otherwise; that is C01's business).
_EXACT = W.match(wildcards=0, in_port=2, dl_src=b"\x02\0\0\0\0\x01", dl_dst=b"\x02\0\0\0\0\x02", dl_vlan=5,
                 dl_vlan_pcp=3, dl_type=0x0800, nw_tos=0x20, nw_proto=6, nw_src=0x0a000001, nw_dst=0x0a000002,
                 tp_src=1234, tp_dst=80)
_OUT = W.a_output(2, 0)

def _pat (n, salt):
  return bytes((i * 7 + salt) % 251 for i in range(n))

# switch -> controller (what the controller side receives)
CTRL = [
  ("barrier_reply",   lambda x: S.barrier_reply(x)),                                             # 8
  ("echo_request",    lambda x: W.echo_request(x, b"ping")),                                     # 12
  ("error",           lambda x: S.error(x, W.OFPET_BAD_REQUEST, W.OFPBRC_BAD_LEN, _pat(8, 1))),    # 20
  ("port_status",     lambda x: S.port_status(x, W.OFPPR_MODIFY,
                                              W.phy_port(3, b"\x02\0\0\0\0\x03", b"eth3", state=1, curr=0x82))),  # 64
  ("packet_in",       lambda x: S.packet_in(x, _pat(61, 2), in_port=3, buffer_id=7, reason=W.OFPR_ACTION)),  # 79
  ("flow_removed",    lambda x: S.flow_removed(x, _EXACT, cookie=5, priority=9, reason=1, duration_sec=3,
                                               duration_nsec=4, idle_timeout=5, packet_count=6, byte_count=7)),  # 88
  ("flow_stats_reply", lambda x: S.stats_reply(x, W.OFPST_FLOW,
                                               S.flow_stats_entry(_EXACT, _OUT, cookie=9, packet_count=1))),  # 108
  ("packet_in_2500",  lambda x: S.packet_in(x, _pat(2482, 3), in_port=1)),                        # 2500
]
# controller -> switch (what the switch side receives)
SWITCH = [
  ("hello",           lambda x: W.hello(x)),                                                     # 8
  ("barrier_request", lambda x: W.barrier_request(x)),                                           # 8
  ("echo_request",    lambda x: W.echo_request(x, b"ping")),                                     # 12
  ("flow_stats_request", lambda x: W.stats_request(x, W.OFPST_FLOW, W.flow_stats_body(_EXACT))),  # 56
  ("flow_mod",        lambda x: W.flow_mod(x, _EXACT, W.OFPFC_ADD, _OUT, priority=5, idle=6, hard=7, cookie=8)),  # 80
  ("packet_out",      lambda x: W.packet_out(x, _OUT, _pat(60, 4), in_port=1)),                   # 84
  ("packet_out_2500", lambda x: W.packet_out(x, _OUT, _pat(2476, 5), in_port=1)),                 # 2500
]
# controller with the Nicira extension component loaded (pox.openflow.nicira replaces the VENDOR unpacker): vendor
# messages of another vendor with 0..5 payload bytes, a well-formed Nicira message, and ordinary neighbours
OTHER_VENDOR = 0x00C0FFEE
NICIRA = [("vendor_other_p%d" % k, (lambda k: lambda x: W.vendor(x, OTHER_VENDOR, _pat(k, 8)))(k)) for k in range(6)] + [   # 12..17
  ("nx_role_reply",  lambda x: W.vendor(x, 0x2320, struct.pack("!LL", 11, 1))),                    # 20 (NXT_ROLE_REPLY, master)
  ("barrier_reply",  lambda x: S.barrier_reply(x)),
  ("packet_in",      lambda x: S.packet_in(x, _pat(61, 2), in_port=3, buffer_id=7, reason=W.OFPR_ACTION)),
]
ALPHA = {"controller": CTRL, "switch": SWITCH, "controller-nicira": NICIRA}
SWEEP = {}


# ---------------------------------------------------------------------------------------------------
# type sweep: every OpenFlow 1.0 message type a side can legally be sent, in every legal LENGTH FORM of a list
# ---------------------------------------------------------------------------------------------------
# The readers trust the unpacker of the message's type to report the offset behind the WHOLE message.  The size-
# chosen alphabets above hold one form of a few types; here every type is swept, each in its minimal form and with
# its variable part (body / data / element list) empty, short, odd-sized and longer - among them the forms the
# specification allows but pox itself never produces: a HELLO with a body ("implementations must be prepared to
# receive a hello message that includes a body, ignoring its contents", 5.5.1; on the controller side also the
# version-4 HELLO with a version bitmap that Connection.read lets through by design), ECHO / ERROR / VENDOR /
# PACKET_IN / PACKET_OUT with 0 data bytes, stats replies with 0 entries, a queue with no properties.
# Each entry: name -> (encoder, strict).  strict=False: the delivered object is compared by type and xid only
# (libopenflow does not keep the bytes: it drops a HELLO's body by design) - every neighbour stays strict.
def _table_stats_entry (table_id, name=b"t"):
  # struct ofp_table_stats: table_id, pad[3], name[32], wildcards, max_entries, active_count, lookup_count, matched_count
  return struct.pack("!B3x32sLLLQQ", table_id, name, W.OFPFW_ALL, 1000, 2, 3, 4)

def _queue_stats_entry (port_no, queue_id):
  # struct ofp_queue_stats: port_no, pad[2], queue_id, tx_bytes, tx_packets, tx_errors
  return struct.pack("!H2xLQQQ", port_no, queue_id, 5, 6, 7)

def _packet_queue (queue_id, props=b""):
  # struct ofp_packet_queue: queue_id, len, pad[2], properties[]
  return struct.pack("!LH2x", queue_id, 8 + len(props)) + props

def _qprop_min_rate (rate):
  # struct ofp_queue_prop_min_rate: prop header (property=1, len=16, pad[4]), rate, pad[6]
  return struct.pack("!HH4xH6x", 1, 16, rate)

def _queue_get_config_reply (xid, port, queues=b""):
  # struct ofp_queue_get_config_reply: header, port, pad[6], queues[]
  return W.msg(W.QUEUE_GET_CONFIG_REPLY, xid, struct.pack("!H6x", port) + queues)

def _hello_body (xid, body, version=1):
  return struct.pack("!BBHL", version, W.HELLO, 8 + len(body), xid) + body

_VERSION_BITMAP = struct.pack("!HHL", 1, 8, 0x00000012)         # OFPHET_VERSIONBITMAP: versions 1 and 4
_PORT = lambda n: W.phy_port(n, b"\x02\0\0\0\0" + bytes([n]), b"p%d" % n, state=1, curr=0x82)
_MIXED_ACTIONS = W.a_set_vlan_vid(7) + W.a_set_dl_src(b"\x02\0\0\0\0\x09") + W.a_output(3, 0)   # 8 + 16 + 8
# one action of every OpenFlow 1.0 type and a vendor action with 8 data bytes (8- and 16-byte actions interleaved)
_ALL_ACTIONS = (W.a_set_vlan_vid(7) + W.a_set_vlan_pcp(3) + W.a_strip_vlan() + W.a_set_dl_src(b"\x02\0\0\0\0\x09") +
                W.a_set_dl_dst(b"\x02\0\0\0\0\x0a") + W.a_set_nw_src(0x0a000003) + W.a_set_nw_dst(0x0a000004) +
                W.a_set_nw_tos(0x20) + W.a_set_tp_src(1000) + W.a_set_tp_dst(2000) + W.a_vendor(OTHER_VENDOR, _pat(8, 18)) +
                W.a_enqueue(2, 1) + W.a_output(3, 0))

def _sweep_common ():
  T = {}
  for k in (1, 4, 7, 8, 16):
    T["hello_body%d" % k] = ((lambda k: lambda x: _hello_body(x, _VERSION_BITMAP if k == 8 else _pat(k, 9)))(k), False)
  for k in (0, 1, 7, 8, 64):
    T["echo_request_data%d" % k] = ((lambda k: lambda x: W.echo_request(x, _pat(k, 10)))(k), True)
  for k in (0, 5):
    T["echo_reply_data%d" % k] = ((lambda k: lambda x: W.echo_reply(x, _pat(k, 11)))(k), True)
  for k in (0, 1, 8, 64):
    T["error_data%d" % k] = ((lambda k: lambda x: S.error(x, W.OFPET_BAD_REQUEST, W.OFPBRC_BAD_LEN, _pat(k, 12)))(k), True)
  for k in (0, 1, 4, 8):
    T["vendor_data%d" % k] = ((lambda k: lambda x: W.vendor(x, OTHER_VENDOR, _pat(k, 13)))(k), True)
  return T

def _sweep_ctrl ():
  T = _sweep_common()
  T["hello_v4_body0"] = (lambda x: _hello_body(x, b"", 4), False)
  T["hello_v4_bitmap"] = (lambda x: _hello_body(x, _VERSION_BITMAP, 4), False)
  for k in (0, 1, 3):
    T["features_reply_ports%d" % k] = ((lambda k: lambda x: S.features_reply(x, 0xC02, [_PORT(i + 1) for i in range(k)]))(k), True)
  T["get_config_reply"] = (lambda x: S.get_config_reply(x, 0, 128), True)
  for k in (0, 1, 14):
    T["packet_in_data%d" % k] = ((lambda k: lambda x: S.packet_in(x, _pat(k, 14), in_port=2, buffer_id=9, total_len=60))(k), True)
  T["flow_removed"] = (dict(CTRL)["flow_removed"], True)
  T["port_status"] = (dict(CTRL)["port_status"], True)
  T["barrier_reply"] = (lambda x: S.barrier_reply(x), True)
  T["stats_reply_desc"] = (lambda x: S.stats_reply(x, W.OFPST_DESC, S.desc_stats_body()), True)
  fe = S.flow_stats_entry(_EXACT, _OUT, cookie=9, packet_count=1)
  T["stats_reply_flow0"] = (lambda x: S.stats_reply(x, W.OFPST_FLOW, b""), True)
  T["stats_reply_flow2"] = (lambda x: S.stats_reply(x, W.OFPST_FLOW, fe + S.flow_stats_entry(_EXACT, _MIXED_ACTIONS, table_id=1)), True)
  T["stats_reply_flow0_more"] = (lambda x: S.stats_reply(x, W.OFPST_FLOW, b"", flags=W.OFPSF_REPLY_MORE), True)
  T["stats_reply_aggregate"] = (lambda x: S.stats_reply(x, W.OFPST_AGGREGATE, S.aggregate_stats_body(1, 2, 3)), True)
  for k in (0, 2):
    T["stats_reply_table%d" % k] = ((lambda k: lambda x: S.stats_reply(x, W.OFPST_TABLE, b"".join(_table_stats_entry(i) for i in range(k))))(k), True)
    T["stats_reply_port%d" % k] = ((lambda k: lambda x: S.stats_reply(x, W.OFPST_PORT, b"".join(S.port_stats_entry(i + 1) for i in range(k))))(k), True)
    T["stats_reply_queue%d" % k] = ((lambda k: lambda x: S.stats_reply(x, W.OFPST_QUEUE, b"".join(_queue_stats_entry(1, i) for i in range(k))))(k), True)
  for k in (0, 3):
    T["stats_reply_vendor_data%d" % k] = ((lambda k: lambda x: S.stats_reply(x, W.OFPST_VENDOR, struct.pack("!L", OTHER_VENDOR) + _pat(k, 15)))(k), True)
  T["queue_config_reply_queues0"] = (lambda x: _queue_get_config_reply(x, 1), True)
  T["queue_config_reply_queue_noprops"] = (lambda x: _queue_get_config_reply(x, 1, _packet_queue(1)), True)
  T["queue_config_reply_queue_propnone"] = (lambda x: _queue_get_config_reply(x, 1, _packet_queue(1, struct.pack("!HH4x", 0, 8))), True)
  T["stats_reply_flow_allactions"] = (lambda x: S.stats_reply(x, W.OFPST_FLOW, S.flow_stats_entry(_EXACT, _ALL_ACTIONS)), True)
  T["queue_config_reply_queue_minrate"] = (lambda x: _queue_get_config_reply(x, 1, _packet_queue(1) + _packet_queue(2, _qprop_min_rate(500))), True)
  T.update(_string_forms())
  return T

# Fixed-width string fields.  A message's length does not depend on what such a field holds, so every content the
# specification admits is a length form of its own: ofp_phy_port.name[16] ("Null-terminated", nothing more - the bytes
# behind the terminator are not constrained) in PORT_STATUS and in every port position of a FEATURES_REPLY;
# ofp_table_stats.name[32] (a char array, not constrained at all); the five ofp_desc_stats strings ("ASCII formatted and
# padded on the right with null bytes": 5.3.5 - so no bytes behind the terminator there).  Content lattice per field of
# width w: empty, one character, w-1 characters + terminator (the longest terminated string), a byte >= 0x80, and - where
# the specification does not demand null padding - a terminated string followed by a non-zero byte right behind the
# terminator / in the last byte of the field / in every remaining byte (a sender that writes the string into a buffer
# it did not clear).  libopenflow re-packs a name zero-padded, so the forms with bytes behind the terminator are compared
# by type and xid like the HELLO bodies; all others by re-packed bytes.
def _zs_contents (w, padding_free):
  C = [("empty", b"", True), ("len1", b"p", True), ("lenmax", bytes(0x21 + (i * 7) % 94 for i in range(w - 1)), True),
       ("latin1", b"\xe9th\xff", True)]
  if padding_free:
    C += [("stray_after_nul", b"eth0\0x", False), ("stray_last_byte", b"eth0" + b"\0" * (w - 5) + b"x", False),
          ("stray_all", b"eth0\0" + b"\xaa" * (w - 5), False)]
  return C

def _string_forms ():
  T = {}
  hw = b"\x02\0\0\0\0\x07"
  for v, name, strict in _zs_contents(16, True):
    T["port_status_name_%s" % v] = ((lambda name: lambda x: S.port_status(x, W.OFPPR_ADD, W.phy_port(7, hw, name, state=1, curr=0x82)))(name), strict)
    for pos in (0, 1):
      T["features_reply_port%d_name_%s" % (pos, v)] = ((lambda name, pos: lambda x: S.features_reply(
        x, 0xC02, [W.phy_port(7, hw, name) if i == pos else _PORT(i + 1) for i in range(2)]))(name, pos), strict)
  for v, name, strict in _zs_contents(32, True):
    T["stats_reply_table_name_%s" % v] = ((lambda name: lambda x: S.stats_reply(x, W.OFPST_TABLE, _table_stats_entry(0, name) + _table_stats_entry(1)))(name), strict)
  for k, (field, w) in enumerate((("mfr", 256), ("hw", 256), ("sw", 256), ("serial", 32), ("dp", 256))):
    for v, text, strict in _zs_contents(w, False):
      if v == "latin1": continue                  # "ASCII formatted"
      T["stats_reply_desc_%s_%s" % (field, v)] = ((lambda field, text: lambda x: S.stats_reply(x, W.OFPST_DESC, S.desc_stats_body(**{field: text})))(field, text), strict)
  return T

def _sweep_switch ():
  T = _sweep_common()
  T["features_request"] = (lambda x: W.features_request(x), True)
  T["get_config_request"] = (lambda x: W.get_config_request(x), True)
  T["set_config"] = (lambda x: W.set_config(x, 0, 128), True)
  for a, acts in ((0, b""), (1, _OUT), (3, _MIXED_ACTIONS), (13, _ALL_ACTIONS)):
    T["flow_mod_actions%d" % a] = ((lambda acts: lambda x: W.flow_mod(x, _EXACT, W.OFPFC_ADD, acts, priority=5, idle=6, hard=7, cookie=8))(acts), True)
    for k in (0, 1, 60):
      T["packet_out_actions%d_data%d" % (a, k)] = ((lambda acts, k: lambda x: W.packet_out(x, acts, _pat(k, 16), in_port=1))(acts, k), True)
  T["packet_out_buffered"] = (lambda x: W.packet_out(x, _OUT, b"", buffer_id=5, in_port=1), True)
  T["port_mod"] = (lambda x: W.port_mod(x, 1, b"\x02\0\0\0\0\x01", W.OFPPC_NO_FLOOD, W.OFPPC_NO_FLOOD), True)
  T["stats_request_desc"] = (lambda x: W.stats_request(x, W.OFPST_DESC), True)
  T["stats_request_flow"] = (lambda x: W.stats_request(x, W.OFPST_FLOW, W.flow_stats_body(_EXACT)), True)
  T["stats_request_aggregate"] = (lambda x: W.stats_request(x, W.OFPST_AGGREGATE, W.flow_stats_body(_EXACT)), True)
  T["stats_request_table"] = (lambda x: W.stats_request(x, W.OFPST_TABLE), True)
  T["stats_request_port"] = (lambda x: W.stats_request(x, W.OFPST_PORT, W.port_stats_body(W.OFPP_NONE)), True)
  T["stats_request_queue"] = (lambda x: W.stats_request(x, W.OFPST_QUEUE, W.queue_stats_body(W.OFPP_ALL, W.OFPQ_ALL)), True)
  for k in (0, 3):
    T["stats_request_vendor_data%d" % k] = ((lambda k: lambda x: W.stats_request(x, W.OFPST_VENDOR, struct.pack("!L", OTHER_VENDOR) + _pat(k, 17)))(k), True)
  T["barrier_request"] = (lambda x: W.barrier_request(x), True)
  T["queue_get_config_request"] = (lambda x: W.queue_get_config_request(x, 1), True)
  return T

SWEEP.update({"controller-types": _sweep_ctrl(), "switch-types": _sweep_switch()})
SWEEP_BEFORE = {"controller-types": "echo_request", "switch-types": "echo_request"}       # 12 bytes
SWEEP_AFTER = {"controller-types": "barrier_reply", "switch-types": "barrier_request"}    # 8 bytes
SWEEP_BEFORE["controller-nicira"] = SWEEP_AFTER["controller-nicira"] = "barrier_reply"    # (context sweep only)
for _s, _base in (("controller-types", CTRL), ("switch-types", SWITCH)):
  ALPHA[_s] = [(n, f) for n, (f, strict) in SWEEP[_s].items()] + [(n, f) for n, f in _base if n not in SWEEP[_s]]

def loose_of (side, seq):
  """Positions whose delivered object is compared by type and xid only."""
  T = SWEEP.get(side, {})
  return frozenset(i for i, n in enumerate(seq) if n in T and not T[n][1])


# ---------------------------------------------------------------------------------------------------
# handlers that raise: the receiver's answer to "what does the handler of delivery i do" is part of the environment
# ---------------------------------------------------------------------------------------------------
# Both readers call the handler inside a try block and carry on with the rest of the buffer when it raises
# (Connection.read: bare except + log; OFConnection.read: ERR_EXCEPTION -> _error_handler logs).  The message WAS
# delivered; what the property says about the messages around it does not depend on what the handler did with it.
# Alphabet: three small messages (8 / 12 / 20 bytes; equal-length neighbours arise as repetitions).
RAISING = {"controller-raising": ("barrier_reply", "echo_request", "error"),
           "switch-raising": ("barrier_request", "echo_request", "packet_out_24")}
ALPHA["controller-raising"] = [(n, f) for n, f in CTRL if n in RAISING["controller-raising"]]
ALPHA["switch-raising"] = [(n, f) for n, f in SWITCH if n in RAISING["switch-raising"]] + \
                          [("packet_out_24", lambda x: W.packet_out(x, _OUT, b"", buffer_id=5, in_port=1))]       # 24

class HandlerRaised (Exception):
  """What the scripted handler raises."""

def raise_sets (n, every_subset):
  """Which deliveries' handlers raise: each single position and all of them (thorough: every non-empty subset)."""
  if every_subset:
    return [c for k in range(1, n + 1) for c in itertools.combinations(range(n), k)]
  out = [(i,) for i in range(n)]
  if n > 1: out.append(tuple(range(n)))
  return out

# ---------------------------------------------------------------------------------------------------
# stock handlers: what pox itself does with a delivered message is part of the read path
# ---------------------------------------------------------------------------------------------------
# Every harness above REPLACES the receiver's handler (recorder; recorder that raises).  A deployed connection runs
# pox's own: of_01.DefaultOpenFlowHandlers after the handshake (events on the nexus, logging of ERROR / VENDOR
# messages, echo replies, stats aggregation, port bookkeeping), SoftwareSwitch.rx_message on the switch (flow table,
# packet-out processing, replies, error replies).  Both readers call them from inside their loop, between taking a
# message off the buffer and trimming / re-examining it, and both evaluate str(msg) / msg.show() on the way (handlers
# that log; Connection.read's own except block formats the message EAGERLY, so a handler failure on a message whose
# pretty-printer fails too escapes read() before the buffer is trimmed).  What the stock handler does depends on the
# message's VALUES, not only its type and length form.  So: `controller-stock` / `switch-stock` keep the stock handler
# (the recorder records, then calls it), run with logging ENABLED at DEBUG into a formatting sink (pox's default
# level; everything guarded by isEnabledFor / formatted lazily is evaluated), and sweep
#   * every (type, length form) of the type sweep, and
#   * the value domain of every field a stock handler or pretty-printer dispatches on: ERROR type x code over the whole
#     named range, one past it and 0xffff (later revisions / real switches use codes OpenFlow 1.0 does not name);
#     reasons of PACKET_IN / PORT_STATUS / FLOW_REMOVED incl. one past the named range; known / unknown / reserved
#     ports; config flags; stats types incl. vendor, unknown and REPLY_MORE; on the switch side flow-mod commands incl.
#     one past the named range, flags, buffered forms with an unknown buffer, packet-out to every reserved port, port-mod
#     for known / unknown port and right / wrong hardware address, every stats request type, set-config flags
# each alone before, and between, ordinary messages; with and without the (wrapped) handler of that delivery raising
# after the stock handler returned.  Oracle unchanged: the wrapper's record is the delivery.
def _eth_frame (n=60):
  """A well-formed Ethernet / IPv4 / TCP frame (addresses of ports 1 -> 2), padded to n bytes."""
  ip = struct.pack("!BBHHHBBH4s4s", 0x45, 0, 40, 1, 0, 64, 6, 0, bytes([10, 0, 0, 1]), bytes([10, 0, 0, 2]))
  tcp = struct.pack("!HHLLBBHHH", 1234, 80, 1, 0, 0x50, 0x02, 8192, 0, 0)
  f = b"\x02\0\0\0\0\x02" + b"\x02\0\0\0\0\x01" + b"\x08\x00" + ip + tcp
  return f + b"\0" * (n - len(f))

ERROR_CODES_NAMED = {0: 2, 1: 9, 2: 9, 3: 6, 4: 2, 5: 3}      # OpenFlow 1.0: number of named codes per error type
ERROR_TYPES = (0, 1, 2, 3, 4, 5, 6, 0xffff)
ERROR_CODES = tuple(range(0, 10)) + (0xffff,)               # 0..8 are named for some type; 9 and 0xffff for none
_FLOW_MOD_REQ = W.flow_mod(0x77, _EXACT, W.OFPFC_ADD, _OUT, priority=5)     # 80 bytes; ERROR data carries >= 64 of them

def _values_ctrl ():
  T = {}
  for t in ERROR_TYPES:
    for c in ERROR_CODES:
      T["error_t%d_c%d" % (t, c)] = ((lambda t, c: lambda x: S.error(x, t, c, _pat(8, 19)))(t, c), True)
  T["error_hello_failed_text"] = (lambda x: S.error(x, W.OFPET_HELLO_FAILED, 0, b"Version unsupported"), True)
  T["error_flow_mod_failed_request64"] = (lambda x: S.error(x, W.OFPET_FLOW_MOD_FAILED, 0, _FLOW_MOD_REQ[:64]), True)
  T["error_bad_request_c9_request80"] = (lambda x: S.error(x, W.OFPET_BAD_REQUEST, 9, _FLOW_MOD_REQ), True)
  for r in (0, 1, 2, 3):                      # ADD, DELETE, MODIFY, one past
    for p in (1, 3, W.OFPP_LOCAL):            # port 1 is in the handshake's features reply, 3 is not
      T["port_status_r%d_p%d" % (r, p)] = ((lambda r, p: lambda x: S.port_status(x, r, W.phy_port(p, b"\x02\0\0\0\0\x03", b"eth3", state=1, curr=0x82)))(r, p), True)
  for r in (0, 1, 2):                         # NO_MATCH, ACTION, one past
    for b in (W.NO_BUFFER, 7):
      T["packet_in_r%d_%s" % (r, "unbuffered" if b == W.NO_BUFFER else "buffered")] = \
        ((lambda r, b: lambda x: S.packet_in(x, _eth_frame(), in_port=1, buffer_id=b, reason=r))(r, b), True)
  for r in (0, 1, 2, 3):                      # IDLE_TIMEOUT, HARD_TIMEOUT, DELETE, one past
    T["flow_removed_r%d" % r] = ((lambda r: lambda x: S.flow_removed(x, _EXACT, cookie=5, priority=9, reason=r, duration_sec=3,
                                  duration_nsec=4, idle_timeout=5, packet_count=6, byte_count=7))(r), True)
  for f in (0, 1, 2, 3):
    T["get_config_reply_flags%d" % f] = ((lambda f: lambda x: S.get_config_reply(x, f, 0xffff))(f), True)
  fe = S.flow_stats_entry(_EXACT, _OUT, cookie=9, packet_count=1)
  T["stats_reply_flow1_more"] = (lambda x: S.stats_reply(x, W.OFPST_FLOW, fe, flags=W.OFPSF_REPLY_MORE), True)
  T["stats_reply_desc_more"] = (lambda x: S.stats_reply(x, W.OFPST_DESC, S.desc_stats_body(), flags=W.OFPSF_REPLY_MORE), True)
  T["stats_reply_vendor_more"] = (lambda x: S.stats_reply(x, W.OFPST_VENDOR, struct.pack("!L", OTHER_VENDOR), flags=W.OFPSF_REPLY_MORE), True)
  T["stats_reply_port1_more"] = (lambda x: S.stats_reply(x, W.OFPST_PORT, S.port_stats_entry(1), flags=W.OFPSF_REPLY_MORE), True)
  T["vendor_nicira_role_reply"] = (lambda x: W.vendor(x, 0x2320, struct.pack("!LL", 11, 1)), True)
  T["features_reply_caps_all"] = (lambda x: S.features_reply(x, 0xC02, [_PORT(1), _PORT(5)], n_buffers=256, n_tables=2,
                                                             capabilities=0xff, actions=0xfff), True)
  return T

def _values_switch ():
  T = {}
  for cmd in (0, 1, 2, 3, 4, 5):              # ADD .. DELETE_STRICT, one past
    for b in (W.NO_BUFFER, 5):                # no switch buffer holds id 5: the spec's BUFFER_UNKNOWN case
      T["flow_mod_cmd%d_%s" % (cmd, "unbuffered" if b == W.NO_BUFFER else "buffer5")] = \
        ((lambda cmd, b: lambda x: W.flow_mod(x, _EXACT, cmd, _OUT, priority=5, idle=6, hard=7, cookie=8, buffer_id=b))(cmd, b), True)
  for fl in (1, 2, 3, 4, 7):                  # SEND_FLOW_REM, CHECK_OVERLAP, both, EMERG, all
    T["flow_mod_add_flags%d" % fl] = ((lambda fl: lambda x: W.flow_mod(x, _EXACT, W.OFPFC_ADD, _OUT, priority=5, flags=fl))(fl), True)
  T["flow_mod_delete_out_port2"] = (lambda x: W.flow_mod(x, _EXACT, W.OFPFC_DELETE, b"", out_port=2), True)
  for port in (1, 2, 99, W.OFPP_IN_PORT, W.OFPP_TABLE, W.OFPP_NORMAL, W.OFPP_FLOOD, W.OFPP_ALL, W.OFPP_CONTROLLER,
               W.OFPP_LOCAL, W.OFPP_NONE):
    T["packet_out_to%d" % port] = ((lambda port: lambda x: W.packet_out(x, W.a_output(port, 0), _eth_frame(), in_port=1))(port), True)
  T["packet_out_in_port_controller"] = (lambda x: W.packet_out(x, W.a_output(W.OFPP_FLOOD, 0), _eth_frame(), in_port=W.OFPP_CONTROLLER), True)
  T["packet_out_allactions_frame"] = (lambda x: W.packet_out(x, _ALL_ACTIONS, _eth_frame(), in_port=1), True)
  for p, hw in ((1, b"\x02\0\0\0\0\x01"), (1, b"\x02\0\0\0\0\x7f"), (99, b"\x02\0\0\0\0\x01"), (W.OFPP_LOCAL, b"\x02\0\0\0\0\x01")):
    for cfg in (W.OFPPC_PORT_DOWN, W.OFPPC_NO_FLOOD, 0x7f):
      T["port_mod_p%d_hw%02x_cfg%d" % (p, hw[-1], cfg)] = ((lambda p, hw, cfg: lambda x: W.port_mod(x, p, hw, cfg, cfg))(p, hw, cfg), True)
  T["port_mod_p1_clear_all"] = (lambda x: W.port_mod(x, 1, b"\x02\0\0\0\0\x01", 0, 0x7f), True)
  T["stats_request_flow_table0_out2"] = (lambda x: W.stats_request(x, W.OFPST_FLOW, W.flow_stats_body(_EXACT, table_id=0, out_port=2)), True)
  T["stats_request_flow_allwild"] = (lambda x: W.stats_request(x, W.OFPST_FLOW, W.flow_stats_body(W.match())), True)
  T["stats_request_aggregate_allwild"] = (lambda x: W.stats_request(x, W.OFPST_AGGREGATE, W.flow_stats_body(W.match())), True)
  for p in (1, 99):
    T["stats_request_port%d" % p] = ((lambda p: lambda x: W.stats_request(x, W.OFPST_PORT, W.port_stats_body(p)))(p), True)
    T["stats_request_queue_port%d" % p] = ((lambda p: lambda x: W.stats_request(x, W.OFPST_QUEUE, W.queue_stats_body(p, 0)))(p), True)
    T["queue_get_config_request_port%d" % p] = ((lambda p: lambda x: W.queue_get_config_request(x, p))(p), True)
  T["stats_request_type6"] = (lambda x: W.stats_request(x, 6), True)          # one past the named range (BAD_STAT is owed)
  for fl in (0, 1, 2, 3):
    for ml in (0, 0xffff):
      T["set_config_flags%d_len%d" % (fl, ml)] = ((lambda fl, ml: lambda x: W.set_config(x, fl, ml))(fl, ml), True)
  T["vendor_nicira_role_request"] = (lambda x: W.vendor(x, 0x2320, struct.pack("!LL", 10, 1)), True)
  return T

def _stock_table (types, values):
  T = dict(types)
  for n, v in values.items():
    if n in T: raise HarnessError("stock alphabet: duplicate form %s" % n)
    T[n] = v
  return T

SWEEP["controller-stock"] = _stock_table(SWEEP["controller-types"], _values_ctrl())
SWEEP["switch-stock"] = _stock_table(SWEEP["switch-types"], _values_switch())
N_VALUE_FORMS = {"controller-stock": len(_values_ctrl()), "switch-stock": len(_values_switch())}
for _s, _t in (("controller-stock", "controller-types"), ("switch-stock", "switch-types")):
  SWEEP_BEFORE[_s] = SWEEP_BEFORE[_t]; SWEEP_AFTER[_s] = SWEEP_AFTER[_t]
  ALPHA[_s] = [(n, f) for n, (f, strict) in SWEEP[_s].items()] + [(n, f) for n, f in ALPHA[_t] if n not in SWEEP[_s]]
ALPHA["controller-task"] = ALPHA["controller-stock"]

def stock_raise_sets (seq, deep):
  """Which deliveries' (wrapped) handlers raise after the stock handler returned: none; the swept form's own delivery
  (deep: each single delivery, and all of them)."""
  n = len(seq)
  if deep: return [()] + raise_sets(n, False)
  return [(), (n - 2,)]


class _Sink (__import__("logging").Handler):
  """Formats every record's message (msg % args - where pox objects get stringified; the traceback text of
  log.exception is the standard library's business and is not rendered) and throws the text away."""
  def emit (self, record):
    try: record.getMessage()
    except Exception: pass
  def handleError (self, record): pass

class _Logging (object):
  """Logging enabled at DEBUG into a formatting sink for the duration of a stock-handler case (mc.env.boot silences
  logging for every other harness); previous configuration restored afterwards."""
  def __init__ (self): self.on = False; self.sink = _Sink()
  def __enter__ (self):
    import logging
    root = logging.getLogger()
    self.saved = (root.manager.disable, root.level)
    logging.disable(logging.NOTSET); root.setLevel(logging.DEBUG); root.addHandler(self.sink)
    self.on = True
  def __exit__ (self, *a):
    import logging
    root = logging.getLogger()
    root.removeHandler(self.sink); root.setLevel(self.saved[1]); logging.disable(self.saved[0])
    self.on = False

_LOGGING = _Logging()

SMALL_STREAM = 120          # streams up to this length get every 2-cut
CHUNKS = list(range(1, 17)) + [2047, 2048, 2049]


# near-maximum-size messages (the length field is 16 bits): "jumbo_<length>"; controller side a packet-in, switch
# side a packet-out, both carrying (length - fixed part) bytes of data
JUMBO_SIZES = (63487, 63488, 63489, 65535)      # 31*2048 - 1, 31*2048, 31*2048 + 1, 0xffff

def jumbo (side, n):
  if side == "controller": return lambda x: S.packet_in(x, _pat(n - 18, 6), in_port=1)
  return lambda x: W.packet_out(x, _OUT, _pat(n - 24, 7), in_port=1)


# ---------------------------------------------------------------------------------------------------
# context sweep: WHERE in the reassembly buffer a message lies when it is unpacked, and how much lies behind it
# ---------------------------------------------------------------------------------------------------
# Connection.read unpacks IN PLACE: unpackers[type](self.buf, offset) - the unpacker sees the whole buffer, the message
# starts at `offset` (= the bytes of the complete messages handled before it in the same read call) and is followed by
# whatever else has arrived.  An unpacker that mixes up a position in the buffer with a position in the message, or the
# end of the buffer with the end of the message, works for offset 0 / nothing behind and fails otherwise - and how far
# it is off depends on the sizes.  The type sweep's neighbours are 12 bytes before and 8 behind.  Here every form X of the
# type sweep is put behind k bytes of earlier traffic (one ECHO_REQUEST of exactly k bytes, "pad_<k>") for k over a
# lattice that reaches beyond the longest form, and in front of k bytes likewise:  pad_k + X + after,  before + X + pad_k.
# Which offsets the unpacker then sees is decided by the segmentation: a cut inside the pad -> X at offset k; a cut
# inside X -> X at offset 0; a cut behind X -> X at offset k with only part of what follows in the buffer.
CONTEXT_BEFORE = {True: (8, 24, 64, 256, 1200), False: (8, 16, 24, 32, 64, 128, 256, 512, 1200, 2040, 2500)}      # quick / thorough
CONTEXT_AFTER = {True: (64, 1200), False: (16, 24, 64, 256, 1200, 2500)}

def pad (k):
  return lambda x: W.echo_request(x, _pat(k - 8, 23))

def is_context (seq):
  return any(n.startswith("pad_") for n in seq)

def context_sequences (side, name, quick):
  for k in CONTEXT_BEFORE[quick]: yield ("pad_%d" % k, name, SWEEP_AFTER[side])
  for k in CONTEXT_AFTER[quick]: yield (SWEEP_BEFORE[side], name, "pad_%d" % k)

def context_cases (lens, deep):
  """Unsegmented, every 1-cut over P (deep: and at every position inside the swept form, the middle message), the
  fixed read sizes, every 2-cut over the header-critical positions (deep: over P)."""
  L = sum(lens)
  yield ("cuts", ())
  P = interesting(lens)
  one = sorted(set(P) | set(range(lens[0], lens[0] + lens[1] + 1))) if deep and len(lens) == 3 else P
  for p in one:
    if 1 <= p <= L - 1: yield ("cuts", (p,))
  for k in CHUNKS:
    if k < L: yield ("chunk", k)
  for c in itertools.combinations(P if deep else critical(lens), 2): yield ("cuts", c)


def build (side, seq):
  if side == "controller-handshake": return hs_build(seq)
  tab = dict(ALPHA[side])
  for name in seq:
    if name.startswith("jumbo_") and name not in tab: tab[name] = jumbo(side, int(name[6:]))
    if name.startswith("pad_") and name not in tab: tab[name] = pad(int(name[4:]))
  return [tab[name](0x0C020000 + 0x101 * (i + 1)) for i, name in enumerate(seq)]


# ---------------------------------------------------------------------------------------------------
# the two real receivers
# ---------------------------------------------------------------------------------------------------
class Recorder (object):
  def __init__ (self):
    self.log = []
    self.limit = 64
    self.runaway = False
    self.raise_at = ()          # deliveries (by index) whose handler raises after the message has been recorded
    self.raised = 0             # how many times it did
    self.excused = 0            # switch side: ERR_EXCEPTION reports to expect for them (never demanded)
    self.stock = None           # stock handler to call after recording (the -stock harnesses), else None
    self.stock_raised = 0       # how many times the stock handler itself raised an Exception
    self.last_exc = None        # the exception the handler (stock or scripted) raised last
    self.depth = 0              # > 0 while a stock handler runs (it may call handlers itself: deferred port status)
  def __call__ (self, con, msg, stock=None):
    stock = stock or self.stock
    if self.depth:
      # a handler invoked BY a stock handler (not by the reader): not a delivery of the reader's, passed through
      return stock(con, msg) if stock is not None else None
    if len(self.log) >= self.limit:
      # of_01.Connection.read swallows whatever a handler raises (bare except) and carries on, so the way out of
      # its loop is its next unpacker lookup, which is not guarded; OFConnection.read lets a BaseException through.
      self.runaway = True
      con.unpackers = _Bomb()
      raise Runaway()
    try: packed = msg.pack()
    except Exception as e: packed = "pack raised %s: %s" % (type(e).__name__, e)
    self.log.append((getattr(msg, "header_type", None), getattr(msg, "xid", None), packed, type(msg).__name__))
    i = len(self.log) - 1
    if stock is not None:
      self.depth += 1
      try:
        stock(con, msg)
      except Exception as e:
        # what pox's own handler does with the message (including failing) is not framing: the message was delivered
        self.stock_raised += 1; self.excused += 1; self.last_exc = e
        raise
      finally:
        self.depth -= 1
    if i in self.raise_at:
      self.raised += 1; self.excused += 1
      self.last_exc = HandlerRaised("scripted handler failure at delivery %d" % i)
      raise self.last_exc


def _nicira (on):
  """Configuration switch: install / remove the Nicira component's VENDOR unpacker in of_01's (module global, shared)
  unpacker table - what pox.openflow.nicira.launch() does via _init_unpacker()."""
  import pox.openflow.of_01 as of01
  if not on and "pox.openflow.nicira" not in sys.modules: return
  import pox.openflow.nicira as nx
  installed = of01.unpackers[W.VENDOR] is nx._unpack_nx_vendor
  if on and not installed: nx._init_unpacker()
  elif not on and installed: of01.unpackers[W.VENDOR] = nx._old_unpacker


class CtrlEnd (object):
  """Fresh nexus + real of_01.Connection, handshake driven over the wire, then recorder handlers."""
  side = "controller"
  nicira = False
  stock = False
  def __init__ (self):
    from mc import env
    _nicira(self.nicira)
    cs = env.ControllerStack()
    i = cs.connect()
    con = cs.cons[i]
    cs.feed(i, W.hello(1))
    tx, _ = W.split(cs.take_tx(i))
    fr = [m for m in tx if m[1] == W.FEATURES_REQUEST]
    if not fr: raise HandshakeFailed("no-features-request-after-hello")
    cs.feed(i, S.features_reply(W.parse_hdr(fr[0])[3], 0xC02, [W.phy_port(1, b"\x02\0\0\0\0\x01", b"p1")]))
    tx, _ = W.split(cs.take_tx(i))
    br = [m for m in tx if m[1] == W.BARRIER_REQUEST]
    if not br: raise HandshakeFailed("no-barrier-request-after-features-reply")
    cs.feed(i, S.barrier_reply(W.parse_hdr(br[0])[3]))
    if con.connect_time is None or not any(e[0] == "ConnectionUp" for e in cs.events) or con.buf:
      raise HandshakeFailed("not-up-after-barrier-reply")
    # OpenFlowNexus.__init__ subscribes itself to the core singleton; drop that subscription (core events play
    # no part here) or every nexus ever built - and all it references - stays alive for the whole run.
    for lst in cs.core._eventMixin_handlers.values():
      lst[:] = [h for h in lst if getattr(h[1], "__self__", None) is not cs.nexus]
    self.cs, self.con, self.sock = cs, con, con.sock
    self.rec = Recorder()
    if self.stock:
      # the table the handshake installed (of_01._default_handlers.handlers) stays in charge: the recorder records,
      # then calls the stock handler of the message's type
      orig = list(con.handlers)
      if con.handlers is not self.cs.of01._default_handlers.handlers:
        raise HandshakeFailed("default-handlers-not-installed")
      self.rec.stock = lambda c, m, orig=orig: orig[m.header_type](c, m)
      con.handlers = [self.rec] * len(orig)
    else:
      con.handlers = [self.rec] * 256
    self.log = self.rec.log
    self.notes = []
    self.used = False

  def feed (self, seg):
    """Queue one segment; yield (bytes consumed by this read call) after every Connection.read()."""
    sock = self.sock
    sock.rx.append(seg)
    while sock.rx:
      before = sum(len(c) for c in sock.rx)
      r = self.con.read()
      if r is not True: self.notes.append("read-returned-%r" % (r,))
      yield before - sum(len(c) for c in sock.rx)

  def residual (self): return bytes(self.con.buf)
  def open (self): return not self.sock.closed and not self.con.disconnected


def _make_ioloop (worker):
  """A real RecocoIOLoop with the worker registered, its run() generator advanced to its first Select.  The loop is
  a recoco Task whose run() yields Select(...) and is resumed with (rlist, wlist, elist); the harness plays the
  scheduler: one resumption with the worker in rlist = one select() wake-up with the socket readable.  Wake-up
  pipes are replaced by counters (pox.lib.ioworker.makePinger rebound), nothing else."""
  from mc import env
  import pox.lib.ioworker as iow
  iow.makePinger = env.FakePinger
  loop = iow.RecocoIOLoop()
  loop.register_worker(worker)
  gen = loop.run()
  sel = next(gen)                       # executes the pending registration, arrives at the first Select
  if worker not in loop._workers: raise HarnessError("worker not registered with the I/O loop")
  return loop, gen


_SWSTACK = None

class SwitchEnd (object):
  side = "switch"
  stock = False
  def __init__ (self):
    global _SWSTACK
    from mc import env
    if _SWSTACK is None: _SWSTACK = env.SwitchStack()
    st = _SWSTACK
    from pox.lib.ioworker import RecocoIOWorker
    swmod = st.swmod
    swmod.OFConnection.ID = 0          # one logger name for all cases (OFConnection makes a logger per ID)
    class SegSock (env.FakeSock):
      """Non-blocking socket: rx is what the kernel holds at this wake-up; recv hands out at most n bytes of it and
      raises EAGAIN when there is nothing (BlockingIOError is the socket.error a real non-blocking socket raises)."""
      rx = None
      recvs = 0
      def recv (s, n, flags=0):
        s.recvs += 1
        if not s.rx: raise BlockingIOError(errno.EAGAIN, "Resource temporarily unavailable")
        c = s.rx.pop(0)
        if len(c) > n:
          s.rx.insert(0, c[n:]); c = c[:n]
        return c
    self.sock = SegSock(); self.sock.rx = []
    st.sock = self.sock
    st.worker = self.worker = RecocoIOWorker(self.sock)
    st.conn = self.conn = swmod.OFConnection(self.worker)
    self.rec = Recorder()
    if self.stock:
      # a fresh SoftwareSwitch of its own (what it does with the messages changes its state): 4 ports with known
      # hardware addresses; its rx_message stays in charge, called by the recorder after recording
      self.sw = swmod.SoftwareSwitch(0xC02, ports=0)
      for n in range(1, 5): self.sw.add_port(self.sw.generate_port(n, ethaddr="02:00:00:00:00:%02x" % n))
      self.sw.set_connection(self.conn)
      self.rec.stock = self.conn.on_message_received
      if self.rec.stock is None: raise HarnessError("SoftwareSwitch.set_connection installed no message handler")
    else:
      st.sw.set_connection(self.conn)
    self.conn.set_message_handler(self.rec)      # the switch's handler replaced by the recorder
    self.log = self.rec.log
    self.notes = []
    self.used = False
    orig = self.conn._error_handler
    def eh (reason, info):
      if reason == 4 and self.rec.excused > 0 and (isinstance(info[0], HandlerRaised) or info[0] is self.rec.last_exc):
        self.rec.excused -= 1             # the scripted handler failure being reported: owed, not a framing event
      else:
        self.notes.append("error-handler-%s" % {1: "BAD_VERSION", 2: "NO_UNPACKER", 3: "BAD_LENGTH",
                                                  4: "EXCEPTION"}.get(reason, reason))
      return orig(reason, info)
    self.conn._error_handler = eh
    self.loop, self.gen = _make_ioloop(self.worker)     # sets worker.on_close / worker.pinger like the datapath's loop

  def feed (self, seg):
    """The socket now holds `seg`; while it is readable, let the real loop service it: one resumption of
    RecocoIOLoop.run with the worker in rlist (-> worker._do_recv(loop)) per select() wake-up."""
    sock = self.sock
    sock.rx.append(seg)
    while sock.rx:
      before = sum(len(c) for c in sock.rx)
      try:
        self.gen.send(([self.worker], [], []))
      except StopIteration:
        if "io-loop-ended" not in self.notes: self.notes.append("io-loop-ended")
      if self.worker.closed and "worker-closed" not in self.notes: self.notes.append("worker-closed")
      got = before - sum(len(c) for c in sock.rx)
      if got == 0 and not self.notes: self.notes.append("wakeup-read-nothing")
      yield got
      if got == 0: break          # a wake-up that read nothing although data is queued: reported through notes / at-end

  def residual (self): return bytes(self.worker.receive_buf)
  def open (self): return not self.worker.closed and not self.sock.closed


class NiciraCtrlEnd (CtrlEnd):
  side = "controller-nicira"
  nicira = True

class TypesCtrlEnd (CtrlEnd): side = "controller-types"
class TypesSwitchEnd (SwitchEnd): side = "switch-types"
class RaisingCtrlEnd (CtrlEnd): side = "controller-raising"
class RaisingSwitchEnd (SwitchEnd): side = "switch-raising"
class StockCtrlEnd (CtrlEnd): side = "controller-stock"; stock = True
class StockSwitchEnd (SwitchEnd): side = "switch-stock"; stock = True


ENDS = {"controller": CtrlEnd, "switch": SwitchEnd, "controller-nicira": NiciraCtrlEnd,
        "controller-types": TypesCtrlEnd, "switch-types": TypesSwitchEnd,
        "controller-raising": RaisingCtrlEnd, "switch-raising": RaisingSwitchEnd,
        "controller-stock": StockCtrlEnd, "switch-stock": StockSwitchEnd}


def reusable (end):
  """A receiver may serve another case iff it is back in the state a fresh one is in, as far as the read path can
  see: reassembly buffer empty, nothing queued on the socket, open, recorder still installed.  The log is cleared."""
  if end is None or end.residual() or end.sock.rx or end.notes or end.rec.runaway or not end.open(): return False
  if end.stock: return False        # the stock handlers have state of their own (ports, flow table, partial stats)
  if end.side.startswith("controller"):
    if any(h is not end.rec for h in end.con.handlers): return False
  elif end.conn.on_message_received is not end.rec: return False
  del end.log[:]
  end.rec.raise_at = (); end.rec.raised = 0; end.rec.excused = 0; end.rec.depth = 0
  return True


# ---------------------------------------------------------------------------------------------------
# one case
# ---------------------------------------------------------------------------------------------------
def segments (stream, kind, arg):
  if kind == "chunk":
    k = arg
    return [stream[i:i+k] for i in range(0, len(stream), k)]
  cuts = [0] + list(arg) + [len(stream)]
  return [stream[a:b] for a, b in zip(cuts, cuts[1:])]


def _pclass (fed, ends):
  """How much of an incomplete message the receiver holds at this point."""
  j = bisect.bisect_right(ends, fed)
  last = ends[j-1] if j else 0
  p = fed - last
  if p == 0: return "no-partial"
  if p < 4: return "partial-1..3"
  if p < 8: return "partial-4..7"
  return "partial-8+"


def _site (tb, src):
  """basename:function of the innermost frame inside the POX tree; the function by its qualified name
  (`ofp_stats_reply.unpack`, not `unpack`: every message class has an unpack / pack / show of its own, and two
  unpackers failing are two defects)."""
  site = None
  root = os.path.join(os.path.realpath(src), "pox") + os.sep
  while tb is not None:
    code = tb.tb_frame.f_code
    if os.path.realpath(code.co_filename).startswith(root):
      site = "%s:%s" % (os.path.basename(code.co_filename), getattr(code, "co_qualname", code.co_name).replace(".<locals>", ""))
    tb = tb.tb_next
  return site or "outside-pox"


def run_case (side, msgs, kind, arg, src="/repo", trace=None, end=None, loose=(), raises=()):
  """Returns (violation or None, profile, nreads, states).  violation = (key, what).
  end=None builds a fresh receiver; otherwise `end` must be a receiver for which reusable() holds.
  loose: positions compared by type and xid only; raises: deliveries whose (recording) handler raises."""
  if side in STOCK_SIDES and not _LOGGING.on:
    with _LOGGING:
      return run_case(side, msgs, kind, arg, src, trace, end, loose, raises)
  n = len(msgs)
  stream = b"".join(msgs)
  ends = list(itertools.accumulate(len(m) for m in msgs))
  hdrs = [W.parse_hdr(m) for m in msgs]
  profile = []            # (bytes received, delivered count) whenever the count changes
  states = set()          # (bytes received, residual length): the receiver's framing state
  fed = 0; nreads = 0; checked = 0
  def bad (clause, cls, what):
    return ("%s:%s:%s:%s" % (PID, side, clause, cls), "%s side: %s" % (side, what))
  if end is None:
    try:
      end = ENDS[side]()
    except HandshakeFailed as e:
      return bad("handshake", str(e), "unsegmented hello / features reply / barrier reply handed to read() one at a time did "
                 "not complete the handshake (%s)" % e), profile, nreads, states
  log = end.log
  end.rec.limit = n + 8
  end.rec.raise_at = frozenset(raises); end.rec.raised = 0; end.rec.excused = 0; end.rec.depth = 0
  queued = 0
  for seg in segments(stream, kind, arg):
    it = end.feed(seg)
    queued += len(seg)
    while True:
      try:
        signal.setitimer(signal.ITIMER_VIRTUAL, CASE_CPU_LIMIT, 1.0)
        try:
          got = next(it)
        finally:
          signal.setitimer(signal.ITIMER_VIRTUAL, 0)
      except StopIteration:
        break
      except HarnessError:
        raise
      except Runaway:
        return bad("runaway-delivery", _pclass(fed, ends), "a single read call delivered more than %d messages, %d were sent "
                   "(stopped by the harness)" % (end.rec.limit, n)), profile, nreads, states
      except (Exception, CaseTimeout) as e:
        et, ev, tb = sys.exc_info()
        site = _site(tb, src)
        del tb
        if site == "outside-pox": raise
        v = bad("hang" if isinstance(e, CaseTimeout) else "raises", "%s:%s" % (site, type(e).__name__),
                "%s: %s escaped the read path (%s) with %d of %d bytes received"
                % (type(e).__name__, str(e)[:160], site, queued - sum(len(c) for c in end.sock.rx), len(stream)))
        return v, profile, nreads, states
      fed += got; nreads += 1
      if trace is not None: trace.append("read #%d: +%d bytes (total %d), delivered so far %d" % (nreads, got, fed, len(log)))
      complete = bisect.bisect_right(ends, fed)
      cls = _pclass(fed, ends)
      if len(log) > complete:
        return bad("early", cls, "%d messages delivered but only %d complete in the %d bytes received"
                   % (len(log), complete, fed)), profile, nreads, states
      while checked < len(log):
        typ, xid, packed, cname = log[checked]
        ver, etyp, elen, exid = hdrs[checked]
        if checked in loose and (typ, xid) == (etyp, exid) and isinstance(packed, bytes):
          pass          # delivered as the right message; its bytes are not kept by design (a HELLO's body is skipped)
        elif packed != msgs[checked]:
          plen = len(packed) if isinstance(packed, bytes) else None
          if (typ, xid, plen) == (etyp, exid, elen):
            clause, what = "corrupt", "delivered message %d (%s) has the right type/xid/length but re-packs to different bytes" % (checked, cname)
          else:
            later = [j for j in range(checked + 1, n) if (hdrs[j][1], hdrs[j][3]) == (typ, xid)]
            earlier = [j for j in range(checked) if (hdrs[j][1], hdrs[j][3]) == (typ, xid)]
            if later: clause, what = "dropped", "message %d never delivered (message %d delivered in its place)" % (checked, later[0])
            elif earlier: clause, what = "duplicated", "message %d delivered again as delivery %d" % (earlier[0], checked)
            else: clause, what = "misframed", ("delivery %d is %s type=%r xid=%r packed-length=%r, sent type=%d xid=%#x length=%d"
                                               % (checked, cname, typ, xid, plen, etyp, exid, elen))
          return bad(clause, cls, what), profile, nreads, states
        checked += 1
      if end.notes:
        # the receiver gave up (closed / read() False / error handler): classed by the size of the read it happened in
        rsz = 2048 if side.startswith("controller") else 8192
        rcls = "read-of-exactly-recv-size" if got and got % rsz == 0 else "read-shorter-than-recv-size" if got < rsz else "read-longer-than-recv-size"
        return bad(end.notes[0], rcls, "%s on a well-formed stream: %d bytes received, the last read call took %d (recv size %d)"
                   % (end.notes[0], fed, got, rsz)), profile, nreads, states
      if not profile or profile[-1][1] != len(log): profile.append((fed, len(log)))
      states.add((fed, len(end.residual())))
  if fed != len(stream): raise HarnessError("fed %d of %d bytes" % (fed, len(stream)))
  extra = end.final_note(msgs) if len(log) == n and hasattr(end, "final_note") else None
  if extra:
    return bad(extra[0], extra[1], extra[2]), profile, nreads, states
  if len(log) != n:
    return bad("undelivered", "at-end", "%d of %d messages delivered after the whole stream was received (residual buffer %d bytes)"
               % (len(log), n, len(end.residual()))), profile, nreads, states
  if end.residual():
    return bad("residual", "at-end", "reassembly buffer holds %d bytes after the whole stream was delivered" % len(end.residual())), profile, nreads, states
  if not end.open():
    return bad("closed", "at-end", "connection closed while receiving a well-formed stream"), profile, nreads, states
  return None, profile, nreads, states


# ---------------------------------------------------------------------------------------------------
# enumeration
# ---------------------------------------------------------------------------------------------------
def interesting (lens):
  """P of DESIGN.md: <=12 bytes after any message start, <=2 bytes before any message end, k*2048 +- 1."""
  L = sum(lens)
  P = set()
  s = 0
  for ln in lens:
    for d in range(0, 13): P.add(s + d)
    e = s + ln
    P.update((e - 2, e - 1, e))
    s = e
  for k in range(1, L // 2048 + 2):
    P.update((k * 2048 - 1, k * 2048, k * 2048 + 1))
  return sorted(p for p in P if 1 <= p <= L - 1)


def critical (lens):
  """Header-critical positions for 3-cuts: 1,3,4,7,8 bytes into a message, the last byte, the boundary."""
  L = sum(lens)
  P = set()
  s = 0
  for ln in lens:
    P.update(s + d for d in (0, 1, 3, 4, 7, 8))
    P.add(s + ln - 1)
    s += ln
  return sorted(p for p in P if 1 <= p <= L - 1)


SERVICE_SIZES = (8191, 8192, 8193, 16383, 16384, 16385)      # around k * RecocoIOLoop._BUF_SIZE
BULK_ALL_1CUTS_MAX_MSGS = 1000

def size_cases (lens):
  """The read-size boundary as an environment answer: at one wake-up the socket holds exactly n bytes for n around
  k*8192 - from the start of the stream, and after an earlier read that ended at a (header-critical / message
  boundary / arbitrary) offset a; the rest of the stream follows in one piece."""
  L = sum(lens)
  out = []
  for a in sorted(set([0, 1, 4, 8, lens[0], lens[0] + 1, 1000, 8192])):
    for n in SERVICE_SIZES:
      c = tuple(p for p in (a, a + n) if 1 <= p <= L - 1)
      if c and c not in out: out.append(c)
  return out


JUMBO_CHUNKS = (1, 1460, 2047, 2048, 2049, 4096, 8191, 8192, 8193, 16384)    # dribble, an Ethernet MSS, the recv sizes

def jumbo_cases (lens):
  """Streams holding a near-64K message: unsegmented; fixed read sizes; every 1-cut in the first 2048+16 bytes (every
  phase of the controller's 2048-byte read grid relative to the stream), in the last 2048+16 bytes before each
  message end, within 16 bytes of every message boundary, and at k*2048 / k*8192 -1,0,+1; every 2-cut over the
  header-critical positions."""
  L = sum(lens)
  yield ("cuts", ())
  for k in JUMBO_CHUNKS:
    if k < L: yield ("chunk", k)
  P = set(range(1, 2048 + 17))
  s = 0
  for ln in lens:
    e = s + ln
    P.update(range(s - 16, s + 17)); P.update(range(e - 2048 - 16, e + 17))
    s = e
  for step in (2048, 8192):
    for k in range(1, L // step + 1): P.update((k * step - 1, k * step, k * step + 1))
  for p in sorted(q for q in P if 1 <= q <= L - 1): yield ("cuts", (p,))
  for c in itertools.combinations(critical(lens), 2): yield ("cuts", c)


def cases_for (lens, threecuts):
  L = sum(lens)
  if max(lens) > 60000:
    for c in jumbo_cases(lens): yield c
    return
  if len(lens) > 3:
    # bulk streams (many messages arriving in few reads): unsegmented, every fixed read size, every 1-cut,
    # the read-size boundary cases
    yield ("cuts", ())
    for k in CHUNKS + [4096, 8191, 8192, 8193, 16383, 16384, 16385]:
      if k < L: yield ("chunk", k)
    all1 = len(lens) <= BULK_ALL_1CUTS_MAX_MSGS
    if all1:
      for p in range(1, L): yield ("cuts", (p,))
    for c in size_cases(lens):
      if not (all1 and len(c) == 1): yield ("cuts", c)
    return
  yield ("cuts", ())
  for p in range(1, L): yield ("cuts", (p,))
  for k in CHUNKS:
    if k < L: yield ("chunk", k)
  P = list(range(1, L)) if L <= SMALL_STREAM else interesting(lens)
  for c in itertools.combinations(P, 2): yield ("cuts", c)
  if threecuts:
    for c in itertools.combinations(critical(lens), 3): yield ("cuts", c)


def sweep_cases (lens, deep):
  """Type sweep: unsegmented, every 1-cut, every fixed read size, every 2-cut over the header-critical positions
  (deep: over P / all for short streams, and every 3-cut over the header-critical positions)."""
  L = sum(lens)
  yield ("cuts", ())
  for p in range(1, L): yield ("cuts", (p,))
  for k in CHUNKS:
    if k < L: yield ("chunk", k)
  P = critical(lens) if not deep else list(range(1, L)) if L <= SMALL_STREAM else interesting(lens)
  for c in itertools.combinations(P, 2): yield ("cuts", c)
  if deep:
    for c in itertools.combinations(critical(lens), 3): yield ("cuts", c)


def raising_cases (lens, deep):
  """Raising handlers: unsegmented, every 1-cut, read sizes 1..16, every 2-cut (deep: and every 3-cut over the
  header-critical positions)."""
  L = sum(lens)
  yield ("cuts", ())
  for p in range(1, L): yield ("cuts", (p,))
  for k in range(1, 17):
    if k < L: yield ("chunk", k)
  for c in itertools.combinations(range(1, L), 2): yield ("cuts", c)
  if deep:
    for c in itertools.combinations(critical(lens), 3): yield ("cuts", c)


# ---------------------------------------------------------------------------------------------------
# controller, live: the connection goes through its real handshake INSIDE the segmented stream
# ---------------------------------------------------------------------------------------------------
# The recorder table of CtrlEnd fixes con.handlers; the real connection rebinds it when the handshake completes
# (HandshakeOpenFlowHandlers -> DefaultOpenFlowHandlers).  Here nothing is replaced: stream = hello, features
# reply, the message that completes the handshake (barrier reply, or the HP-style error), then 0..n ordinary
# messages; what the connection delivers is observed where applications see it - events raised on the nexus
# (ConnectionUp, PacketIn, PortStatus, BarrierIn, FlowRemoved; each carrying the decoded message) and what the
# connection writes (requests of the handshake, echo replies).  The expectation is computed from the message
# list alone, so it is the same for every segmentation (including one read per message).
LIVE_TAIL = [
  ("packet_in",     lambda x: S.packet_in(x, _pat(61, 2), in_port=1, buffer_id=7, reason=W.OFPR_NO_MATCH)),
  ("port_status",   lambda x: S.port_status(x, W.OFPPR_MODIFY,
                                            W.phy_port(2, b"\x02\0\0\0\0\x02", b"p2", state=1, curr=0x82))),
  ("barrier_reply", lambda x: S.barrier_reply(x)),
  ("echo_request",  lambda x: W.echo_request(x, b"ping")),
  ("flow_removed",  lambda x: S.flow_removed(x, _EXACT, cookie=5, priority=9, reason=1, duration_sec=3,
                                             duration_nsec=4, idle_timeout=5, packet_count=6, byte_count=7)),
]
LIVE_FINISH = ("barrier_reply", "hp_error")
LIVE_EVENT = {W.PACKET_IN: "PacketIn", W.PORT_STATUS: "PortStatus", W.BARRIER_REPLY: "BarrierIn",
              W.FLOW_REMOVED: "FlowRemoved"}
LIVE_DPID = 0xC02E


class LiveEnd (object):
  """Fresh nexus, fresh real of_01.Connection in the handshake state, nothing replaced.  libopenflow's xid counter
  (a module global) is restarted for every connection so that the xid of the controller's handshake barrier is the
  same in every case and the whole stream can be written down before it is cut."""
  side = "controller-live"
  def __init__ (self):
    from mc import env
    import pox.openflow.libopenflow_01 as of
    of.generate_xid = of.xid_generator(1)
    cs = env.ControllerStack()
    for lst in cs.core._eventMixin_handlers.values():
      lst[:] = [h for h in lst if getattr(h[1], "__self__", None) is not cs.nexus]
    i = cs.connect()
    self.cs, self.con, self.sock = cs, cs.cons[i], cs.cons[i].sock
    self.notes = []

  feed = CtrlEnd.feed
  residual = CtrlEnd.residual
  open = CtrlEnd.open

  def events (self):
    out = []
    for name, idx, e in self.cs.events:
      if name == "ConnectionUp": out.append((name, None))
      elif name in LIVE_EVENT.values(): out.append((name, e.ofp.pack()))
    return out

  def tx (self):
    return W.split(self.sock.tx)[0]


def live_xids ():
  """Pilot: one message per read up to the features reply; returns (features request xid, barrier request xid)."""
  end = LiveEnd()
  for _ in end.feed(W.hello(1)): pass
  fr = [m for m in end.tx() if m[1] == W.FEATURES_REQUEST]
  if not fr: raise HandshakeFailed("no-features-request-after-hello")
  fx = W.parse_hdr(fr[0])[3]
  for _ in end.feed(_live_features(fx)): pass
  br = [m for m in end.tx() if m[1] == W.BARRIER_REQUEST]
  if not br: raise HandshakeFailed("no-barrier-request-after-features-reply")
  return fx, W.parse_hdr(br[0])[3]


def _live_features (xid):
  return S.features_reply(xid, LIVE_DPID, [W.phy_port(1, b"\x02\0\0\0\0\x01", b"p1"),
                                           W.phy_port(2, b"\x02\0\0\0\0\x02", b"p2")])


def live_build (seq, xids):
  fx, bx = xids
  fin = S.barrier_reply(bx) if seq[0] == "barrier_reply" else \
        S.error(bx, W.OFPET_BAD_REQUEST, W.OFPBRC_BAD_TYPE, W.barrier_request(bx))
  tab = dict(LIVE_TAIL)
  return [W.hello(1), _live_features(fx), fin] + [tab[n](0x0C02E000 + 0x101 * (i + 1)) for i, n in enumerate(seq[1:])]


def live_expected (msgs, upto):
  """(events, writes) a connection owes for the first `upto` messages: [(name, bytes, msg index)], [(type, bytes or None)]."""
  ev = []; tx = [(W.HELLO, None)]
  for j, m in enumerate(msgs[:upto]):
    t = m[1]
    if j == 0: tx += [(W.FEATURES_REQUEST, None), (W.STATS_REQUEST, None)]
    elif j == 1: tx += [(W.SET_CONFIG, None), (W.FLOW_MOD, None), (W.BARRIER_REQUEST, None)]
    elif j == 2: ev.append(("ConnectionUp", None, j))
    elif t in LIVE_EVENT: ev.append((LIVE_EVENT[t], m, j))
    elif t == W.ECHO_REQUEST: tx.append((W.ECHO_REPLY, m[:1] + bytes([W.ECHO_REPLY]) + m[2:]))
  return ev, tx


def run_live_case (seq, xids, kind, arg, src="/repo", trace=None):
  """Returns (violation or None, profile, nreads)."""
  side = "controller-live"
  def bad (clause, cls, what):
    return ("%s:%s:%s:%s" % (PID, side, clause, cls), "%s: %s" % (side, what))
  msgs = live_build(seq, xids)
  stream = b"".join(msgs)
  ends = list(itertools.accumulate(len(m) for m in msgs))
  end = LiveEnd()
  fed = 0; nreads = 0; queued = 0
  done_at = {}            # message index -> number of the read call that brought its last byte
  profile = []
  def where (j):
    if j is None or j not in done_at: return "not-yet-complete"
    if j > 2 and done_at[j] == done_at.get(2): return "same-read-as-handshake-completion"
    return "same-read-as-previous-message" if j > 0 and done_at[j] == done_at.get(j - 1) else "own-read"
  def compare (final):
    complete = bisect.bisect_right(ends, fed)
    ev_exp, tx_exp = live_expected(msgs, complete)
    ev = end.events(); tx = end.tx()
    for k in range(len(ev)):
      if k >= len(ev_exp):
        return bad("early-or-extra", _pclass(fed, ends), "event %s raised although only %d messages are complete in the %d bytes "
                   "received (events owed: %s)" % (ev[k][0], complete, fed, [e[0] for e in ev_exp]))
      if ev[k] != ev_exp[k][:2]:
        j = ev_exp[k][2]
        if ev[k][0] == ev_exp[k][0] and not any(ev[k] == x[:2] for x in ev_exp[k+1:]):
          return bad("corrupt", where(j), "the %s event for message %d carries a message that re-packs to different bytes" % (ev[k][0], j))
        return bad("lost", where(j), "message %d (%s) was received completely but its %s event was never raised (%s raised in its "
                   "place); events so far %s" % (j, W.TYPE_NAMES[msgs[j][1]], ev_exp[k][0], ev[k][0], [e[0] for e in ev]))
    if final and len(ev) < len(ev_exp):
      j = ev_exp[len(ev)][2]
      return bad("lost", where(j), "message %d (%s) was received completely but its %s event was never raised; events at the end "
                 "of the stream %s, owed %s" % (j, W.TYPE_NAMES[msgs[j][1]], ev_exp[len(ev)][0], [e[0] for e in ev], [e[0] for e in ev_exp]))
    types = [m[1] for m in tx]
    owed = [t for t, b in tx_exp]
    if types != owed[:len(types)] or (final and types != owed) or any(b is not None and b != m for (t, b), m in zip(tx_exp, tx)):
      return bad("writes-differ", _pclass(fed, ends), "connection wrote %s, owed %s after %d complete messages"
                 % ([W.TYPE_NAMES[t] for t in types], [W.TYPE_NAMES[t] for t in owed], complete))
    return None
  for seg in segments(stream, kind, arg):
    it = end.feed(seg)
    queued += len(seg)
    while True:
      try:
        signal.setitimer(signal.ITIMER_VIRTUAL, CASE_CPU_LIMIT, 1.0)
        try:
          got = next(it)
        finally:
          signal.setitimer(signal.ITIMER_VIRTUAL, 0)
      except StopIteration:
        break
      except (Exception, CaseTimeout) as e:
        et, ev_, tb = sys.exc_info()
        site = _site(tb, src)
        del tb
        if site == "outside-pox": raise
        return bad("hang" if isinstance(e, CaseTimeout) else "raises", "%s:%s" % (site, type(e).__name__),
                   "%s: %s escaped the read path (%s) with %d of %d bytes received"
                   % (type(e).__name__, str(e)[:160], site, queued - sum(len(c) for c in end.sock.rx), len(stream))), profile, nreads
      nreads += 1
      for j, e_ in enumerate(ends):
        if fed < e_ <= fed + got: done_at[j] = nreads
      fed += got
      if end.notes:
        return bad(end.notes[0], _pclass(fed, ends), "%s on a well-formed stream, %d bytes received" % (end.notes[0], fed)), profile, nreads
      v = compare(False)
      if trace is not None:
        trace.append("read #%d: +%d bytes (total %d): events %s, wrote %s" % (nreads, got, fed, [e[0] for e in end.events()],
                                                                               [W.TYPE_NAMES[m[1]] for m in end.tx()]))
      if v: return v, profile, nreads
      n_ev = len(end.events())
      if not profile or profile[-1][1] != n_ev: profile.append((fed, n_ev))
  if fed != len(stream): raise HarnessError("fed %d of %d bytes" % (fed, len(stream)))
  v = compare(True)
  if v: return v, profile, nreads
  if end.residual():
    return bad("residual", "at-end", "reassembly buffer holds %d bytes after the whole stream was delivered" % len(end.residual())), profile, nreads
  if not end.open() or end.con.connect_time is None:
    return bad("closed", "at-end", "connection closed / not up after a well-formed handshake and stream"), profile, nreads
  return None, profile, nreads


# ---------------------------------------------------------------------------------------------------
# controller, handshake with stock handlers: messages a switch sends WHILE the handshake is in progress
# ---------------------------------------------------------------------------------------------------
# controller-live writes down the handshake as hello, features reply, barrier reply.  A real switch also answers the
# controller's description request (a 1068-byte stats reply, usually right behind the features reply), echoes, reports
# port changes and packets whenever it likes.  While the handshake lasts the connection runs the per-connection
# HandshakeOpenFlowHandlers table (defers port status, ignores most types), then swaps to the shared default table in
# the middle of a read() - and the bytes behind the swap are dispatched through the new table.  Here BOTH tables stay
# pox's own: every entry of the connection's handshake table is wrapped in place by the recorder, and the entries of
# the (module-global, shared) default table are replaced once per process by shims that are transparent for every
# connection but the case's own (which carries its recorder).  A handler called by a stock handler (the deferred port
# status raised when the handshake completes) is passed through unrecorded: the reader did not deliver it.
# Stream = hello, [A], features reply, [B], finish, [tail]: A, B = at most one message of HS_INTER in one of the slots
# (thorough: one in each), finish = barrier reply / HP-style error with the controller's barrier xid.  Excluded: a
# barrier reply with a foreign xid after the features reply (the controller drops the connection: not framing).
STOCK_SIDES = ("controller-stock", "switch-stock", "controller-handshake")
HS_DPID = 0xC02F
HS_INTER = [
  ("echo_request",      lambda x: W.echo_request(x, b"ping")),                                       # 12
  ("hello_again",       lambda x: W.hello(x)),                                                       # 8
  ("port_status",       lambda x: S.port_status(x, W.OFPPR_MODIFY, W.phy_port(2, b"\x02\0\0\0\0\x02", b"p2", state=1, curr=0x82))),  # 64
  ("port_status_delete", lambda x: S.port_status(x, W.OFPPR_DELETE, W.phy_port(1, b"\x02\0\0\0\0\x01", b"p1"))),       # 64
  ("packet_in",         lambda x: S.packet_in(x, _eth_frame(), in_port=1, buffer_id=7, reason=W.OFPR_NO_MATCH)),  # 78
  ("error_foreign_xid", lambda x: S.error(x, W.OFPET_BAD_REQUEST, W.OFPBRC_BAD_TYPE, _pat(8, 20))),    # 20 (not the barrier's xid)
  ("vendor",            lambda x: W.vendor(x, OTHER_VENDOR, _pat(4, 21))),                           # 16
  ("desc_stats_reply",  lambda x: S.stats_reply(x, W.OFPST_DESC, S.desc_stats_body())),              # 1068: the answer to the controller's own request
  ("barrier_reply_unasked", lambda x: S.barrier_reply(x)),                                           # 8; slot A only (no barrier outstanding yet)
]
HS_TAIL = [
  ("error_unnamed_code", lambda x: S.error(x, W.OFPET_BAD_REQUEST, 9, _pat(8, 22))),                 # 20
  ("port_status",        dict(HS_INTER)["port_status"]),
]
HS_FIXED = ("hello", "features_reply", "fin_barrier_reply", "fin_hp_error")
_HS_XIDS = []

def hs_xids ():
  if not _HS_XIDS: _HS_XIDS.append(live_xids())
  return _HS_XIDS[0]

def hs_build (seq):
  fx, bx = hs_xids()
  tab = dict(HS_INTER); tail = dict(HS_TAIL)
  out = []; fin = False
  for i, n in enumerate(seq):
    x = 0x0C02F000 + 0x101 * (i + 1)
    if n == "hello": m = W.hello(1)
    elif n == "features_reply": m = S.features_reply(fx, HS_DPID, [W.phy_port(1, b"\x02\0\0\0\0\x01", b"p1"), W.phy_port(2, b"\x02\0\0\0\0\x02", b"p2")])
    elif n == "fin_barrier_reply": m = S.barrier_reply(bx); fin = True
    elif n == "fin_hp_error": m = S.error(bx, W.OFPET_BAD_REQUEST, W.OFPBRC_BAD_TYPE, W.barrier_request(bx)); fin = True
    else: m = (tail if fin else tab)[n](x)
    out.append(m)
  return out

def hs_sequences (deep):
  inter = [n for n, f in HS_INTER]
  slots = [((), ())] + [((a,), ()) for a in inter] + [((), (b,)) for b in inter if b != "barrier_reply_unasked"]
  if deep: slots += [((a,), (b,)) for a in inter for b in inter if b != "barrier_reply_unasked"]
  for a, b in slots:
    for fin in ("fin_barrier_reply", "fin_hp_error"):
      for tail in [()] + ([(t,) for t, f in HS_TAIL] if fin == "fin_barrier_reply" or deep else []):
        yield ("hello",) + a + ("features_reply",) + b + (fin,) + tail

def hs_raise_sets (seq, deep):
  """The (wrapped) handler of no delivery raises; of every delivery (deep: and of each single one)."""
  n = len(seq)
  return [(), tuple(range(n))] + ([(i,) for i in range(n)] if deep else [])

def hs_cases (lens, deep, raising=False):
  """One message per read, unsegmented, every 1-cut, the fixed read sizes; every 2-cut over {0, 4, 8 bytes into a
  message, its last byte} (quick: only while no handler raises; deep: over P)."""
  L = sum(lens)
  yield ("cuts", tuple(itertools.accumulate(lens))[:-1])       # one message per read
  yield ("cuts", ())
  for p in range(1, L): yield ("cuts", (p,))
  for k in CHUNKS:
    if k < L: yield ("chunk", k)
  if deep: P = interesting(lens)
  elif raising: P = []
  else:
    P = set(); s = 0
    for ln in lens:
      P.update((s, s + 4, s + 8, s + ln - 1)); s += ln
    P = sorted(p for p in P if 1 <= p <= L - 1)
  for c in itertools.combinations(P, 2): yield ("cuts", c)


def _shim_default_handlers (of01):
  """Once per process: every entry of the shared default handler table is replaced IN PLACE by a shim that calls the
  original directly unless the connection carries a recorder (`_c02_rec`), in which case the recorder records the
  delivery and calls the original."""
  tbl = of01._default_handlers.handlers
  for k, h in enumerate(tbl):
    if getattr(h, "_c02_shim", False): continue
    def shim (con, msg, h=h):
      rec = getattr(con, "_c02_rec", None)
      if rec is None: return h(con, msg)
      return rec(con, msg, stock=h)
    shim._c02_shim = True
    tbl[k] = shim


class HsEnd (object):
  """Fresh nexus, fresh real of_01.Connection in the handshake state; its handshake table and the default table keep
  pox's handlers, each called through the recorder."""
  side = "controller-handshake"
  stock = True
  def __init__ (self):
    from mc import env
    import pox.openflow.libopenflow_01 as of
    of.generate_xid = of.xid_generator(1)
    cs = env.ControllerStack()
    for lst in cs.core._eventMixin_handlers.values():
      lst[:] = [h for h in lst if getattr(h[1], "__self__", None) is not cs.nexus]
    _shim_default_handlers(cs.of01)
    i = cs.connect()
    self.cs, self.con, self.sock = cs, cs.cons[i], cs.cons[i].sock
    self.rec = Recorder()
    self.con._c02_rec = self.rec
    tbl = self.con.handlers
    if tbl is cs.of01._default_handlers.handlers: raise HarnessError("fresh connection already has the default handler table")
    for k, h in enumerate(tbl):
      tbl[k] = (lambda h: lambda c, m: self.rec(c, m, stock=h))(h)
    self.log = self.rec.log
    self.notes = []
    self.used = False

  feed = CtrlEnd.feed
  residual = CtrlEnd.residual
  open = CtrlEnd.open

ENDS["controller-handshake"] = HsEnd


# ---------------------------------------------------------------------------------------------------
# controller, task: Connection.read() called by pox's own OpenFlow_01_Task loop, a second connection readable too
# ---------------------------------------------------------------------------------------------------
# Everywhere above the harness calls Connection.read() itself.  In a running controller it is OpenFlow_01_Task.run
# that does: a recoco task that yields Select(sockets) and, resumed with the readable ones, accepts new connections
# on the listener and calls con.read() once per readable connection - closing a connection whose read() returns
# False and closing it (and abandoning the rest of that wake-up's list) when read() raises.  Here the real run()
# generator is driven the way the switch side drives RecocoIOLoop: the harness plays scheduler and select()
# (level-triggered: a connection with bytes queued is reported readable at every wake-up), the `socket` module of
# of_01 is a stand-in while the generator runs (listener whose accept() hands out scripted sockets).  Two switches
# connect and handshake through the loop; both then receive the SAME segmented stream, both readable at the same
# wake-ups (the bystander listed first).  The connection under test keeps the stock default handlers (recorder
# records, then calls them; logging enabled), the bystander has plain recorders.  Oracle: the usual one for the
# connection under test per wake-up; the bystander must have been delivered the same sequence by the end.
TASK_SMALL = ("barrier_reply", "echo_request", "error_t1_c9", "packet_in")
TASK_BIG = "packet_in_2500"
TASK_IDLE_WAKEUPS = 3       # wake-ups in a row with bytes queued and none read before the harness gives up

class _ListenSock (object):
  def __init__ (self): self.pending = []; self.closed = False
  def setsockopt (self, *a): pass
  def bind (self, addr): pass
  def listen (self, n): pass
  def setblocking (self, b): pass
  def fileno (self): return 70
  def getpeername (self): return ("0.0.0.0", 6633)
  def accept (self):
    if not self.pending: raise BlockingIOError(errno.EAGAIN, "Resource temporarily unavailable")
    k = self.pending.pop(0)
    return k, k.name
  def close (self): self.closed = True

class _OfSockMod (object):
  """Stands in for the `socket` module inside pox.openflow.of_01 while the task's generator runs."""
  def __init__ (self):
    import socket as _s
    self.AF_INET, self.SOCK_STREAM, self.SOL_SOCKET, self.SO_REUSEADDR = _s.AF_INET, _s.SOCK_STREAM, _s.SOL_SOCKET, _s.SO_REUSEADDR
    self.error = _s.error
    self.listener = None
  def socket (self, *a):
    self.listener = _ListenSock(); return self.listener


_TASKS = []

def _shutdown_tasks ():
  """End the run() generators of the TaskEnds made so far (a generator that is merely dropped is closed by the
  collector, and the task's catch-all swallows the GeneratorExit)."""
  while _TASKS: _TASKS.pop().shutdown()


class TaskEnd (object):
  side = "controller-task"
  stock = True
  def __init__ (self):
    from mc import env
    _shutdown_tasks()
    _TASKS.append(self)
    self.gen = None
    cs = env.ControllerStack()
    for lst in cs.core._eventMixin_handlers.values():
      lst[:] = [h for h in lst if getattr(h[1], "__self__", None) is not cs.nexus]
    self.cs = cs; of01 = self.of01 = cs.of01
    _shim_default_handlers(of01)
    self.mod = _OfSockMod()
    self.notes = []
    self.used = False
    task = object.__new__(of01.OpenFlow_01_Task)        # Task.__init__ would register it with the core and scheduler
    task.port, task.address, task.started = 6633, "0.0.0.0", True
    task.ssl_key = task.ssl_cert = task.ssl_ca_cert = None
    self.gen = task.run()
    self.sel = None
    self.step(first=True)
    if self.sel is None or self.mod.listener is None: raise HarnessError("OpenFlow_01_Task.run did not reach its Select")
    self.sockets = self.sel._args[0]
    self.by, self.bysock = self.accept(2)
    self.con, self.sock = self.accept(1)
    for con, dpid in ((self.by, 0xC02B), (self.con, 0xC02A)): self.handshake(con, dpid)
    self.byrec = Recorder(); self.byrec.limit = 1 << 30
    self.by.handlers = [self.byrec] * 256
    self.rec = Recorder()
    orig = list(self.con.handlers)
    self.rec.stock = lambda c, m, orig=orig: orig[m.header_type](c, m)
    self.con.handlers = [self.rec] * len(orig)
    self.log = self.rec.log

  def step (self, r=(), first=False):
    of01 = self.of01
    saved = of01.socket
    of01.socket = self.mod
    try:
      self.sel = next(self.gen) if first else self.gen.send((list(r), [], []))
    except StopIteration:
      if "task-ended" not in self.notes: self.notes.append("task-ended")
    finally:
      of01.socket = saved

  def shutdown (self):
    """Let run() leave its loops the way it does when the controller goes down: core.running False at a wake-up."""
    gen, self.gen = self.gen, None
    if gen is None: return
    core = self.cs.core
    core.running = False
    of01 = self.of01; saved = of01.socket; of01.socket = self.mod
    try:
      for _ in range(4): gen.send(([], [], []))
    except (StopIteration, TypeError): pass       # TypeError: send() on a generator that was never started
    finally:
      of01.socket = saved
      core.running = True
    gen.close()

  def accept (self, n):
    from mc import env
    sock = env.ScriptSock(("switch", n))
    self.mod.listener.pending.append(sock)
    before = list(self.sockets)
    self.step(r=[self.mod.listener])
    new = [c for c in self.sockets if not any(c is b for b in before)]
    if len(new) != 1 or getattr(new[0], "sock", None) is not sock: raise HandshakeFailed("task-did-not-accept")
    self.cs.cons.append(new[0])
    return new[0], sock

  def pump (self, con, data):
    con.sock.rx.append(data)
    idle = 0
    while con.sock.rx and idle < TASK_IDLE_WAKEUPS:
      before = len(con.sock.rx)
      self.step(r=[con])
      idle = idle + 1 if len(con.sock.rx) == before else 0

  def handshake (self, con, dpid):
    self.pump(con, W.hello(1))
    tx, _ = W.split(con.sock.tx); con.sock.tx = b""
    fr = [m for m in tx if m[1] == W.FEATURES_REQUEST]
    if not fr: raise HandshakeFailed("no-features-request-after-hello")
    self.pump(con, S.features_reply(W.parse_hdr(fr[0])[3], dpid, [W.phy_port(1, b"\x02\0\0\0\0\x01", b"p1")]))
    tx, _ = W.split(con.sock.tx); con.sock.tx = b""
    br = [m for m in tx if m[1] == W.BARRIER_REQUEST]
    if not br: raise HandshakeFailed("no-barrier-request-after-features-reply")
    self.pump(con, S.barrier_reply(W.parse_hdr(br[0])[3]))
    if con.connect_time is None or con.buf or con.handlers is not self.of01._default_handlers.handlers:
      raise HandshakeFailed("not-up-after-barrier-reply")

  def feed (self, seg):
    """Both sockets now hold `seg`; one resumption of the task per wake-up, with every connection that still has
    bytes queued (and that the task still watches) readable; yields the bytes the connection under test read."""
    sock = self.sock
    sock.rx.append(seg); self.bysock.rx.append(seg)
    idle = 0
    while sock.rx:
      before = sum(len(c) for c in sock.rx)
      ready = [c for c in (self.by, self.con) if c.sock.rx and any(c is x for x in self.sockets)]
      self.step(r=ready)
      got = before - sum(len(c) for c in sock.rx)
      if not any(self.con is x for x in self.sockets) and "task-dropped-connection" not in self.notes:
        self.notes.append("task-dropped-connection")
      idle = idle + 1 if got == 0 else 0
      if got or idle >= TASK_IDLE_WAKEUPS or self.notes:
        if not got and not self.notes: self.notes.append("task-stopped-reading")
        yield got
        if not got: break
    idle = 0
    while self.bysock.rx and idle < TASK_IDLE_WAKEUPS and any(self.by is x for x in self.sockets):
      before = sum(len(c) for c in self.bysock.rx)
      self.step(r=[self.by])
      idle = idle + 1 if before == sum(len(c) for c in self.bysock.rx) else 0

  def residual (self): return bytes(self.con.buf)
  def open (self): return not self.sock.closed and not self.con.disconnected and any(self.con is x for x in self.sockets)

  def final_note (self, msgs):
    """What the bystander (same stream, same wake-ups, plain recorders) ended up with."""
    got = [e[2] for e in self.byrec.log]
    if got != list(msgs):
      return ("bystander", "delivered-sequence-differs", "the second connection, fed the same segments at the same wake-ups, was "
              "delivered %d messages of %d (%s)" % (len(got), len(msgs), "a prefix" if got == list(msgs[:len(got)]) else "not a prefix"))
    if self.by.buf or self.bysock.closed or self.by.disconnected or not any(self.by is x for x in self.sockets):
      return ("bystander", "closed-or-residual", "the second connection ended closed / dropped by the task / with %d bytes buffered" % len(self.by.buf))
    return None

ENDS["controller-task"] = TaskEnd
STOCK_SIDES = STOCK_SIDES + ("controller-task",)


def task_sequences (deep):
  for k in (1, 2, 3) if deep else (1, 2):
    for seq in itertools.product(TASK_SMALL, repeat=k): yield seq
  for seq in ((TASK_BIG,), (TASK_BIG, TASK_SMALL[0]), (TASK_SMALL[1], TASK_BIG)): yield seq


def live_cases (lens):
  L = sum(lens)
  yield ("cuts", tuple(itertools.accumulate(lens))[:-1])       # one message per read
  yield ("cuts", ())
  for p in range(1, L): yield ("cuts", (p,))
  for k in CHUNKS:
    if k < L: yield ("chunk", k)
  P = list(range(1, L)) if L <= SMALL_STREAM else interesting(lens)
  for c in itertools.combinations(P, 2): yield ("cuts", c)


def _worker_live (item):
  side, seq, threecuts, src = item
  _guards()
  rep = Report(PID, "model_checking")
  try:
    xids = live_xids()
  except HandshakeFailed as e:
    rep.evaluations += 1
    rep.outcome((side, seq, "handshake", str(e)))
    rep.violation("%s:%s:handshake:%s" % (PID, side, e), "%s: hello / features reply handed to read() one at a time did not "
                  "produce the controller's requests (%s)" % (side, e), dict(side=side, seq=list(seq), kind="cuts", arg=[]))
    return rep
  lens = [len(m) for m in live_build(seq, xids)]
  first = True
  for kind, arg in live_cases(lens):
    v, profile, nreads = run_live_case(seq, xids, kind, arg, src)
    rep.evaluations += 1
    rep.transitions += nreads
    rep.outcome((side, seq, tuple(profile), v and v[0]))
    if v:
      rep.violation(v[0], v[1] + " [handshake ended by %s, then %s; %s %r]" % (seq[0], "+".join(seq[1:]) or "nothing", kind,
                                                                                list(arg) if kind == "cuts" else arg),
                    dict(side=side, seq=list(seq), kind=kind, arg=list(arg) if kind == "cuts" else arg))
    elif first and len(seq) > 2 and kind == "cuts" and len(arg) == 1 and arg[0] > sum(lens[:3]):
      first = False
      rep.sample(dict(side=side, sequence=list(seq), lengths=lens, cuts=list(arg), reads=nreads,
                      events_after_bytes=[list(p) for p in profile]))
  rep.state_count += rep.evaluations
  return rep


# ---------------------------------------------------------------------------------------------------
# switch, reconnect: a connection lost mid-message, the datapath's worker reconnects, a new stream follows
# ---------------------------------------------------------------------------------------------------
# The datapath's real worker class (pox.datapaths.OpenFlowWorker, a BackoffWorker / PersistentIOWorker from
# pox.lib.ioworker.workers) on a real RecocoIOLoop.  Sockets come from a scripted `socket` module bound into
# workers.py, the back-off timer (core.callDelayed) is a list the harness fires.  History: connect; the first `cut`
# bytes of stream A arrive (cut anywhere, also mid-message); the connection is lost (EOF / reset / exceptional
# condition); the timer fires, the worker reconnects; stream B arrives on the new connection, segmented.  Each
# connection's OFConnection gets its own recorder.  Oracle: connection 1 delivered exactly the messages complete in
# A[:cut]; connection 2 delivers exactly B - once each, in order, never early, nothing of A's partial message - and
# ends with an empty buffer, open.
RECONNECT_A = (("flow_mod",), ("echo_request", "packet_out"))
RECONNECT_B = (("hello",), ("echo_request",), ("flow_mod",), ("hello", "flow_mod"), ("barrier_request", "echo_request"))
RECONNECT_LOSS = ("eof", "reset", "exceptional")


class NBSock (object):
  """Scripted non-blocking TCP socket for workers.py: connect in progress, then readable when `rx` holds bytes;
  once `lost` is set, recv answers the way a dead connection does."""
  def __init__ (self):
    self.rx = []; self.sent = b""; self.closed = False; self.lost = None; self.shut = []
  def setblocking (self, b): pass
  def setsockopt (self, *a): pass
  def connect_ex (self, addr): return errno.EINPROGRESS
  def getpeername (self): return ("controller", 6633)
  def fileno (self): return 98
  def send (self, data, flags=0):
    self.sent += bytes(data); return len(data)
  def recv (self, n, flags=0):
    import socket as _s
    if flags & _s.MSG_PEEK or (not self.rx and not self.lost):
      raise BlockingIOError(errno.EAGAIN, "Resource temporarily unavailable")
    if self.rx:
      c = self.rx.pop(0)
      if len(c) > n:
        self.rx.insert(0, c[n:]); c = c[:n]
      return c
    if self.lost == "reset": raise ConnectionResetError(errno.ECONNRESET, "Connection reset by peer")
    return b""
  def shutdown (self, how): self.shut.append(how)
  def close (self): self.closed = True


class _SockMod (object):
  """Stands in for the `socket` module inside pox.lib.ioworker.workers."""
  def __init__ (self):
    import socket as _s
    self.AF_INET, self.SOCK_STREAM, self.SOL_SOCKET, self.SO_REUSEADDR = _s.AF_INET, _s.SOCK_STREAM, _s.SOL_SOCKET, _s.SO_REUSEADDR
    self.error = _s.error
    self.made = []
  def socket (self, *a):
    k = NBSock(); self.made.append(k); return k


class ReconnectWorld (object):
  def __init__ (self):
    global _SWSTACK
    from mc import env
    import pox.lib.ioworker as iow
    import pox.lib.ioworker.workers as wk
    import pox.datapaths as dps
    if _SWSTACK is None: _SWSTACK = env.SwitchStack()
    self.core = env.boot()
    _SWSTACK.swmod.OFConnection.ID = 0
    iow.makePinger = env.FakePinger
    self.wk = wk
    self.saved = (wk.socket, self.core.__dict__.get("callDelayed"), self.core.__dict__.get("callLater"))
    self.sockmod = wk.socket = _SockMod()
    self.timers = []
    self.core.callDelayed = lambda t, f, *a, **k: self.timers.append((t, f, a, k))
    self.core.callLater = lambda f, *a, **k: self.timers.append((0, f, a, k))
    self.loop = iow.RecocoIOLoop()
    self.gen = self.loop.run()
    next(self.gen)
    self.notes = []
    self.recs = []              # one Recorder per OFConnection, in order of creation
    self.conns = []
    dps.OpenFlowWorker.begin(loop=self.loop, addr="127.0.0.1", port=6633, switch=_SWSTACK.sw, max_retry_delay=16)

  def restore (self):
    wk = self.wk
    wk.socket = self.saved[0]
    for name, val in (("callDelayed", self.saved[1]), ("callLater", self.saved[2])):
      if val is None: self.core.__dict__.pop(name, None)
      else: setattr(self.core, name, val)

  def step (self, r=(), w=(), x=()):
    try:
      self.gen.send((list(r), list(w), list(x)))
    except StopIteration:
      if "io-loop-ended" not in self.notes: self.notes.append("io-loop-ended")

  def worker_of (self, sock):
    for wkr in self.loop._workers:
      if wkr.socket is sock: return wkr
    return None

  def connect (self):
    """Let the newest socket's connect complete; returns (worker, recorder) of the new OFConnection or None."""
    self.step()                                   # pending registration
    sock = self.sockmod.made[-1]
    wkr = self.worker_of(sock)
    if wkr is None: return None
    self.step(w=[wkr])                            # writable -> connected -> OpenFlowWorker._handle_connect
    conn = getattr(wkr, "connection", None)
    if conn is None or any(conn is c for c in self.conns): return None
    rec = Recorder()
    conn.set_message_handler(rec)                 # in place of the switch's handler
    orig = conn._error_handler
    def eh (reason, info):
      self.notes.append("error-handler-%s" % {1: "BAD_VERSION", 2: "NO_UNPACKER", 3: "BAD_LENGTH", 4: "EXCEPTION"}.get(reason, reason))
      return orig(reason, info)
    conn._error_handler = eh
    self.conns.append(conn); self.recs.append(rec)
    return wkr, rec

  def feed (self, wkr, seg):
    """`seg` is queued on the worker's socket; one loop round per wake-up while it is readable.  Yields bytes read."""
    sock = wkr.socket
    sock.rx.append(seg)
    while sock.rx:
      before = sum(len(c) for c in sock.rx)
      self.step(r=[wkr])
      got = before - sum(len(c) for c in sock.rx)
      yield got
      if got == 0: break

  def lose (self, wkr, how):
    wkr.socket.lost = how
    if how == "exceptional": self.step(x=[wkr])
    else: self.step(r=[wkr])
    self.step()                                   # the loop closes the socket (pending command)

  def fire_timers (self):
    n = 0
    while self.timers and n < 8:
      t, f, a, k = self.timers.pop(0); n += 1
      f(*a, **k)
    return n


def _check_log (log, checked, msgs, hdrs):
  """Index of the first delivery that is not message #index (compared like run_case does), or None."""
  for i in range(checked, len(log)):
    if i >= len(msgs) or log[i][2] != msgs[i]: return i
  return None


def run_reconnect_case (aseq, cut, loss, bseq, kind, arg, src="/repo", trace=None):
  """Returns (violation or None, profile, nreads)."""
  side = "switch-reconnect"
  amsgs = build("switch", aseq); A = b"".join(amsgs)
  aends = list(itertools.accumulate(len(m) for m in amsgs))
  acomplete = bisect.bisect_right(aends, cut)
  partial = cut - (aends[acomplete - 1] if acomplete else 0)
  hist = "after-loss-on-message-boundary" if partial == 0 else "after-loss-mid-message"
  bmsgs = [m[:4] + struct.pack("!L", W.parse_hdr(m)[3] + 0x100000) + m[8:] for m in build("switch", bseq)]   # xids differ from A's
  B = b"".join(bmsgs); bends = list(itertools.accumulate(len(m) for m in bmsgs))
  def bad (clause, what):
    return ("%s:%s:%s:%s" % (PID, side, clause, hist), "%s: %s" % (side, what))
  def say (x):
    if trace is not None: trace.append(x)
  profile = []; nreads = 0
  w = ReconnectWorld()
  try:
    signal.setitimer(signal.ITIMER_VIRTUAL, CASE_CPU_LIMIT, 1.0)
    try:
      c1 = w.connect()
      if c1 is None: raise HarnessError("first connection did not come up")
      wk1, rec1 = c1
      rec1.limit = len(amsgs) + 8
      if cut:
        for got in w.feed(wk1, A[:cut]): nreads += 1
      say("connection 1: %d of %d bytes of stream A received (%d complete messages, %d bytes of the next), delivered %d"
          % (cut, len(A), acomplete, partial, len(rec1.log)))
      if len(rec1.log) != acomplete or _check_log(rec1.log, 0, amsgs, None) is not None or w.notes:
        return bad("first-connection", "connection 1 delivered %d messages of the %d complete in the %d bytes it received%s"
                   % (len(rec1.log), acomplete, cut, (" (%s)" % w.notes[0]) if w.notes else "")), profile, nreads
      w.lose(wk1, loss)
      say("connection lost (%s): worker closed=%s, timers pending=%d" % (loss, wk1.closed, len(w.timers)))
      if not wk1.closed:
        return bad("loss-not-noticed", "worker still open after the connection was lost (%s)" % loss), profile, nreads
      if not w.timers or not w.fire_timers():
        return bad("no-reconnect", "no reconnect was scheduled after the connection was lost (%s)" % loss), profile, nreads
      c2 = w.connect()
      if c2 is None or len(w.sockmod.made) < 2:
        return bad("no-reconnect", "the reconnect timer fired but no new connection came up"), profile, nreads
      wk2, rec2 = c2
      rec2.limit = len(bmsgs) + 8
      say("reconnected: %s worker object, its receive buffer holds %d bytes" % ("same" if wk2 is wk1 else "new", len(wk2.receive_buf)))
      fed = 0; checked = 0
      for seg in segments(B, kind, arg):
        for got in w.feed(wk2, seg):
          fed += got; nreads += 1
          complete = bisect.bisect_right(bends, fed)
          say("connection 2 read #%d: +%d bytes (total %d), delivered so far %d" % (nreads, got, fed, len(rec2.log)))
          if len(rec1.log) != acomplete:
            return bad("delivered-on-dead-connection", "connection 1 delivered a message after it was lost"), profile, nreads
          if len(rec2.log) > complete:
            return bad("new-stream-not-intact", "early: %d messages delivered on the new connection, %d complete in the %d bytes it "
                       "received (%d bytes of an incomplete message were pending when the old one was lost)"
                       % (len(rec2.log), complete, fed, partial)), profile, nreads
          i = _check_log(rec2.log, checked, bmsgs, None)
          if i is not None:
            typ, xid, packed, cname = rec2.log[i]
            return bad("new-stream-not-intact", "delivery %d on the new connection is %s type=%r xid=%r, sent type=%d xid=%#x (%d bytes of an "
                       "incomplete message were pending when the old connection was lost)"
                       % (i, cname, typ, xid, W.parse_hdr(bmsgs[i])[1], W.parse_hdr(bmsgs[i])[3], partial)), profile, nreads
          checked = len(rec2.log)
          if w.notes or wk2.closed:
            return bad("new-stream-not-intact", "%s on the new connection's well-formed stream after %d bytes (%d bytes of an incomplete "
                       "message were pending when the old connection was lost)" % (w.notes[0] if w.notes else "worker closed", fed, partial)), profile, nreads
          if not profile or profile[-1][1] != len(rec2.log): profile.append((fed, len(rec2.log)))
      if fed != len(B) or len(rec2.log) != len(bmsgs) or wk2.receive_buf:
        return bad("new-stream-not-intact", "%d of %d messages delivered on the new connection after %d of %d bytes, %d bytes left in its "
                   "buffer (%d bytes of an incomplete message were pending when the old connection was lost)"
                   % (len(rec2.log), len(bmsgs), fed, len(B), len(wk2.receive_buf), partial)), profile, nreads
      return None, profile, nreads
    finally:
      signal.setitimer(signal.ITIMER_VIRTUAL, 0)
  except Runaway:
    return bad("new-stream-not-intact", "runaway delivery (stopped by the harness)"), profile, nreads
  except (Exception, CaseTimeout) as e:
    if isinstance(e, HarnessError): raise
    et, ev_, tb = sys.exc_info()
    site = _site(tb, src)
    del tb
    if site == "outside-pox": raise
    return ("%s:%s:%s:%s:%s" % (PID, side, "hang" if isinstance(e, CaseTimeout) else "raises", site, type(e).__name__),
            "%s: %s: %s escaped (%s), history %s" % (side, type(e).__name__, str(e)[:160], site, hist)), profile, nreads
  finally:
    w.restore()


def reconnect_cases (alens, blens, thorough):
  """(cut in A, loss kind, segmentation of B)"""
  LA = sum(alens); LB = sum(blens)
  crit = set([0, LA])
  s = 0
  for ln in alens:
    crit.update(s + d for d in (0, 1, 3, 4, 7, 8)); crit.add(s + ln - 1); s += ln
  segs = [("cuts", ())] + [("cuts", (p,)) for p in range(1, LB)] + [("chunk", k) for k in (1, 2, 3, 5, 7) if k < LB]
  for cut in range(0, LA + 1):
    for loss in RECONNECT_LOSS:
      if loss != "eof" and cut not in crit and not thorough: continue
      for kind, arg in segs: yield cut, loss, kind, arg


def _worker_reconnect (item):
  side, seq, thorough, src = item
  aseq, bseq = seq
  _guards()
  rep = Report(PID, "model_checking")
  alens = [len(m) for m in build("switch", aseq)]; blens = [len(m) for m in build("switch", bseq)]
  first = True
  for cut, loss, kind, arg in reconnect_cases(alens, blens, thorough):
    v, profile, nreads = run_reconnect_case(aseq, cut, loss, bseq, kind, arg, src)
    rep.evaluations += 1
    rep.transitions += nreads + 4
    rep.outcome((side, seq, cut, loss, tuple(profile), v and v[0]))
    data = dict(side=side, seq=[list(aseq), list(bseq)], cut=cut, loss=loss, kind=kind, arg=list(arg) if kind == "cuts" else arg)
    if v:
      rep.violation(v[0], v[1] + " [stream A %s cut at %d, %s, then stream B %s, %s %r]"
                    % ("+".join(aseq), cut, loss, "+".join(bseq), kind, data["arg"]), data)
    elif first and cut and kind == "cuts" and len(arg) == 1:
      first = False
      rep.sample(dict(data, reads=nreads, delivered_after_bytes=[list(p) for p in profile]))
  rep.state_count += rep.evaluations
  return rep


def _seqtext (seq):
  """a+a+a+b -> 3 x a + b"""
  out = []
  for name, grp in itertools.groupby(seq):
    k = len(list(grp))
    out.append(name if k == 1 else "%d x %s" % (k, name))
  if len(out) > 8: out = out[:3] + ["... (%d messages)" % len(seq)]
  return " + ".join(out)


def _worker (item):
  side, seq, threecuts, src = item
  if side == "controller-live": return _worker_live(item)
  if side == "switch-reconnect": return _worker_reconnect(item)
  _guards()
  rep = Report(PID, "model_checking")
  for r in (raise_sets(len(seq), threecuts) if side.endswith("-raising") else
            stock_raise_sets(seq, threecuts) if side.endswith("-stock") else
            hs_raise_sets(seq, threecuts) if side == "controller-handshake" else [()]):
    _run_item(rep, side, seq, threecuts, src, r)
  _shutdown_tasks()
  return rep


def _run_item (rep, side, seq, threecuts, src, raises):
  msgs = build(side, seq)
  lens = [len(m) for m in msgs]
  for m in msgs:
    ver, typ, ln, xid = W.parse_hdr(m)
    if (ver != 1 and not (typ == W.HELLO and side in ("controller-types", "controller-stock"))) or ln != len(m):
      rep.error("alphabet message is not well-formed: %r" % (seq,)); return rep
  states = set()
  first = True
  end = None
  loose = loose_of(side, seq)
  gen = context_cases if is_context(seq) else \
        (lambda l, d: hs_cases(l, d, bool(raises))) if side == "controller-handshake" else \
        (lambda l, d: sweep_cases(l, d and not raises)) if side.endswith("-stock") else sweep_cases if side.endswith(("-types", "-stock", "-task")) else raising_cases if side.endswith("-raising") else cases_for
  for kind, arg in gen(lens, threecuts):
    # unsegmented, 1-cut and fixed-read-size cases: a fresh receiver each.  2-/3-cut cases: the work item's
    # receiver is reused while it is verifiably back in the initial framing state; a violation seen on a reused
    # receiver is only reported if a fresh receiver shows it too (otherwise the reuse argument is broken: error).
    multi = kind == "cuts" and len(arg) >= 2
    if multi and not reusable(end):
      try: end = ENDS[side]()
      except HandshakeFailed: end = None        # run_case will meet (and report) the same failure
    multi = multi and end is not None
    reused = multi and end.used
    if multi: end.used = True
    v, profile, nreads, st = run_case(side, msgs, kind, arg, src, end=end if multi else None, loose=loose, raises=raises)
    if v and reused:
      v2 = run_case(side, msgs, kind, arg, src, loose=loose, raises=raises)[0]
      if v2 is None or v2[0] != v[0]:
        rep.error("violation %s on a reused receiver not reproduced on a fresh one (%r)" % (v[0], v2 and v2[0]))
      v = v2
    if v: end = None
    rep.evaluations += 1
    rep.transitions += nreads
    states |= st
    rep.outcome((side, seq, raises, tuple(profile), v and v[0]) if raises else (side, seq, tuple(profile), v and v[0]))
    data = dict(side=side, seq=list(seq), kind=kind, arg=list(arg) if kind == "cuts" else arg)
    if raises: data["raises"] = list(raises)
    if v:
      rep.violation(v[0], v[1] + " [sequence %s%s, %s %r]" % (_seqtext(seq), (", the handler of deliveries %s raises" % list(raises)) if raises else "",
                                                            kind, data["arg"]), data)
    elif kind == "cuts" and len(arg) == 2 and first and len(seq) > 1:
      first = False
      rep.sample(dict(side=side, sequence=list(seq), lengths=lens, cuts=list(arg), reads=nreads,
                      delivered_after_bytes=[list(p) for p in profile], **({"handler_raises_at": list(raises)} if raises else {})))
  rep.state_count += len(states)


def run (cfg):
  S.selftest()
  from mc import env
  env.boot()
  maxlen = cfg.pick(2, 3)
  threecuts = not cfg.quick
  livelen = cfg.pick(2, 3)
  raiselen = cfg.pick(3, 4)
  rep = Report(PID, "model_checking")
  rep.rule = ("both receivers (controller of_01.Connection.read after a completed handshake; switch RecocoIOWorker._do_recv -> "
              "OFConnection.read), handlers replaced by recorders; every sequence of 1..%d messages over the side's alphabet "
              "(controller receives %s; switch receives %s; bytes from the spec encoders, distinct xid per position); for each "
              "stream of length L: unsegmented, every 1-cut (L-1), every fixed read size in %s (1 = one-byte dribble), every 2-cut "
              "over P = {0..12 bytes after a message start, 0..2 bytes before a message end, k*2048-1..k*2048+1} (every 2-cut "
              "outright when L <= %d)%s; bulk streams (n x 8-byte, n/2 x (8+12)-byte; switch also 7 x 2500-byte, 1366 x 12-byte): "
              "unsegmented, fixed read sizes incl. 4096, 8191..8193, 16383..16385, every 1-cut (not for the 1366-message stream), "
              "and the read-size boundary: the socket holds exactly n bytes, n in {8191..8193, 16383..16385}, at one wake-up, from "
              "offset a in {0,1,4,8,first boundary,+1,1000,8192}; near-maximum-size streams (a %s-byte packet-in / packet-out "
              "followed by one small, two small or a 2500-byte message, or between two small ones): unsegmented, read sizes %s, "
              "every 1-cut in the first and (per message) last 2048+16 bytes, within 16 bytes of a boundary and at k*2048 / k*8192 "
              "+-1, every 2-cut over header-critical positions; segments longer than the receiver's recv size (2048 controller, 8192 switch) are handed "
              "out in pieces. distinct = distinct (side, sequence, bytes-received -> delivered-count profile, verdict); states = "
              "distinct (side, sequence, bytes received, residual buffer length). controller-nicira: the controller harness with "
              "the Nicira component's VENDOR unpacker installed (nicira._init_unpacker), alphabet = vendor messages of another "
              "vendor with 0..5 payload bytes (12..17 bytes), a Nicira role reply (20), barrier reply, packet-in; same sequences "
              "and segmentations. switch-reconnect: the datapath's real OpenFlowWorker (BackoffWorker) on a real RecocoIOLoop with "
              "scripted sockets and a hand-fired back-off timer; history = connect, the first c bytes of stream A (%s; every c in "
              "0..len), connection lost (EOF for every c; reset / exceptional condition at the header-critical c, thorough: every "
              "c), reconnect, stream B (%s) unsegmented / every 1-cut / read sizes 1,2,3,5,7; each connection must deliver "
              "exactly the messages complete on it. controller-live: a fresh real Connection in "
              "the handshake state with its real handler tables (nothing replaced); stream = hello, features reply, the "
              "handshake-completing message (%s; xid of the controller's barrier), then every sequence of 0..%d (one less after "
              "the HP-style error) of {%s}; "
              "unsegmented, one message per read, every 1-cut, the fixed read sizes, every 2-cut over P; observed = nexus events "
              "(ConnectionUp, PacketIn, PortStatus, BarrierIn, FlowRemoved with the re-packed message) and the connection's "
              "writes, compared after every read with what the complete messages owe (computed from the message list). "
              % (maxlen, ", ".join("%s(%d)" % (n, len(f(1))) for n, f in CTRL),
                 ", ".join("%s(%d)" % (n, len(f(1))) for n, f in SWITCH), CHUNKS, SMALL_STREAM,
                 ", every 3-cut over the header-critical positions {0,1,3,4,7,8 bytes into a message, its last byte}" if threecuts else "",
                 "/".join(str(n) for n in JUMBO_SIZES), list(JUMBO_CHUNKS),
                 " | ".join("+".join(a) for a in RECONNECT_A), " | ".join("+".join(b) for b in RECONNECT_B),
                 " / ".join(LIVE_FINISH), livelen, ", ".join(n for n, f in LIVE_TAIL)))
  rep.rule += ("controller-types / switch-types (type sweep): every OpenFlow 1.0 message type the side can legally be sent, in each "
              "length form of a list (controller %d forms: %s; switch %d forms: %s) - among them a HELLO with a 1/4/7/8/16-byte "
              "body (spec 5.5.1; controller also the version-4 HELLO with and without a version bitmap that Connection.read admits), "
              "ECHO/ERROR/VENDOR/PACKET_IN/PACKET_OUT with 0 data bytes, stats replies with 0 entries, action lists of 0/1/3/13 "
              "actions (every action type, 8- and 16-byte) - each form X in the streams X+%s and %s+X+%s%s: unsegmented, every 1-cut, the fixed "
              "read sizes, every 2-cut over %s; HELLO-with-body deliveries are compared by type and xid (libopenflow skips the body), "
              "everything else by re-packed bytes. controller-raising / switch-raising: the recorder installed as handler RAISES "
              "after recording for a chosen set of deliveries (%s); every sequence of 1..%d messages over {%s} / {%s}: "
              "unsegmented, every 1-cut, read sizes 1..16, every 2-cut%s; same oracle (the failing delivery counts as delivered, every "
              "other message must still be delivered once, in order, for every segmentation)"
              % (len(SWEEP["controller-types"]), ", ".join("%s(%d)" % (n, len(f(1))) for n, (f, st) in SWEEP["controller-types"].items()),
                 len(SWEEP["switch-types"]), ", ".join("%s(%d)" % (n, len(f(1))) for n, (f, st) in SWEEP["switch-types"].items()),
                 "barrier", "echo_request", "barrier", "" if cfg.quick else ", X+X, X+X+barrier",
                 "the header-critical positions {0,1,3,4,7,8 bytes into a message, its last byte}" if cfg.quick else
                 "P (all when L <= %d), every 3-cut over the header-critical positions" % SMALL_STREAM,
                 "each single position, and all positions" if cfg.quick else "every non-empty subset of positions",
                 raiselen, ", ".join("%s(%d)" % (n, len(f(1))) for n, f in ALPHA["controller-raising"]),
                 ", ".join("%s(%d)" % (n, len(f(1))) for n, f in ALPHA["switch-raising"]),
                 "" if cfg.quick else ", every 3-cut over the header-critical positions"))
  rep.rule += (". Among the controller's type-sweep forms: every fixed-width string field (ofp_phy_port.name in PORT_STATUS and in each "
              "port position of a two-port FEATURES_REPLY, ofp_table_stats.name, the five ofp_desc_stats strings) x content {empty, one "
              "character, width-1 characters + terminator, bytes >= 0x80 (not for the ASCII description strings)} and - for the name "
              "fields, which the specification only requires to be null-terminated - a terminated string with a non-zero byte right "
              "behind the terminator / in the field's last byte / in every remaining byte (compared by type and xid: libopenflow "
              "re-packs names zero-padded). Context sweep (controller-types, switch-types, controller-nicira): every form X behind "
              "k bytes of earlier traffic (one ECHO_REQUEST of exactly k bytes), k in %s, followed by a barrier, and in front of "
              "such a message, k in %s - Connection.read unpacks in place, so X then lies at buffer offset k / 0 and has k / 0..k "
              "bytes behind it depending on the segmentation: unsegmented, every 1-cut over P%s, the fixed read sizes, every 2-cut "
              "over %s"
              % (list(CONTEXT_BEFORE[cfg.quick]), list(CONTEXT_AFTER[cfg.quick]),
                 "" if cfg.quick else " and at every position inside X", "the header-critical positions" if cfg.quick else "P"))
  rep.rule += (". controller-stock / switch-stock: the receiver keeps pox's OWN handler - of_01.DefaultOpenFlowHandlers as installed "
              "by the completed handshake on a nexus whose listeners only record (ErrorIn.should_log untouched); a fresh "
              "SoftwareSwitch (4 ports) with its rx_message - the recorder records each delivery, then calls the stock handler; "
              "logging is ENABLED at DEBUG into a sink that formats every record. Forms: every form of the type sweep plus the "
              "value sweep (controller %d forms: OFPT_ERROR for every type in %s x code in %s [named range per type %s, so every "
              "named pair, one past each range, and 0xffff] with 8 data bytes, and with a text / a 64-byte / an 80-byte request "
              "as data; PORT_STATUS reason 0..3 x port {1 known, 3 unknown, LOCAL}; PACKET_IN reason 0..2 x buffered/unbuffered "
              "carrying a real Ethernet/IPv4/TCP frame; FLOW_REMOVED reason 0..3; GET_CONFIG_REPLY flags 0..3; stats replies "
              "with REPLY_MORE for flow/desc/vendor/port; a Nicira vendor message without the Nicira component; a features "
              "reply with every capability; switch %d forms: FLOW_MOD command 0..5 x {unbuffered, buffer_id 5 (unknown)}, "
              "flags 1/2/3/4/7, DELETE with out_port; PACKET_OUT of a real frame to port 1, 2, 99 and every reserved port, from "
              "in_port CONTROLLER, through every action type; PORT_MOD for port {1, 99, LOCAL} x {right, wrong hw address} x "
              "config {PORT_DOWN, NO_FLOOD, all}; flow/aggregate stats requests with table 0 / out_port / all-wildcard match, "
              "port / queue stats and queue config for port 1 and 99, stats type 6; SET_CONFIG flags 0..3 x miss_send_len "
              "0/0xffff; a Nicira vendor request); each form X in the streams X+%s and %s+X+%s%s; for each stream the wrapped "
              "handler of %s raises after the stock handler returned or does not; unsegmented, every 1-cut, the fixed read sizes, "
              "every 2-cut over %s; a fresh receiver for every case; same oracle (the recorder's log is the delivery sequence; an "
              "exception escaping the read path, duplicates after it, a closed connection are violations whatever caused them)"
              % (N_VALUE_FORMS["controller-stock"], list(ERROR_TYPES), list(ERROR_CODES), ERROR_CODES_NAMED,
                 N_VALUE_FORMS["switch-stock"], "barrier", "echo_request", "barrier", "" if cfg.quick else ", X+X",
                 "X's delivery" if cfg.quick else "each single delivery / every delivery",
                 "the header-critical positions" if cfg.quick else "the header-critical positions (while no handler raises: over P, all "
                 "when L <= %d, and every 3-cut over the header-critical positions)" % SMALL_STREAM))
  rep.rule += (". controller-handshake: a fresh real Connection in the handshake state with BOTH of pox's handler tables kept (the "
              "connection's HandshakeOpenFlowHandlers table wrapped in place, the shared default table behind transparent shims; a "
              "handler called by a stock handler - the deferred port status - is not counted as a delivery), logging enabled; stream "
              "= hello, [A], features reply, [B], finish (%s), [tail]; at most one message of {%s} in slot A or slot B%s "
              "(barrier_reply_unasked only in A), tail in {none, %s} (after the HP-style finish: none%s); one message per read, "
              "unsegmented, every 1-cut, the fixed read sizes, every 2-cut over {0,4,8 bytes into a message, its last byte}%s; and "
              "again with the wrapped handler of EVERY delivery raising after the stock handler returned (%s). controller-task: "
              "read() is called by pox's own OpenFlow_01_Task.run generator, resumed by the harness once per select() wake-up "
              "(level-triggered) with of_01's socket module a stand-in (scripted listener / accepted sockets); two switches connect "
              "and handshake through the loop, then both receive the same stream in the same segments, both readable at the same "
              "wake-ups (bystander first); connection under test keeps the stock default handlers, bystander has recorders; every "
              "sequence of 1..%d of {%s} and %s alone / before / after a small message; unsegmented, every 1-cut, the fixed read "
              "sizes, every 2-cut over the header-critical positions; oracle per wake-up as usual (the task dropping the "
              "connection or no longer reading it = the receiver gave up), bystander delivered the same sequence by the end"
              % (" / ".join(n for n in HS_FIXED[2:]), ", ".join("%s(%d)" % (n, len(f(1))) for n, f in HS_INTER),
                 "" if cfg.quick else ", or one in each", ", ".join(n for n, f in HS_TAIL), "" if cfg.quick else " or any",
                 "" if cfg.quick else " replaced by every 2-cut over P",
                 "without the 2-cuts" if cfg.quick else "and of each single delivery",
                 cfg.pick(2, 3), ", ".join(TASK_SMALL), TASK_BIG))
  rep.bound = dict(max_messages=maxlen, cuts="all 1-cuts; 2-cuts over P (all when L<=%d)%s; fixed read sizes"
                   % (SMALL_STREAM, "; 3-cuts over critical positions" if threecuts else ""),
                   alphabet=dict(controller=len(CTRL), switch=len(SWITCH)), live_tail_messages=livelen,
                   type_sweep_forms=dict(controller=len(SWEEP["controller-types"]), switch=len(SWEEP["switch-types"])),
                   raising_handler_max_messages=raiselen,
                   stock_handler_forms=dict(controller=len(SWEEP["controller-stock"]), switch=len(SWEEP["switch-stock"])),
                   handshake_interleaved_messages=cfg.pick(1, 2), task_max_messages=cfg.pick(2, 3),
                   context_bytes_before=list(CONTEXT_BEFORE[cfg.quick]), context_bytes_after=list(CONTEXT_AFTER[cfg.quick]),
                   stock_handler_raise_sets="none + the swept form's delivery" if cfg.quick else "none + each single + all",
                   raising_handler_sets="single positions + all" if cfg.quick else "every non-empty subset")
  rep.assumptions = ["well-formed OpenFlow 1.0 messages only (malformed input is C10); well-formed includes the legal forms pox "
                     "never sends itself: a HELLO with a body, and on the controller side a HELLO of another version (admitted by "
                     "Connection.read by design; the switch side answers another version with HELLO_FAILED and closes, which is "
                     "version negotiation, not framing, and is not exercised)",
                     "handlers are recorders: what a handler does with a delivered message is outside this property - except "
                     "that in the -raising harnesses the recorder raises an Exception after recording (a handler that closes "
                     "the connection or re-enters read() is not modelled: the statement is silent on what follows a close), and "
                     "that in the -stock harnesses the recorder calls pox's own handler after recording: what that handler does "
                     "(events, replies, error replies, log lines, raising an Exception that the reader swallows) is not judged, "
                     "only what the READER then delivers",
                     "controller-handshake: a barrier reply with a foreign xid after the features reply is excluded (the controller "
                     "drops the connection by design); whether the handshake completes is not judged here (controller-live does)",
                     "controller-task: select() is modelled level-triggered; the task is built without Task.__init__ (no scheduler) "
                     "and ended by core.running = False at a wake-up; of_01.socket is rebound only while the generator runs",
                     "-stock: nexus listeners only record (no ErrorIn listener clears should_log, none halts or raises); the "
                     "controller's OpenFlow_01_Task loop is not in the picture (read() is called directly: an exception escaping "
                     "read() is itself the violation); the switch's ERR_EXCEPTION report for a failing stock handler is expected, "
                     "not demanded; values one past a named range (error codes, reasons, flow-mod command, stats type) are counted "
                     "as well-formed: length and layout do not depend on them and later protocol revisions / real switches use them",
                     "switch-raising: the ERR_EXCEPTION report of OFConnection._error_handler for a scripted handler failure is "
                     "expected and not counted as the receiver giving up; whether it is made is not demanded",
                     "a complete message that is delivered only by a later read is not flagged as long as everything is delivered, "
                     "in order, by the end of the stream (the statement constrains early delivery, loss, merging; not promptness)",
                     "2-/3-cut cases reuse the work item's receiver once it is verifiably back in the initial framing state "
                     "(buffer empty, socket drained, open, recorder installed); unsegmented / 1-cut / fixed-read-size cases and "
                     "the confirmation of every violation use a freshly built (controller: freshly handshaken) receiver",
                     "controller-live: libopenflow's xid counter is restarted per connection (module global rebound) so the "
                     "handshake barrier's xid is known when the stream is written; segmentations that put the barrier reply in "
                     "the same read as the features reply are included although a real switch could not produce them",
                     "switch-reconnect: core.callDelayed / callLater and the socket module of pox.lib.ioworker.workers are rebound "
                     "for the duration of a case (virtual timer, scripted sockets) and restored afterwards",
                     "re-pack equality uses message forms libopenflow re-packs byte-for-byte (exact match, max_len 0)",
                     "a name field (ofp_phy_port.name, ofp_table_stats.name) with non-zero bytes behind its terminating NUL counts "
                     "as well-formed (the specification says null-terminated, nothing about the rest of the field); the description "
                     "strings of ofp_desc_stats do not (5.3.5: padded on the right with null bytes); a name that fills the field "
                     "without a terminator is not exercised"]
  items = []
  for side in ("controller", "switch"):
    if cfg.only and cfg.only != side: continue
    names = [n for n, f in ALPHA[side]]
    for k in range(1, maxlen + 1):
      for seq in itertools.product(names, repeat=k):
        items.append((side, seq, threecuts, cfg.pox_src))
    # bulk streams: one read (or few) spanning many complete messages
    small = names[0]; second = names[1]
    for n in (33, 40, 100, 300) if cfg.quick else (17, 33, 40, 64, 65, 100, 300, 1000):
      items.append((side, (small,) * n, threecuts, cfg.pox_src))
      items.append((side, (small, second) * (n // 2), threecuts, cfg.pox_src))
    # streams longer than two receive buffers of the switch's I/O loop (8192): few big messages, many small ones
    # (switch side only: the controller's recv size is 2048 and k*2048 is inside the 2500-byte streams above)
    if side == "switch":
      items.append((side, (names[-1],) * 7, threecuts, cfg.pox_src))
      items.append((side, (second,) * 1366, threecuts, cfg.pox_src))
    # near-maximum-size message followed (and preceded) by ordinary ones
    small, second, big = names[0], names[1], names[-1]
    for n in JUMBO_SIZES:
      j = "jumbo_%d" % n
      for seq in ((j, small), (j, small, second), (j, big), (small, j, small)):
        items.append((side, seq, threecuts, cfg.pox_src))
  if not cfg.only or cfg.only == "controller-nicira":
    names = [n for n, f in NICIRA]
    for k in range(1, maxlen + 1):
      for seq in itertools.product(names, repeat=k):
        items.append(("controller-nicira", seq, threecuts, cfg.pox_src))
    for name in names:        # context sweep with the Nicira unpacker installed
      for seq in context_sequences("controller-nicira", name, cfg.quick): items.append(("controller-nicira", seq, threecuts, cfg.pox_src))
  # heavy streams first so the pool drains evenly (order only; every item is run)
  items.sort(key=lambda it: -sum(len(m) for m in build(it[0], it[1])))
  # type sweep: every (type, length form) of the side, first in the stream and between two ordinary messages
  for side in ("controller-types", "switch-types"):
    if cfg.only and cfg.only != side: continue
    b, a = SWEEP_BEFORE[side], SWEEP_AFTER[side]
    for name in SWEEP[side]:
      forms = [(name, a), (b, name, a)] + ([] if cfg.quick else [(name, name), (name, name, a)])
      for seq in forms: items.append((side, seq, threecuts, cfg.pox_src))
      for seq in context_sequences(side, name, cfg.quick): items.append((side, seq, threecuts, cfg.pox_src))
  # stock handlers: every (type, length form) and every value form, alone before and between ordinary messages
  for side in ("controller-stock", "switch-stock"):
    if cfg.only and cfg.only != side: continue
    b, a = SWEEP_BEFORE[side], SWEEP_AFTER[side]
    for name in SWEEP[side]:
      forms = [(name, a), (b, name, a)] + ([] if cfg.quick else [(name, name)])
      for seq in forms: items.append((side, seq, threecuts, cfg.pox_src))
  if not cfg.only or cfg.only == "controller-task":
    for seq in task_sequences(not cfg.quick):
      items.append(("controller-task", seq, threecuts, cfg.pox_src))
  if not cfg.only or cfg.only == "controller-handshake":
    for seq in hs_sequences(not cfg.quick):
      items.append(("controller-handshake", seq, threecuts, cfg.pox_src))
  # raising handlers: every sequence over the three small messages, each raise set
  for side in ("controller-raising", "switch-raising"):
    if cfg.only and cfg.only != side: continue
    for k in range(1, raiselen + 1):
      for seq in itertools.product(RAISING[side], repeat=k):
        items.append((side, seq, threecuts, cfg.pox_src))
  if not cfg.only or cfg.only == "switch-reconnect":
    for aseq in RECONNECT_A:
      for bseq in RECONNECT_B:
        items.append(("switch-reconnect", (aseq, bseq), not cfg.quick, cfg.pox_src))
  if not cfg.only or cfg.only == "controller-live":
    tails = [n for n, f in LIVE_TAIL]
    for fin in LIVE_FINISH:
      # the HP-style completion takes the same path through read(); it gets one message less than the barrier reply
      for k in range(0, livelen + (1 if fin == "barrier_reply" else 0)):
        for tail in itertools.product(tails, repeat=k):
          items.append(("controller-live", (fin,) + tail, threecuts, cfg.pox_src))
  for r in pmap(_worker, items, cfg.workers, seed=cfg.seed):
    rep.merge(r)
  rep.extra["streams"] = len(items)
  return rep


def replay (cfg, data):
  from mc import env
  env.boot()
  side, seq, kind, arg = data["side"], data["seq"], data["kind"], data["arg"]
  if side != "switch-reconnect": seq = tuple(seq)
  _guards()
  if side == "switch-reconnect":
    aseq, bseq = tuple(data["seq"][0]), tuple(data["seq"][1])
    trace = []
    v, profile, nreads = run_reconnect_case(aseq, data["cut"], data["loss"], bseq, kind, tuple(arg) if kind == "cuts" else arg,
                                            cfg.pox_src, trace=trace)
    lines = ["switch-reconnect: stream A %s cut at byte %d, connection lost (%s), reconnect, stream B %s, %s %r"
             % ("+".join(aseq), data["cut"], data["loss"], "+".join(bseq), kind, arg)]
    lines += trace[:40]
    lines.append("=> %s" % (("%s: %s" % v) if v else "both connections delivered exactly what was complete on them"))
    return bool(v), "\n".join(lines)
  if side == "controller-live":
    xids = live_xids()
    trace = []
    v, profile, nreads = run_live_case(seq, xids, kind, tuple(arg) if kind == "cuts" else arg, cfg.pox_src, trace=trace)
    msgs = live_build(seq, xids)
    lines = ["controller-live: hello, features reply, %s (completes the handshake), then %s; lengths %s; %s %r"
             % (seq[0], "+".join(seq[1:]) or "nothing", [len(m) for m in msgs], kind, arg)]
    lines += trace[:40] + (["... (%d reads)" % len(trace)] if len(trace) > 40 else [])
    lines.append("=> %s" % (("%s: %s" % v) if v else "events and writes are exactly what the message sequence owes"))
    return bool(v), "\n".join(lines)
  msgs = build(side, seq)
  trace = []
  raises = tuple(data.get("raises", ()))
  v, profile, nreads, st = run_case(side, msgs, kind, tuple(arg) if kind == "cuts" else arg, cfg.pox_src, trace=trace,
                                    loose=loose_of(side, seq), raises=raises)
  _shutdown_tasks()
  lines = ["%s side, sequence %s (%d bytes)%s, %s %r" % (side, _seqtext(seq), sum(len(m) for m in msgs),
                                                        (", the handler of deliveries %s raises" % list(raises)) if raises else "", kind, arg)]
  lines += trace[:40] + (["... (%d reads)" % len(trace)] if len(trace) > 40 else [])
  lines.append("=> %s" % (("%s: %s" % v) if v else "delivered exactly the sent sequence, buffer empty"))
  return bool(v), "\n".join(lines)
