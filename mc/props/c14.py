"""C14 - packet headers survive build -> bytes -> parse, with valid lengths and checksums.

E-enum over the builder table in mc/refs/pktcorpus.py: every header stack the packet library can
assemble (Ethernet, 802.1Q, LLC/SNAP, ARP, MPLS, EAPOL/EAP, LLDP, IPv4+options, ICMP, IGMP, GRE, UDP,
TCP+options, DHCP, DNS, RIP, VXLAN, IPv6+extension headers, ICMPv6/ND), each with and without a VLAN
tag, every field at its wire boundaries (k deviations from a fingerprint base vector), every option /
TLV list shape of the table, and every payload length of the stack's range (0..1500 for UDP, TCP and
ICMP echo over IPv4).  Each case is assembled with the real POX classes, packed, parsed back with
ethernet(raw=...), re-packed, and the emitted bytes are checked by refs/rfc1071.verify_frame (an
independent RFC 1071 checksum evaluated over raw offsets).

Oracle clauses (violation key = C14:<clause>:<site or field>):
  raises:<file>:<function>:<exception>   build / pack / parse / re-pack raised (innermost POX frame)
  chain:<kind>                           the parser did not give back the <kind> header that was packed
  field:<kind>.<attr>                    a header field differs after the round trip
  payload:<kind>                         the innermost payload differs after the round trip
  repack:<kind>@<offset>                 pack(parse(b)) != b; <kind> is the innermost header whose bytes differ
  length:<where>.<field>, checksum:<where>   emitted length / checksum field != reference
  checksum-fn:<class>                    packet_utils.checksum() != RFC 1071 on a bare buffer
  subedit-lost / subedit-corrupts:<kind>.<attr>[<Class>].<attr>   one attribute of one element of a list / dict held by a
                                         parsed header modified in place: lost on pack / bytes differ from a fresh build
  corpus-repack:<header>                 a valid frame assembled without the library: pack(parse(frame)) != frame
  history:<Class>.<attr> | history:repack | ...   parsing a corpus frame B after a frame A differs from parsing B in a fresh process
  edit-lost:<kind>.<attr>                bytes -> parse -> assign the attribute -> pack -> parse: the new value is gone
  edit-corrupts:<kind>.<attr>            ... another attribute (the one named) differs from the packet built from scratch
  edit-checksum:<where>, edit-length:<where>.<field>   ... the new bytes carry a stale checksum / length
"""
import os, sys, traceback
from mc.engine import pmap
from mc.report import Report, digest
from mc.refs import rfc1071 as R
from mc.refs import pktcorpus as K

PID = "C14"
MISSING = "<missing>"
LABELLED = frozenset(["options", "tlvs", "questions", "answers", "authorities", "additional", "entries", "group_records"])
SKIP_ATTRS = frozenset(["prev", "next", "parsed", "hdr_len", "payload_len", "rdlen", "dirty", "callback"])


# ---------------------------------------------------------------------------------------------
# helpers
# ---------------------------------------------------------------------------------------------

def exc_site (e):
  """basename:qualified function:exception type of the innermost frame inside the POX tree,
  or None when no POX frame is on the traceback (a harness bug)."""
  root = os.path.realpath(os.environ.get("POX_SRC", "/repo")) + os.sep
  tb = e.__traceback__
  last = None
  while tb is not None:
    fn = os.path.realpath(tb.tb_frame.f_code.co_filename)
    if fn.startswith(root):
      last = tb.tb_frame.f_code
    tb = tb.tb_next
  t = type(e)
  name = t.__name__ if t.__module__ == "builtins" else "%s.%s" % (t.__module__, t.__name__)
  if last is None:
    return None
  return "%s:%s:%s" % (os.path.basename(last.co_filename), getattr(last, "co_qualname", last.co_name), name)


def canon (v, depth=0):
  """Canonical comparable form of a header field value."""
  if depth > 6: return repr(v)
  if v is None or isinstance(v, (bool, int, float, str, bytes)): return v
  if isinstance(v, bytearray): return bytes(v)
  if hasattr(v, "_value") and hasattr(v, "raw") and not hasattr(v, "pack"):     # EthAddr / IPAddr / IPAddr6
    return (type(v).__name__, v.raw)
  if isinstance(v, dict):
    return tuple(sorted(((canon(k, depth + 1), canon(x, depth + 1)) for k, x in v.items()), key=repr))
  if isinstance(v, (list, tuple)):
    return tuple(canon(x, depth + 1) for x in v)
  if hasattr(v, "__dict__"):
    d = dict(vars(v))
    name = type(v).__name__
    items = []
    if hasattr(v, "tlv_type"): items.append(("tlv_type", v.tlv_type))
    if name == "NDOptionGeneric": items.append(("TYPE", v.TYPE))
    if hasattr(type(v), "CODE"):
      # DHCP options: the option code is a class attribute that parsing also stores on the instance; compare its
      # effective value, not where it is stored
      items.append(("CODE", getattr(v, "CODE", None))); d.pop("CODE", None)
    for k in sorted(d):
      if k in SKIP_ATTRS or k == "tlv_type": continue
      if k == "raw" and name != "NDOptionGeneric": continue
      items.append((k, canon(d[k], depth + 1)))
    return (name, tuple(items))
  return repr(v)


def elem_label (a, z):
  """For list / dict valued fields: name the first element that differs (class and type code of the
  element that was packed), so that different broken options / TLVs get different keys."""
  if not (isinstance(a, tuple) and isinstance(z, tuple)) or (a and isinstance(a[0], str)):
    return ""
  n = 0
  while n < len(a) and n < len(z) and a[n] == z[n]: n += 1
  if n >= len(a): return "[extra]"
  e = a[n]
  if isinstance(e, tuple) and len(e) == 2 and not isinstance(e[0], str) and isinstance(e[1], tuple):
    e = e[1]                                   # dict item (key, value): label the value
  if isinstance(e, tuple) and len(e) == 2 and isinstance(e[0], str) and isinstance(e[1], tuple):
    name, items = e
    d = dict(x for x in items if isinstance(x, tuple) and len(x) == 2)
    for t in ("type", "tlv_type", "TYPE", "subtype", "qtype"):
      if isinstance(d.get(t), int) and name in ("tcp_opt", "unknown_tlv", "NDOptionGeneric", "rr"):
        return "[%s-%s]" % (name, d[t])
    return "[%s]" % name
  return "[%d]" % n if n < 4 else "[n]"


def describe (x, P):
  if x is None: return "None"
  if isinstance(x, bytes): return "bytes"
  if isinstance(x, P.packet_base):
    return type(x).__name__ + ("" if getattr(x, "parsed", False) else "-unparsed")
  return type(x).__name__


def short (v, n=60):
  s = repr(v)
  return s if len(s) <= n else s[:n] + "..."


class Case (object):
  __slots__ = ("viols", "frame", "calls", "chain")
  def __init__ (self):
    self.viols = []      # (key suffix, what)
    self.frame = None
    self.calls = 0
    self.chain = ""

  def bad (self, key, what):
    self.viols.append((key, what))


def _raised (c, e, phase):
  site = exc_site(e)
  if site is None:
    raise e
  c.bad("raises:" + site, "%s raised %s: %s" % (phase, type(e).__name__, short(str(e), 100)))


def check_case (P, st, devs, plen):
  """Run one case against the real library.  Returns a Case."""
  c = Case()
  kinds = [k for k, _ in st["layers"]]
  try:
    c.calls += 1
    top, objs, vs, payload = K.build(P, st, devs, plen)
  except Exception as e:
    _raised(c, e, "assembling the headers"); return c
  try:
    c.calls += 1
    b = top.pack()
  except Exception as e:
    _raised(c, e, "pack()"); return c
  if not isinstance(b, bytes):
    c.bad("pack-type:" + kinds[0], "pack() returned %s" % type(b).__name__); return c
  c.frame = b

  # ---- parse back, compare the header chain ------------------------------------------------
  p = None
  try:
    c.calls += 1
    p = P.pkt.ethernet(raw=b)
  except Exception as e:
    _raised(c, e, "parsing the library's own bytes")
  if p is not None:
    # Round-trip clauses are evaluated in order chain -> fields -> payload -> re-pack and only the first
    # failing clause of a case is reported: the later ones are consequences of it (a field that came
    # back wrong makes the re-packed bytes differ, ...).  Base vectors have no deviation, so a defect
    # of a later clause still shows in the cases where the earlier clauses hold.
    cur = p
    failed = False
    names = []
    for i, k in enumerate(kinds):
      cls = K.KINDS[k]["cls"](P)
      if not isinstance(cur, cls) or not getattr(cur, "parsed", False):
        c.bad("chain:%s" % k, "packed a %s header inside %s but parsing gave back %s"
              % (k, kinds[i - 1] if i else "the frame", describe(cur, P)))
        failed = True
        break
      names.append(type(cur).__name__)
      for f in K.KINDS[k]["cmp"]:
        a = getattr(objs[i], f, MISSING)
        z = getattr(cur, f, MISSING)
        if isinstance(a, bool) and not isinstance(z, str): z = bool(z)
        if k == "gre" and f == "csum" and a is None and z == 0 and getattr(objs[i], "routing", None) is not None:
          z = None    # with routing present the checksum/offset word is on the wire; "no checksum" reads back as 0
        ca, cz = canon(a), canon(z)
        if ca != cz:
          c.bad("field:%s.%s%s" % (k, f, elem_label(ca, cz) if f in LABELLED else ""),
                "%s.%s was %s when packed, %s after parsing" % (k, f, short(ca, 90), short(cz, 90)))
          failed = True
      if failed: break
      cur = cur.next
    c.chain = "/".join(names)
    if not failed:
      try:
        if cur is None: rest = b""
        elif isinstance(cur, bytes): rest = cur
        else:
          c.calls += 1
          rest = cur.pack()
        if rest != (payload or b""):
          c.bad("payload:%s" % kinds[-1], "payload of %d bytes came back as %s (%d bytes)"
                % (len(payload or b""), describe(cur, P), len(rest)))
          failed = True
      except Exception as e:
        _raised(c, e, "packing the parsed payload")
        failed = True
    # ---- serialise the parsed result again ---------------------------------------------------
    try:
      c.calls += 1
      b2 = p.pack()
    except Exception as e:
      if not failed: _raised(c, e, "re-serialising the parsed packet")
    else:
      if b2 != b and not failed:
        c.bad("repack:" + locate_diff(P, objs, kinds, payload, b, b2),
              "pack(parse(b)) differs from b (%d vs %d bytes, first difference at offset %d)"
              % (len(b2), len(b), first_diff(b, b2)))

  # ---- emitted length and checksum fields vs the independent implementation ----------------
  r = R.verify_frame(b)
  for clause, where, field, want, got in r.issues:
    where_key = where.rsplit(">", 1)[-1]          # tunnels (gre>, vxlan>) run the same code: one key
    if clause == "checksum":
      c.bad("checksum:%s" % where_key, "%s %s in the frame is %#06x, RFC 1071 over the raw bytes gives %#06x" % (where, field, got, want))
    else:
      c.bad("length:%s.%s" % (where_key, field), "%s %s in the frame is %s, the raw bytes say %s" % (where, field, got, want))
  # header-length fields against the options that were asked for
  for i, k in enumerate(kinds):
    if k == "ipv4":
      want = 20 + len(vs[i]["options"]); got = (r.info.get("ipv4.hl") or [None])[0]
      if got is not None and got != want:
        c.bad("length:ipv4.ihl", "IHL says %s bytes, header with options is %d" % (got, want))
      break
    if k in ("gre", "vxlan", "unreach", "time_exceeded"): break
  for i, k in enumerate(kinds):
    if k == "tcp":
      want = 20 + len(K.ref_tcp_options(vs[i]["options"])); want += -want % 4
      got = (r.info.get("tcp/ipv4.hl") or r.info.get("tcp/ipv6.hl") or [None])[0]
      if got is not None and got != want:
        c.bad("length:tcp.data_offset", "data offset says %s bytes, header with the RFC-encoded options is %d" % (got, want))
      break
    if k in ("gre", "vxlan", "unreach", "time_exceeded"): break
  return c


def first_diff (a, b):
  n = min(len(a), len(b))
  for i in range(n):
    if a[i] != b[i]: return i
  return n


def locate_diff (P, objs, kinds, payload, b, b2):
  """Name the innermost header kind whose bytes (from that header to the end of the frame) differ.
  Tails are aligned at the END of the two frames (the bytes from layer i to the end are
  objs[i].pack()), so that a derived length / checksum field of an outer header that merely follows
  an inner change is not blamed."""
  try:
    tails = [len(o.pack()) for o in objs] + [len(payload or b"")]
  except Exception:
    return "unknown"
  names = list(kinds) + ["payload"]
  where, rel = names[0], first_diff(b, b2)
  for i, L in enumerate(tails):
    t1 = b[len(b) - L:] if L else b""
    t2 = b2[max(0, len(b2) - L):] if L else b""
    if t1 != t2:
      where, rel = names[i], first_diff(t1, t2)
  fixed = getattr(K.KINDS[where]["cls"](P), "MIN_LEN", 4) if where in K.KINDS else 0
  return "%s@%s" % (where, rel if rel < fixed else "var")


# ---------------------------------------------------------------------------------------------
# edit after parse:  bytes -> parse -> assign one field of one header -> pack -> parse
# ---------------------------------------------------------------------------------------------
NOT_FIELDS = frozenset(["prev", "next", "raw", "parsed"])
COMPUTED_LEN_KINDS = frozenset(["eapol", "eap"])      # their length field is supplied by the builder from the inner size


def _flatten (x, c):
  if x is None: return b""
  if isinstance(x, bytes): return x
  c.calls += 1
  return x.pack()


def check_edit (P, st, dev, plen):
  """One edit case.  The base vector of the stack is assembled, packed and parsed; then the single
  deviation `dev` = (layer, field, alternative) is applied to the PARSED object chain by plain attribute
  assignment (the values come from a 'donor' object assembled from scratch with that deviation, so
  addresses / option lists have the library's own types; attributes the user maintains together with the
  field, e.g. llc.length or ipv4.hl, are assigned with it).  The edited chain is packed and parsed again
  and must read back exactly like the donor packet assembled from scratch:
     edit-lost:<kind>.<attr>       the assigned attribute does not read back with its new value
     edit-corrupts:<kind>.<attr>   another attribute (named in the key; e.g. a stale checksum or length) differs from
                                   the packet assembled from scratch; edit-corrupts:<kind>.<field> with the ASSIGNED
                                   field when a header stops parsing / the payload or uncompared bytes change
     edit-checksum:<where> / edit-length:<where>.<field>   the new bytes do not verify (rfc1071)
  Returns a Case, or None when the case does not apply (the from-scratch round trip of base or donor is
  itself broken - the main phase reports that - or the deviation does not change the object)."""
  li, f, ai = dev
  kinds = [k for k, _ in st["layers"]]
  k_li = kinds[li]
  c = Case()
  for d in ((), (dev,)):
    pre = check_case(P, st, d, plen)
    c.calls += pre.calls
    if pre.viols: return None
  try:
    top0, objs0, vs0, payload0 = K.build(P, st, (), plen); b0 = top0.pack()
    objsU = K.build(P, st, (), plen)[1]                  # never packed: attribute defaults before pack()
    topd, objsd, vsd, payloadd = K.build(P, st, (dev,), plen); bd = topd.pack()
    objsV = K.build(P, st, (dev,), plen)[1]              # never packed: donor of the new values
    p0 = P.pkt.ethernet(raw=b0)
    pd = P.pkt.ethernet(raw=bd)
    c.calls += 8
  except Exception:
    return None
  if len(bd) != len(b0) and (COMPUTED_LEN_KINDS & set(kinds[:li]) or
                             any(v.get("type") == "len" or v.get("eth_type") == "len" for v in vs0[:li])):
    return None      # an outer length field that the USER supplies would have to be edited as well
  cur = p0
  for i in range(li + 1):
    if not isinstance(cur, K.KINDS[kinds[i]]["cls"](P)) or not getattr(cur, "parsed", False): return None
    if i < li: cur = cur.next
  du, dv = vars(objsU[li]), vars(objsV[li])
  edited = []
  for a in sorted(dv):
    if a in NOT_FIELDS: continue
    if canon(dv[a]) != canon(du.get(a, MISSING)):
      setattr(cur, a, dv[a])
      edited.append(a)
  if not edited: return None
  label = "%s.%s" % (k_li, f)
  try:
    c.calls += 1
    be = p0.pack()
  except Exception as e:
    _raised(c, e, "pack() after assigning %s of a parsed packet" % label); return c
  c.frame = be
  try:
    c.calls += 1
    pe = P.pkt.ethernet(raw=be)
  except Exception as e:
    _raised(c, e, "parsing the bytes packed after assigning %s" % label); return c
  ce, cd = pe, pd
  names = []
  lost = corrupt = False
  diffs = []                                  # (layer, kind, attr, from-scratch value, value after the edit)
  for i, k in enumerate(kinds):
    cls = K.KINDS[k]["cls"](P)
    if not isinstance(cd, cls) or not getattr(cd, "parsed", False): break
    if not isinstance(ce, cls) or not getattr(ce, "parsed", False):
      c.bad("edit-corrupts:" + label, "after assigning %s on the parsed packet and packing, the %s header came back as %s "
            "(assembled from scratch with the same value it parses)" % (label, k, describe(ce, P)))
      corrupt = True
      break
    names.append(type(ce).__name__)
    for a in K.KINDS[k]["cmp"]:
      x, z = canon(getattr(cd, a, MISSING)), canon(getattr(ce, a, MISSING))
      if x != z: diffs.append((i, k, a, x, z))
    ce, cd = ce.next, cd.next
  if not corrupt:
    mine = [d for d in diffs if d[0] == li and d[2] in edited]
    for i, k, a, x, z in mine:
      # the assigned attribute itself did not survive: everything else that differs follows from that
      c.bad("edit-lost:%s.%s" % (k, a), "parsed a packet, assigned %s.%s = %s, packed and parsed again: it reads back as %s"
            % (k, a, short(x, 80), short(z, 80)))
      lost = True
    if not lost and diffs:
      i, k, a, x, z = diffs[0]
      # keyed by the attribute that was damaged (e.g. a checksum / length that was not recomputed), not by the
      # one that was assigned: one stale field gives one key however many edits reveal it
      c.bad("edit-corrupts:%s.%s" % (k, a), "after assigning %s on the parsed packet, %s.%s reads back as %s; the same packet "
            "assembled from scratch gives %s" % (label, k, a, short(z, 80), short(x, 80)))
      corrupt = True
  c.chain = "/".join(names)
  if not (lost or corrupt):
    try:
      if _flatten(ce, c) != _flatten(cd, c):
        c.bad("edit-corrupts:" + label, "after assigning %s on the parsed packet the bytes below the headers changed" % label)
        corrupt = True
    except Exception as e:
      _raised(c, e, "packing the payload after assigning %s" % label); corrupt = True
  if not (lost or corrupt):
    r = R.verify_frame(be)
    for clause, where, field, want, got in r.issues:
      wk = where.rsplit(">", 1)[-1]
      if clause == "checksum":
        c.bad("edit-checksum:%s" % wk, "after assigning %s on the parsed packet, %s %s in the new frame is %#06x, RFC 1071 gives %#06x"
              % (label, where, field, got, want))
      else:
        c.bad("edit-length:%s.%s" % (wk, field), "after assigning %s on the parsed packet, %s %s in the new frame is %s, the raw bytes say %s"
              % (label, where, field, got, want))
    if not c.viols and be != bd:
      c.bad("edit-corrupts:" + label, "after assigning %s on the parsed packet the new frame differs from the one assembled from "
            "scratch with the same values (first difference at offset %d) although every compared field agrees" % (label, first_diff(be, bd)))
  return c


# ---------------------------------------------------------------------------------------------
# edit after parse, sub-objects:  modify ONE attribute of ONE element of a list / dict held by a header
# (RIP entries, DHCP option objects, LLDP TLVs, TCP options, IGMPv3 group records, IPv6 extension headers,
#  ND options, DNS questions / records) IN PLACE on the parsed packet
# ---------------------------------------------------------------------------------------------
NOTHING = object()


def is_addr (v):
  return hasattr(v, "_value") and hasattr(v, "raw") and not hasattr(v, "pack")


def mutate (v, depth=0):
  """Another value of the same type and size (lowest bit of the last / first unit flipped), or NOTHING."""
  if isinstance(v, bool): return not v
  if isinstance(v, int): return v ^ 1
  if isinstance(v, bytes): return (v[:-1] + bytes([v[-1] ^ 1])) if v else NOTHING
  if isinstance(v, str): return (v[:-1] + ("b" if v[-1] != "b" else "a")) if v else NOTHING
  if is_addr(v):
    raw = v.raw[:-1] + bytes([v.raw[-1] ^ 1])
    return type(v)(raw, raw=True) if type(v).__name__ == "IPAddr6" else type(v)(raw)
  if isinstance(v, (list, tuple)) and v and depth < 3:
    m = mutate(v[-1], depth + 1)
    if m is NOTHING: return NOTHING
    return type(v)(list(v[:-1]) + [m])
  return NOTHING


def sub_objects (layer):
  """(attribute, key, element) for every object held in a list / tuple / dict attribute of a header."""
  for a, v in sorted(vars(layer).items()):
    if a in NOT_FIELDS: continue
    if isinstance(v, dict): items = sorted(v.items(), key=lambda kv: repr(kv[0]))
    elif isinstance(v, (list, tuple)): items = list(enumerate(v))
    else: continue
    for k, e in items:
      if hasattr(e, "__dict__") and not is_addr(e) and not isinstance(e, type):
        yield a, k, e


def _chain_layer (P, st, frame, li):
  """Parse frame and return (outermost, header number li) or (outermost, None)."""
  p = P.pkt.ethernet(raw=frame)
  cur = p
  for i, (k, _) in enumerate(st["layers"][:li + 1]):
    if not isinstance(cur, K.KINDS[k]["cls"](P)) or not getattr(cur, "parsed", False): return p, None
    if i < li: cur = cur.next
  return p, cur


def _element (layer, a, k):
  v = getattr(layer, a, None)
  try: return v[k]
  except Exception: return None


def subedit_points (P, st, devs, plen):
  """Every (layer, attribute, key, element class, element attribute) that can be modified on the parsed packet."""
  if check_case(P, st, devs, plen).viols: return []
  b0 = K.build(P, st, devs, plen)[0].pack()
  out = []
  cur = P.pkt.ethernet(raw=b0)
  for li, (k, _) in enumerate(st["layers"]):
    if not isinstance(cur, K.KINDS[k]["cls"](P)): break
    for a, key, e in sub_objects(cur):
      for sa in sorted(vars(e)):
        if sa in NOT_FIELDS: continue
        if mutate(getattr(e, sa)) is not NOTHING:
          out.append((li, a, key, type(e).__name__, sa))
    cur = cur.next
  return out


def check_subedit (P, st, devs, plen, point):
  """One in-place edit of a sub-object.  The same assignment is made (i) on the element of a packet assembled
  from scratch, which gives the expected bytes - the case only applies if those bytes parse back with the new
  value and re-encode to themselves, i.e. the new value is representable - and (ii) on the element of the PARSED
  packet; packing (ii) must give the bytes of (i).
     subedit-lost:<kind>.<attr>[<Class>].<attr>      the new value is not in the re-parsed packet
     subedit-corrupts:<kind>.<attr>[<Class>].<attr>  it is, but the bytes differ from the from-scratch packet
  Returns a Case or None (not applicable)."""
  li, a, key, cname, sa = point
  kind_li = st["layers"][li][0]
  label = "%s.%s[%s].%s" % (kind_li, a, cname, sa)
  c = Case()
  try:
    top0, objs0, _, _ = K.build(P, st, devs, plen); b0 = top0.pack()
    p0, layer0 = _chain_layer(P, st, b0, li)
    c.calls += 3
    if layer0 is None: return None
    e0 = _element(layer0, a, key)
    if e0 is None or type(e0).__name__ != cname or not hasattr(e0, sa): return None
    newv = mutate(getattr(e0, sa))
    if newv is NOTHING: return None
    # (i) from scratch
    topf, objsf, _, _ = K.build(P, st, devs, plen)
    ef = _element(objsf[li], a, key)
    if ef is None or type(ef).__name__ != cname or not hasattr(ef, sa): return None
    setattr(ef, sa, newv)
    bf = topf.pack()
    pf, layerf = _chain_layer(P, st, bf, li)
    c.calls += 4
    if layerf is None: return None
    epf = _element(layerf, a, key)
    if epf is None or canon(getattr(epf, sa, MISSING)) != canon(newv) or pf.pack() != bf or bf == b0: return None
  except Exception:
    return None
  # (ii) in place on the parsed packet
  setattr(e0, sa, newv)
  try:
    c.calls += 1
    be = p0.pack()
  except Exception as e:
    _raised(c, e, "pack() after assigning %s of a parsed packet" % label); return c
  c.frame = be
  if be == bf: return c
  try:
    c.calls += 1
    pe, layere = _chain_layer(P, st, be, li)
  except Exception as e:
    _raised(c, e, "parsing the bytes packed after assigning %s" % label); return c
  epe = _element(layere, a, key) if layere is not None else None
  got = getattr(epe, sa, MISSING) if epe is not None else MISSING
  if canon(got) != canon(newv):
    c.bad("subedit-lost:" + label, "parsed a packet, set %s.%s[%r].%s = %s in place, packed and parsed again: it reads back as %s%s"
          % (kind_li, a, key, sa, short(canon(newv), 70), short(canon(got), 70), " (the bytes did not change at all)" if be == b0 else ""))
  else:
    off = first_diff(be, bf)
    c.bad("subedit-corrupts:" + label, "after setting %s.%s[%r].%s in place on the parsed packet the new frame differs from the one "
          "assembled from scratch with the same value (%d vs %d bytes, first difference at offset %d: %s vs %s)"
          % (kind_li, a, key, sa, len(be), len(bf), off, be[max(0, off - 2):off + 6].hex(), bf[max(0, off - 2):off + 6].hex()))
  return c


def subedit_sources (st):
  """Base vector plus every single deviation of a list / dict valued field (each option-list / TLV-list shape)."""
  out = [()]
  for li, f, vals in K.domain(st):
    if isinstance(vals[0], (list, dict)):
      out.extend(((li, f, ai),) for ai in range(1, len(vals)))
  return out


def edit_plens (st, quick):
  plens = st["plens"]
  pick = [n for n in ((18,) if quick else (0, 1, 18)) if n in plens]
  return pick or list(plens[:1])


# ---------------------------------------------------------------------------------------------
# corpus frames (assembled WITHOUT the library):  parse -> pack gives the frame back
# ---------------------------------------------------------------------------------------------

def check_corpus_frame (P, name, frame):
  """pack(parse(frame)) == frame for every corpus frame (frames of a family listed in
  pktcorpus.CORPUS_NOT_CANONICAL only have to re-encode to a fixpoint: parsing and packing the re-encoded
  bytes once more changes nothing).  Returns (Case, text)."""
  c = Case()
  try:
    c.calls += 2
    p = P.pkt.ethernet(raw=frame)
    b = p.pack()
  except Exception as e:
    _raised(c, e, "parse + pack of corpus frame %s" % name); return c
  c.frame = b
  loose = K.CORPUS_NOT_CANONICAL.get(name)
  ref = frame
  if loose:
    try:
      c.calls += 2
      ref = b
      b = P.pkt.ethernet(raw=ref).pack()
    except Exception as e:
      _raised(c, e, "parse + pack of the re-encoded corpus frame %s" % name); return c
  if b != ref:
    off = first_diff(b, ref)
    loc = R.verify_frame(ref).locate(min(off, len(ref) - 1))
    where = loc[0].rsplit(">", 1)[-1] if loc else "payload"
    c.bad("corpus-repack:%s" % where,
          "corpus frame %s (%s): %s differs from it (%d vs %d bytes, first difference at offset %d, inside the %s header): %s -> %s"
          % (name, K.CORPUS_PATHS[name], "a second parse+pack of the re-encoding" if loose else "pack(parse(frame))",
             len(b), len(ref), off, where, ref[max(0, off - 4):off + 8].hex(), b[max(0, off - 4):off + 8].hex()))
  return c


def run_corpus (rep, P):
  for name, frame in K.corpus().items():
    try:
      c = check_corpus_frame(P, name, frame)
    except Exception:
      rep.error("corpus frame %s: %s" % (name, traceback.format_exc(limit=4))); continue
    rep.evaluations += 1
    rep.transitions += c.calls
    rep.outcome(("corpus", name, [k for k, _ in c.viols], digest(c.frame) if c.frame is not None else None))
    for k, what in c.viols:
      rep.violation("%s:%s" % (PID, k), what, dict(kind="corpus", frame=name))


def _corpus_worker (_):
  rep = Report(PID, "exploration")
  run_corpus(rep, K.pox_namespace())
  return rep


# ---------------------------------------------------------------------------------------------
# history independence of the parser:  parse A, then parse B  ==  parse B in a fresh process
# ---------------------------------------------------------------------------------------------
_ISO = {}      # corpus frame name -> summary of parsing it first thing in a fresh process (set before the fork)


def parse_summary (P, frame):
  """Everything observable about parsing one frame: per header of the chain its class, parsed flag and
  every instance attribute (canonical form), the unparsed remainder, and the re-encoded bytes."""
  out = []
  try:
    p = P.pkt.ethernet(raw=frame)
  except Exception as e:
    return [("parse-raises", exc_site(e) or type(e).__name__)]
  cur, depth = p, 0
  while cur is not None and depth < 24:
    if isinstance(cur, bytes):
      out.append(("bytes", cur)); break
    if not isinstance(cur, P.packet_base):
      out.append(("object", type(cur).__name__)); break
    attrs = tuple((k, canon(v)) for k, v in sorted(vars(cur).items()) if k not in NOT_FIELDS)
    out.append((type(cur).__name__, bool(getattr(cur, "parsed", False)), attrs))
    cur = cur.next; depth += 1
  try:
    out.append(("repack", p.pack()))
  except Exception as e:
    out.append(("repack-raises", exc_site(e) or type(e).__name__))
  return out


def drill (x, z, depth=0):
  """Narrow two differing canonical values down to the first differing nested element (for the message)."""
  if isinstance(x, tuple) and isinstance(z, tuple) and depth < 8:
    for i in range(min(len(x), len(z))):
      if x[i] != z[i]: return drill(x[i], z[i], depth + 1)
  return x, z


def summary_diff (iso, got):
  """(key suffix, text) naming the first observable difference between two parse summaries."""
  for i in range(max(len(iso), len(got))):
    x = iso[i] if i < len(iso) else None
    z = got[i] if i < len(got) else None
    if x == z: continue
    if x is None or z is None or x[0] != z[0]:
      return "chain", "element %d of the parsed chain is %s instead of %s" % (i, z and z[0], x and x[0])
    if x[0] in ("repack", "bytes", "parse-raises", "repack-raises", "object"):
      return x[0], "%s: %s instead of %s" % (x[0], short(z[1], 70), short(x[1], 70))
    if x[1] != z[1]:
      return "%s.parsed" % x[0], "%s.parsed is %s instead of %s" % (x[0], z[1], x[1])
    dx, dz = dict(x[2]), dict(z[2])
    for a in sorted(set(dx) | set(dz)):
      if dx.get(a, MISSING) != dz.get(a, MISSING):
        vx, vz = drill(dx.get(a, MISSING), dz.get(a, MISSING))
        return "%s.%s" % (x[0], a), "%s.%s has %s where the isolated parse has %s" % (x[0], a, short(vz, 110), short(vx, 110))
  return "other", "summaries differ"


def _iso_task (name):
  """Runs first thing in a fresh process."""
  P = K.pox_namespace()
  return name, parse_summary(P, K.corpus()[name])


def history_sequence (a):
  """The parse history explored for predecessor A: A, B1, A, B2, ... so that every frame B of the corpus is
  parsed directly after A (all ordered pairs, A == B included)."""
  return [(a, b) for b in K.corpus()]


def _after_task (arg):
  """In a fresh process: for every corpus frame B parse A then B; B must look exactly as in isolation.
  arg = (A, stop) - stop (a frame name) ends the sequence after that B (replay)."""
  a, stop = arg
  P = K.pox_namespace()
  C = K.corpus()
  rep = Report(PID, "exploration")
  text = []
  for _, b in history_sequence(a):
    parse_summary(P, C[a])
    got = parse_summary(P, C[b])
    rep.evaluations += 1
    rep.transitions += 4
    bad = got != _ISO[b]
    rep.outcome(("history", b, digest(repr(got)), bad))
    if bad:
      where, what = summary_diff(_ISO[b], got)
      rep.violation("%s:history:%s" % (PID, where),
                    "parsing corpus frame %s after %s (and the frames before it in the sequence) differs from parsing it in a "
                    "fresh process: %s" % (b, a, what), dict(kind="history", a=a, b=b))
      text.append("after %s, %s: %s" % (a, b, what))
    if b == stop: break
  return rep, text


def fresh_pool (workers):
  """Every task runs in its own process forked from this (pristine: it never parses) process."""
  import multiprocessing
  return multiprocessing.get_context("fork").Pool(max(1, workers), maxtasksperchild=1)


def run_history (rep, cfg):
  import random
  names = list(K.corpus())
  order = list(names)
  if cfg.seed: random.Random(cfg.seed).shuffle(order)
  pool = fresh_pool(cfg.workers)
  try:
    for name, summ in pool.imap_unordered(_iso_task, order, 1):
      _ISO[name] = summ
    pool.close(); pool.join()
  finally:
    pool.terminate()
  pool = fresh_pool(cfg.workers)       # forked after _ISO is filled
  try:
    for r, _ in pool.imap_unordered(_after_task, [(a, None) for a in order], 1):
      rep.merge(r)
    pool.close(); pool.join()
  finally:
    pool.terminate()
  rep.extra["history_pairs"] = len(names) * len(names)


# ---------------------------------------------------------------------------------------------
# enumeration
# ---------------------------------------------------------------------------------------------

def plan (st, quick):
  """Payload-length sets of a stack for the tier: (base, 1 deviation, 2 deviations, 3 deviations)."""
  plens = st["plens"]
  full = len(plens) >= 1501
  if not quick and plens and plens[-1] == 1500:
    plens = K.FULL
  dp = [n for n in (0, 1, 18) if n in plens] or list(plens[:2])
  if quick:
    dp1 = dp + ([1499, 1500] if full else [])
  else:
    dp1 = list(plens) if full else sorted(set(dp) | set(st["plens"]))
  dp2 = dp[:2] if quick else dp[:3]
  dp3 = [] if quick else dp[:2]
  if st.get("zero_csum"):
    # payload -1: two bytes chosen by the reference so that the UDP checksum computes to 0x0000
    plens = list(plens) + [-1]; dp1 = list(dp1) + [-1]
  return plens, dp1, dp2, dp3


def cases_for (st, quick, part):
  """Deterministic list of (devs, plen) of one stack.  part -1: the base vector x the stack's payload
  range; part i >= 0: every case whose FIRST deviation is deviation number i of the stack -
     quick:    1 deviation x {0,1,18}(+1499,1500 on full-range stacks); 2 deviations x {0,1}
     thorough: base x 0..1500 wherever the stack range reaches 1500; 1 deviation x the whole stack range;
               2 deviations x {0,1,18}; 3 deviations x {0,1} on stacks with <= 100 single deviations"""
  plens, dp1, dp2, dp3 = plan(st, quick)
  if part < 0:
    return [((), n) for n in plens]
  devs = K.deviations(st)
  nd = len(devs)
  i = part
  out = [((devs[i],), n) for n in dp1]
  for j in range(i + 1, nd):
    if devs[i][:2] == devs[j][:2]: continue
    for n in dp2:
      out.append(((devs[i], devs[j]), n))
    if dp3 and nd <= 100:
      for k in range(j + 1, nd):
        if devs[k][:2] == devs[j][:2] or devs[k][:2] == devs[i][:2]: continue
        for n in dp3:
          out.append(((devs[i], devs[j], devs[k]), n))
  return out


def estimate (st, quick, part):
  plens, dp1, dp2, dp3 = plan(st, quick)
  if part < 0: return len(plens)
  nd = len(K.deviations(st))
  m = nd - part - 1
  n = len(dp1) + m * len(dp2)
  if dp3 and nd <= 100: n += (m * (m - 1) // 2) * len(dp3)
  return n


def _worker (batch):
  rep = Report(PID, "exploration")
  for name, part in batch:
    _run_part(rep, name, part)
  return rep


def _run_edits (rep, name):
  P = K.pox_namespace()
  st = K.STACKS[name]
  for plen in edit_plens(st, _worker.quick):
    for dev in K.deviations(st):
      try:
        c = check_edit(P, st, dev, plen)
      except Exception:
        rep.error("edit case %s %r plen=%d: %s" % (name, dev, plen, traceback.format_exc(limit=4)))
        continue
      if c is None:
        rep.extra["edit_cases_not_applicable"] = rep.extra.get("edit_cases_not_applicable", 0) + 1
        continue
      rep.evaluations += 1
      rep.transitions += c.calls
      rep.extra["edit_cases"] = rep.extra.get("edit_cases", 0) + 1
      keys = sorted(set(k for k, _ in c.viols))
      rep.outcome(("edit", keys, digest(c.frame) if c.frame is not None else None, c.chain))
      seen = set()
      for k, what in c.viols:
        if k in seen: continue
        seen.add(k)
        rep.violation("%s:%s" % (PID, k), "[%s] %s" % (name, what),
                      dict(kind="edit", stack=name, dev=list(dev), plen=plen))


def _run_subedits (rep, name):
  P = K.pox_namespace()
  st = K.STACKS[name]
  plen = edit_plens(st, True)[0]
  for devs in subedit_sources(st):
    try:
      points = subedit_points(P, st, devs, plen)
    except Exception:
      rep.error("sub-object edit points %s %r: %s" % (name, devs, traceback.format_exc(limit=4))); continue
    for point in points:
      try:
        c = check_subedit(P, st, devs, plen, point)
      except Exception:
        rep.error("sub-object edit %s %r %r: %s" % (name, devs, point, traceback.format_exc(limit=4))); continue
      if c is None:
        rep.extra["subedit_cases_not_applicable"] = rep.extra.get("subedit_cases_not_applicable", 0) + 1
        continue
      rep.evaluations += 1
      rep.transitions += c.calls
      rep.extra["subedit_cases"] = rep.extra.get("subedit_cases", 0) + 1
      rep.outcome(("subedit", [k for k, _ in c.viols], digest(c.frame) if c.frame is not None else None))
      for k, what in c.viols:
        rep.violation("%s:%s" % (PID, k), "[%s] %s" % (name, what),
                      dict(kind="subedit", stack=name, devs=[list(d) for d in devs], plen=plen, point=list(point)))


def _run_part (rep, name, part):
  if part == "edit":
    return _run_edits(rep, name)
  if part == "subedit":
    return _run_subedits(rep, name)
  P = K.pox_namespace()
  st = K.STACKS[name]
  cases = cases_for(st, _worker.quick, part)
  for devs, plen in cases:
    try:
      c = check_case(P, st, devs, plen)
    except Exception:
      rep.error("case %s %r plen=%d: %s" % (name, devs, plen, traceback.format_exc(limit=4)))
      continue
    rep.evaluations += 1
    rep.transitions += c.calls
    keys = sorted(set(k for k, _ in c.viols))
    rep.outcome((keys, digest(c.frame) if c.frame is not None else None, c.chain))
    seen = set()
    for k, what in c.viols:
      if k in seen: continue
      seen.add(k)
      rep.violation("%s:%s" % (PID, k), "[%s] %s" % (name, what),
                    dict(kind="packet", stack=name, devs=[list(d) for d in devs], plen=plen))
    if not c.viols and not devs and plen == 18:
      rep.sample(dict(stack=name, plen=plen, chain=c.chain, frame=c.frame[:96]))
_worker.quick = True


CSUM_PATTERNS = ["zeros", "ones", "ramp", "carry", "fold-twice", "fold-twice-le", "high-last"]

def csum_buffer (n, pat):
  if pat == "zeros": return b"\x00" * n
  if pat == "ones": return b"\xff" * n
  if pat == "ramp": return K.pattern(n)
  if pat == "carry": return (b"\xff\xfe\x00\x02" * (n // 4 + 1))[:n]
  if pat == "fold-twice-le": return (b"\xff\xff\xff\xff\x01\x00" + b"\x00" * n)[:n]   # same, for little-endian word loads
  if pat == "fold-twice": return (b"\xff\xff\xff\xff\x00\x01" + b"\x00" * n)[:n]      # 0x1ffff: the folded sum carries again
  return b"\x00" * (n - 1) + b"\x80" if n else b""


def check_csum_fn (P, n, pat, skip):
  """packet_utils.checksum on a bare buffer vs RFC 1071.  Returns [(key, what)]."""
  data = csum_buffer(n, pat)
  want = R.csum(data) if skip is None else R.csum_skipping(data, skip)
  try:
    got = P.utils.checksum(data, 0, skip)
  except Exception as e:
    site = exc_site(e)
    if site is None: raise
    return [("raises:" + site, "checksum(<%d bytes %s>, 0, %r) raised %s: %s" % (n, pat, skip, type(e).__name__, e))]
  if got != want:
    cls = ("odd" if n & 1 else "even") + ("-skip_word" if skip is not None else "")
    return [("checksum-fn:" + cls, "checksum(<%d bytes %s>, 0, %r) = %#06x, RFC 1071 gives %#06x" % (n, pat, skip, got, want))]
  return []


def _csum_worker (item):
  lo, hi = item
  P = K.pox_namespace()
  rep = Report(PID, "exploration")
  for n in range(lo, hi):
    for pat in CSUM_PATTERNS:
      skips = [None] + sorted(set(s for s in (0, 1, n // 2 - 1) if 0 <= s < n // 2))
      for skip in skips:
        v = check_csum_fn(P, n, pat, skip)
        rep.evaluations += 1; rep.transitions += 1
        rep.outcome(("csum", n & 1, pat, skip is not None, [k for k, _ in v], R.csum(csum_buffer(n, pat))))
        for k, what in v:
          rep.violation("%s:%s" % (PID, k), what, dict(kind="csum", n=n, pat=pat, skip=skip))
  return rep


def self_check (rep):
  """The reference must reproduce published vectors, and every corpus frame must verify."""
  if R.ones_sum(bytes.fromhex("0001f203f4f5f6f7")) != 0xddf2 or R.csum(bytes.fromhex("0001f203f4f5f6f7")) != 0x220d:
    rep.error("rfc1071 reference does not reproduce the RFC 1071 section 3 example")
  hdr = bytes.fromhex("450000730000400040110000c0a80001c0a800c7")
  if R.csum(hdr) != 0xb861:
    rep.error("rfc1071 reference does not reproduce the textbook IPv4 header checksum b861")
  if R.csum(b"\x01") != 0xfeff or R.csum(b"") != 0xffff:
    rep.error("rfc1071 reference: odd-length padding is wrong")
  n = 0
  for name, frame in K.corpus().items():
    r = R.verify_frame(frame)
    if r.issues or r.extra or r.malformed:
      rep.error("corpus frame %s does not verify: %r %r %r" % (name, r.issues, r.extra, r.malformed))
    n += 1
  rep.extra["corpus_frames_verified"] = n


def run (cfg):
  rep = Report(PID, "exploration")
  quick = cfg.quick
  _worker.quick = quick
  K.pox_namespace()
  self_check(rep)
  if not cfg.only or cfg.only == "history":
    run_history(rep, cfg)              # first: this process must not have parsed anything yet
  if not cfg.only or cfg.only == "corpus":
    pool = fresh_pool(1)               # in a child: this process itself must stay pristine for nothing, but cheap and uniform
    try:
      for r in pool.map(_corpus_worker, [0], 1): rep.merge(r)
    finally:
      pool.terminate()
  names = list(K.ORDER)
  if cfg.only in ("history", "corpus"): names = []
  if cfg.only:
    names = [n for n in names if cfg.only in n]
  items = []
  total = 0
  parts = []
  for name in names:
    nd1 = len(K.deviations(K.STACKS[name]))
    parts.extend(((name, i), estimate(K.STACKS[name], quick, i)) for i in range(-1, nd1))
    parts.append(((name, "edit"), 6 * nd1 * len(edit_plens(K.STACKS[name], quick))))
    parts.append(((name, "subedit"), 400 * (len(subedit_sources(K.STACKS[name])) - 1)))
  total = sum(n for _, n in parts)
  target = max(1500, total // (max(1, cfg.workers) * 12))
  cur, size = [], 0
  for it, n in parts:                      # deterministic greedy batching of the (stack, first deviation) parts
    cur.append(it); size += n
    if size >= target:
      items.append(cur); cur, size = [], 0
  if cur: items.append(cur)
  for r in pmap(_worker, items, cfg.workers, seed=cfg.seed):
    rep.merge(r)
  if not cfg.only or cfg.only == "csum":
    top = 130 if quick else 1502
    step = 10 if quick else 50
    for r in pmap(_csum_worker, [(lo, min(top, lo + step)) for lo in range(0, top, step)], cfg.workers, seed=cfg.seed):
      rep.merge(r)
  rep.state_count = rep.evaluations
  nd = sum(len(K.deviations(K.STACKS[n])) for n in names)
  rep.rule = ("E-enum over mc/refs/pktcorpus.STACKS: %d header stacks (each L3 stack also behind an 802.1Q tag); per stack the "
              "fingerprint base vector x every payload length of the stack's range (0..1500 for udp, tcp, icmp-echo over IPv4; "
              "{0,1,2,3,17,18,1499,1500} otherwise%s; on .../ip/udp stacks also a 2-byte payload that makes the UDP checksum compute to 0), "
              "every single deviation of a field to one of its boundary values / option-list "
              "shapes (%d deviations) x payload %s, every pair of deviations in different fields x payload %s%s; plus "
              "packet_utils.checksum on bare buffers of every length 0..%d x 7 byte patterns x skip_word {None,0,1,last}. "
              "Each case: assemble with the POX classes, pack, parse, compare chain/fields/payload, re-pack, verify length and "
              "checksum fields with refs/rfc1071 over raw offsets.  Edit-after-parse phase: per stack, the base vector x payload %s is "
              "packed and parsed, then every single deviation is applied to the PARSED chain by attribute assignment (one field of one "
              "header, every header in turn), packed, parsed again and compared field by field with the same packet assembled from "
              "scratch, and its lengths/checksums verified.  Sub-object edits: per stack, base vector and every option/TLV/entry-list shape: on the parsed packet ONE attribute of ONE "
              "element of every list/dict held by a header (RIP entries, DHCP options, LLDP TLVs, TCP options, IGMPv3 records, ND options, "
              "IPv6 extension headers) is changed in place (lowest bit flipped), packed, and compared with the same assignment made on a "
              "packet assembled from scratch (cases whose from-scratch packet does not carry the new value are not applicable).  "
              "Corpus phase: pack(parse(f)) == f for every corpus frame f (families in pktcorpus.CORPUS_NOT_CANONICAL: the "
              "re-encoding is a fixpoint).  History phase: for every ordered pair (A, B) of the %d corpus frames (A == B included), "
              "in a fresh process per A: parse A, parse B; every attribute of B's parsed chain and its re-encoding must equal B parsed "
              "first thing in a fresh process. distinct = distinct (violated clauses, emitted frame, parsed chain)"
              % (len(names), "" if quick else "; thorough: 0..1500 on every stack whose range reaches 1500", nd,
                 "{0,1,18} (+1499,1500 on the 0..1500 stacks)" if quick else "the stack's whole range",
                 "{0,1}" if quick else "{0,1,18}",
                 "" if quick else ", every triple of deviations in different fields x payload {0,1} on stacks with <= 100 deviations",
                 129 if quick else 1501, "{18}" if quick else "{0,1,18}", len(K.corpus())))
  rep.bound = dict(stacks=len(names), deviations=2 if quick else 3, payload_max=1500, work_items=len(items))
  rep.assumptions = ["frames carry no trailer padding (a total-length field accounts for every remaining byte)",
                     "field values are taken from the boundary sets in pktcorpus.KINDS, not from the whole wire range",
                     "ICMPv6, IGMP and GRE checksums are not named by the property: checked by round trip only",
                     "fields the library does not compute (802.3 length, EAPOL body length, EAP length, IPv4 IHL) are supplied "
                     "correctly by the builder"]
  return rep


def explains (known_key, key):
  """A listed key explains a violation when equal, or - if it contains '*' - when it matches with
  '*' standing for any run of characters (every other character is literal)."""
  if known_key == key: return True
  if "*" not in known_key: return False
  import re
  return re.fullmatch(".*".join(re.escape(x) for x in known_key.split("*")), key) is not None


def replay (cfg, data):
  P = K.pox_namespace()
  if data.get("kind") == "csum":
    v = check_csum_fn(P, data["n"], data["pat"], data["skip"])
    return bool(v), "\n".join("%s: %s" % kv for kv in v) or "checksum agrees with RFC 1071"
  if data.get("kind") == "corpus":
    c = check_corpus_frame(P, data["frame"], K.corpus()[data["frame"]])
    return bool(c.viols), "\n".join("VIOLATED %s:%s: %s" % (PID, k, w) for k, w in c.viols) or "corpus frame re-encodes to itself"
  if data.get("kind") == "history":
    pool = fresh_pool(1)
    try:
      _ISO.update(dict(pool.map(_iso_task, list(K.corpus()), 1)))
    finally:
      pool.terminate()
    pool = fresh_pool(1)
    try:
      r, text = pool.map(_after_task, [(data["a"], data["b"])], 1)[0]
    finally:
      pool.terminate()
    head = "fresh process; for every corpus frame B up to %s: parse %s, parse B, compare B with B parsed first thing in a fresh process" % (data["b"], data["a"])
    return bool(r.violations), head + "\n" + ("\n".join(text) or "every B parsed exactly as in isolation")
  st = K.STACKS[data["stack"]]
  if data.get("kind") == "subedit":
    devs = tuple(tuple(d) for d in data["devs"])
    c = check_subedit(P, st, devs, data["plen"], tuple(data["point"]))
    li, a, key, cname, sa = data["point"]
    head = ("stack %s, deviations %r, payload %d: packed and parsed; on the parsed packet layer %d (%s) .%s[%r] (%s) .%s modified in place; "
            "packed and compared with the same packet assembled from scratch" % (st["name"], list(devs), data["plen"], li, st["layers"][li][0], a, key, cname, sa))
    if c is None: return False, head + "\nnot applicable"
    return bool(c.viols), head + "\n" + "\n".join("VIOLATED %s:%s: %s" % (PID, k, w) for k, w in c.viols)
  if data.get("kind") == "edit":
    dev = tuple(data["dev"])
    c = check_edit(P, st, dev, data["plen"])
    val = K.values(st, (dev,))[dev[0]][dev[1]]
    lines = ["stack %s, payload %d bytes: base vector packed and parsed; then on the parsed chain layer %d (%s) %s := %s; "
             "packed and parsed again" % (st["name"], data["plen"], dev[0], st["layers"][dev[0]][0], dev[1], short(val, 80))]
    if c is None:
      return False, lines[0] + "\nnot applicable (the from-scratch round trip of base or donor already fails, or nothing to assign)"
    lines.append("frame after the edit: %s" % (c.frame.hex() if c.frame is not None else "<not produced>")[:400])
    for k, what in c.viols:
      lines.append("VIOLATED %s:%s: %s" % (PID, k, what))
    return bool(c.viols), "\n".join(lines)
  devs = tuple(tuple(d) for d in data["devs"])
  c = check_case(P, st, devs, data["plen"])
  lines = ["stack %s, payload %s, deviations from the base vector:"
           % (st["name"], "%d bytes" % data["plen"] if data["plen"] >= 0 else "2 bytes making the UDP checksum compute to 0")]
  vs = K.values(st, devs)
  for li, f, ai in devs:
    lines.append("  layer %d (%s) %s = %s" % (li, st["layers"][li][0], f, short(vs[li][f], 80)))
  if not devs: lines.append("  (none)")
  lines.append("frame: %s" % (c.frame.hex() if c.frame is not None else "<not produced>")[:400])
  lines.append("parsed chain: %s" % c.chain)
  for k, what in c.viols:
    lines.append("VIOLATED %s:%s: %s" % (PID, k, what))
  return bool(c.viols), "\n".join(lines)
