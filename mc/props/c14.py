"""C14 - packet headers survive build -> bytes -> parse, with valid lengths and checksums.

E-enum over the builder table in mc/refs/pktcorpus.py: every header stack the packet library can
assemble (Ethernet, 802.1Q, LLC/SNAP, ARP, MPLS, EAPOL/EAP, LLDP, IPv4+options, ICMP, IGMP, GRE, UDP,
TCP+options, DHCP, DNS, RIP, VXLAN, IPv6+extension headers, ICMPv6/ND), each with and without a VLAN
tag, every field at its wire boundaries (k deviations from a fingerprint base vector), every option /
TLV list shape of the table, and every payload length of the stack's range (0..1500 for UDP, TCP and
ICMP echo over IPv4).  Each case is assembled with the real POX classes, packed, parsed back with
ethernet(raw=...), re-packed, and the emitted bytes are checked by refs/rfc1071.verify_frame (an
independent RFC 1071 checksum evaluated over raw offsets).

Oracle clauses (violation key = C14:<clause>:<site or field>):
  raises:<file>:<function>:<exception>   build / pack / parse / re-pack raised (innermost POX frame)
  chain:<kind>                           the parser did not give back the <kind> header that was packed
  field:<kind>.<attr>                    a header field differs after the round trip
  payload:<kind>                         the innermost payload differs after the round trip
  repack:<kind>@<offset>                 pack(parse(b)) != b; <kind> is the innermost header whose bytes differ
  length:<where>.<field>, checksum:<where>   emitted length / checksum field != reference
  checksum-fn:<class>                    packet_utils.checksum() != RFC 1071 on a bare buffer
  subedit-lost / subedit-corrupts:<kind>.<attr>[<Class>].<attr>   one attribute of one element of a list / dict held by a
                                         parsed header modified in place: lost on pack / bytes differ from a fresh build
  corpus-repack:<header>                 a valid frame assembled without the library: pack(parse(frame)) != frame
  history:<Class>.<attr> | history:repack | ...   parsing a corpus frame B after a frame A differs from parsing B in a fresh process
  edit-lost:<kind>.<attr>                bytes -> parse -> assign the attribute -> pack -> parse: the new value is gone
  edit-corrupts:<kind>.<attr>            ... another attribute (the one named) differs from the packet built from scratch
  edit-checksum:<where>, edit-length:<where>.<field>   ... the new bytes carry a stale checksum / length
  encoded-edit-*                         the same four clauses with the assignment made on the ASSEMBLED objects after a first pack()
  [encoded-]payload-edit-checksum: / -length: / -lost:<kind> / -corrupts:<kind>.<attr>
                                         the innermost payload of a parsed (encoded-: an assembled and packed) packet is replaced
                                         and the packet packed again: differs from the packet assembled around the new payload
  reuse-checksum:<where>, reuse-length:<where>.<field>, reuse-differs:<kind>@<offset>
                                         a header object that already has a container (assembled / packed / parsed, same or another
                                         stack) is handed to a new container (.payload = / set_payload() / payload= keyword): the new
                                         packet is not the one assembled from scratch
  payload:<container>><announced>, repack:<container>><announced>
                                         a container announcing header kind X carries plain bytes that are no (complete) X header -
                                         every truncation of a valid inner packet, garbage of every length up to 64 - and the bytes
                                         do not survive pack -> parse -> pack (see check_under for when this is judged)
  field:gre.flags                        the C/R/K/S bits of an emitted GRE header do not describe the optional fields that follow
  trailing-lost:<container>><announced>  the announced header was decoded from the first bytes of the payload and re-encodes to exactly
                                         those bytes, but the bytes after it - which the container's length field covers - are gone
                                         from pack(parse(b)) (header kinds that mark their own end, table DELIMITED, excepted)
  length:eapol.bodylen, length:eap.length, length:igmp3.num_records / .num_sources / .aux_data_len
                                         emitted length / count field != what an independent walk of the bytes gives (pktwide.py)

Wire-range lattice phase (mc/refs/pktwide.py): besides the table's boundary values (which take part in the pair / triple products),
every field of every header - and every address / number inside the elements of list valued fields - takes every value of the
boundary lattice of its WIRE range (0, 1, 2, msb-1, msb, msb+1, max-1, max, every single bit, every single bit cleared; for
IPv4 / MAC / IPv6 address fields the 32 / 48 / 128 bit lattice) as a single deviation of the base vector; main-phase clauses and keys.
"""
import os, sys, traceback
from mc.engine import pmap
from mc.report import Report, digest
from mc.refs import rfc1071 as R
from mc.refs import pktcorpus as K
from mc.refs import pktwide as W          # extends the table (stacks, mnemonics) on import

PID = "C14"
MISSING = "<missing>"
LABELLED = frozenset(["options", "tlvs", "questions", "answers", "authorities", "additional", "entries", "group_records"])
SKIP_ATTRS = frozenset(["prev", "next", "parsed", "hdr_len", "payload_len", "rdlen", "dirty", "callback"])


# ---------------------------------------------------------------------------------------------
# helpers
# ---------------------------------------------------------------------------------------------

def exc_site (e):
  """basename:qualified function:exception type of the innermost frame inside the POX tree,
  or None when no POX frame is on the traceback (a harness bug)."""
  root = os.path.realpath(os.environ.get("POX_SRC", "/repo")) + os.sep
  tb = e.__traceback__
  last = None
  while tb is not None:
    fn = os.path.realpath(tb.tb_frame.f_code.co_filename)
    if fn.startswith(root):
      last = tb.tb_frame.f_code
    tb = tb.tb_next
  t = type(e)
  name = t.__name__ if t.__module__ == "builtins" else "%s.%s" % (t.__module__, t.__name__)
  if last is None:
    return None
  return "%s:%s:%s" % (os.path.basename(last.co_filename), getattr(last, "co_qualname", last.co_name), name)


def canon (v, depth=0):
  """Canonical comparable form of a header field value."""
  if depth > 6: return repr(v)
  if v is None or isinstance(v, (bool, int, float, str, bytes)): return v
  if isinstance(v, bytearray): return bytes(v)
  if hasattr(v, "_value") and hasattr(v, "raw") and not hasattr(v, "pack"):     # EthAddr / IPAddr / IPAddr6
    return (type(v).__name__, v.raw)
  if isinstance(v, dict):
    return tuple(sorted(((canon(k, depth + 1), canon(x, depth + 1)) for k, x in v.items()), key=repr))
  if isinstance(v, (list, tuple)):
    return tuple(canon(x, depth + 1) for x in v)
  if hasattr(v, "__dict__"):
    d = dict(vars(v))
    name = type(v).__name__
    items = []
    if hasattr(v, "tlv_type"): items.append(("tlv_type", v.tlv_type))
    if name == "NDOptionGeneric": items.append(("TYPE", v.TYPE))
    if hasattr(type(v), "CODE"):
      # DHCP options: the option code is a class attribute that parsing also stores on the instance; compare its
      # effective value, not where it is stored
      items.append(("CODE", getattr(v, "CODE", None))); d.pop("CODE", None)
    for k in sorted(d):
      if k in SKIP_ATTRS or k == "tlv_type": continue
      if k == "raw" and name != "NDOptionGeneric": continue
      items.append((k, canon(d[k], depth + 1)))
    return (name, tuple(items))
  return repr(v)


def elem_label (a, z):
  """For list / dict valued fields: name the first element that differs (class and type code of the
  element that was packed), so that different broken options / TLVs get different keys."""
  if not (isinstance(a, tuple) and isinstance(z, tuple)) or (a and isinstance(a[0], str)):
    return ""
  n = 0
  while n < len(a) and n < len(z) and a[n] == z[n]: n += 1
  if n >= len(a): return "[extra]"
  e = a[n]
  if isinstance(e, tuple) and len(e) == 2 and not isinstance(e[0], str) and isinstance(e[1], tuple):
    e = e[1]                                   # dict item (key, value): label the value
  if isinstance(e, tuple) and len(e) == 2 and isinstance(e[0], str) and isinstance(e[1], tuple):
    name, items = e
    d = dict(x for x in items if isinstance(x, tuple) and len(x) == 2)
    for t in ("type", "tlv_type", "TYPE", "subtype", "qtype"):
      if isinstance(d.get(t), int) and name in ("tcp_opt", "unknown_tlv", "NDOptionGeneric", "rr"):
        return "[%s-%s]" % (name, d[t])
    return "[%s]" % name
  return "[%d]" % n if n < 4 else "[n]"


def describe (x, P):
  if x is None: return "None"
  if isinstance(x, bytes): return "bytes"
  if isinstance(x, P.packet_base):
    return type(x).__name__ + ("" if getattr(x, "parsed", False) else "-unparsed")
  return type(x).__name__


def short (v, n=60):
  s = repr(v)
  return s if len(s) <= n else s[:n] + "..."


class Case (object):
  __slots__ = ("viols", "frame", "calls", "chain")
  def __init__ (self):
    self.viols = []      # (key suffix, what)
    self.frame = None
    self.calls = 0
    self.chain = ""

  def bad (self, key, what):
    self.viols.append((key, what))


def _raised (c, e, phase):
  site = exc_site(e)
  if site is None:
    raise e
  c.bad("raises:" + site, "%s raised %s: %s" % (phase, type(e).__name__, short(str(e), 100)))


def check_case (P, st, devs, plen):
  """Run one case against the real library.  Returns a Case."""
  c = Case()
  kinds = [k for k, _ in st["layers"]]
  try:
    c.calls += 1
    top, objs, vs, payload = W.build(P, st, devs, plen)
  except Exception as e:
    _raised(c, e, "assembling the headers"); return c
  try:
    c.calls += 1
    b = top.pack()
  except Exception as e:
    _raised(c, e, "pack()"); return c
  if not isinstance(b, bytes):
    c.bad("pack-type:" + kinds[0], "pack() returned %s" % type(b).__name__); return c
  c.frame = b

  # ---- parse back, compare the header chain ------------------------------------------------
  p = None
  try:
    c.calls += 1
    p = P.pkt.ethernet(raw=b)
  except Exception as e:
    _raised(c, e, "parsing the library's own bytes")
  r = R.verify_frame(b)
  if p is not None:
    # Round-trip clauses are evaluated in order chain -> fields -> payload -> re-pack and only the first
    # failing clause of a case is reported: the later ones are consequences of it (a field that came
    # back wrong makes the re-packed bytes differ, ...).  Base vectors have no deviation, so a defect
    # of a later clause still shows in the cases where the earlier clauses hold.
    cur = p
    failed = False
    names = []
    for i, k in enumerate(kinds):
      cls = K.KINDS[k]["cls"](P)
      if not isinstance(cur, cls) or not getattr(cur, "parsed", False):
        c.bad("chain:%s" % k, "packed a %s header inside %s but parsing gave back %s"
              % (k, kinds[i - 1] if i else "the frame", describe(cur, P)))
        failed = True
        break
      names.append(type(cur).__name__)
      if k == "gre":
        w = gre_flags_issue(objs[i], b, r)
        if w:
          # the presence bits do not describe the header that follows them: every later field is read from the wrong place
          c.bad("field:gre.flags", w); failed = True; break
      for f in K.KINDS[k]["cmp"]:
        a = getattr(objs[i], f, MISSING)
        z = getattr(cur, f, MISSING)
        if isinstance(a, bool) and not isinstance(z, str): z = bool(z)
        if k == "gre" and f == "csum" and a is None and z == 0 and getattr(objs[i], "routing", None) is not None:
          z = None    # with routing present the checksum/offset word is on the wire; "no checksum" reads back as 0
        ca, cz = canon(a), canon(z)
        if ca != cz:
          c.bad("field:%s.%s%s" % (k, f, elem_label(ca, cz) if f in LABELLED else ""),
                "%s.%s was %s when packed, %s after parsing" % (k, f, short(ca, 90), short(cz, 90)))
          failed = True
      if failed: break
      cur = cur.next
    c.chain = "/".join(names)
    if not failed:
      try:
        if cur is None: rest = b""
        elif isinstance(cur, bytes): rest = cur
        else:
          c.calls += 1
          rest = cur.pack()
        if rest != (payload or b""):
          c.bad("payload:%s" % kinds[-1], "payload of %d bytes came back as %s (%d bytes)"
                % (len(payload or b""), describe(cur, P), len(rest)))
          failed = True
      except Exception as e:
        _raised(c, e, "packing the parsed payload")
        failed = True
    # ---- serialise the parsed result again ---------------------------------------------------
    try:
      c.calls += 1
      b2 = p.pack()
    except Exception as e:
      if not failed: _raised(c, e, "re-serialising the parsed packet")
    else:
      if b2 != b and not failed:
        c.bad("repack:" + locate_diff(P, objs, kinds, payload, b, b2),
              "pack(parse(b)) differs from b (%d vs %d bytes, first difference at offset %d)"
              % (len(b2), len(b), first_diff(b, b2)))

  # ---- emitted length and checksum fields vs the independent implementation ----------------
  gre_broken = any(k == "field:gre.flags" for k, _ in c.viols)
  for clause, where, field, want, got in r.issues:
    if gre_broken and "gre>" in where: continue   # the verifier reads what follows a mis-flagged GRE header from the wrong offset
    where_key = where.rsplit(">", 1)[-1]          # tunnels (gre>, vxlan>) run the same code: one key
    if clause == "checksum":
      c.bad("checksum:%s" % where_key, "%s %s in the frame is %#06x, RFC 1071 over the raw bytes gives %#06x" % (where, field, got, want))
    else:
      c.bad("length:%s.%s" % (where_key, field), "%s %s in the frame is %s, the raw bytes say %s" % (where, field, got, want))
  # length / count fields of headers rfc1071.verify_frame does not walk (EAPOL body length, EAP length, IGMPv3 record counts)
  extra = list(W.eapol_issues(b))
  for i, k in enumerate(kinds):
    if k == "igmp3" and not ({"gre", "vxlan", "unreach", "time_exceeded"} & set(kinds[:i])):
      extra.extend(W.igmp3_issues(b, vs[i]["records"]))
  for where, field, want, got in extra:
    c.bad("length:%s.%s" % (where, field), "%s %s in the frame is %s, what was assembled has %s" % (where, field, got, want))
  # header-length fields against the options that were asked for
  for i, k in enumerate(kinds):
    if gre_broken: break
    if k == "ipv4":
      want = 20 + len(vs[i]["options"]); got = (r.info.get("ipv4.hl") or [None])[0]
      if got is not None and got != want:
        c.bad("length:ipv4.ihl", "IHL says %s bytes, header with options is %d" % (got, want))
      break
    if k in ("gre", "vxlan", "unreach", "time_exceeded"): break
  for i, k in enumerate(kinds):
    if k == "tcp":
      want = 20 + len(K.ref_tcp_options(vs[i]["options"])); want += -want % 4
      got = (r.info.get("tcp/ipv4.hl") or r.info.get("tcp/ipv6.hl") or [None])[0]
      if got is not None and got != want:
        c.bad("length:tcp.data_offset", "data offset says %s bytes, header with the RFC-encoded options is %d" % (got, want))
      break
    if k in ("gre", "vxlan", "unreach", "time_exceeded"): break
  return c


def gre_flags_issue (o, b, r):
  """RFC 1701: the C, R, K, S bits of the first GRE header of the frame against the optional fields the packed object
  holds (checksum/offset word when C or R; key; sequence number; routing).  Returns a text or None."""
  try: start = len(b) - len(o.pack())          # the bytes from this header to the end of the frame are o.pack()
  except Exception: return None
  if start < 0 or start + 2 > len(b): return None
  flags = (b[start] << 8) | b[start + 1]
  want = ((0x8000 if o.csum is not None else 0) | (0x4000 if o.routing is not None else 0)
          | (0x2000 if o.key is not None else 0) | (0x1000 if o.seq is not None else 0))
  if flags & 0xf000 != want:
    return ("the GRE header was packed with csum=%r routing=%s key=%r seq=%r (presence bits %#06x) but its flags word says %#06x"
            % (o.csum, "present" if o.routing is not None else None, o.key, o.seq, want, flags & 0xf000))
  return None


def first_diff (a, b):
  n = min(len(a), len(b))
  for i in range(n):
    if a[i] != b[i]: return i
  return n


def locate_diff (P, objs, kinds, payload, b, b2):
  """Name the innermost header kind whose bytes (from that header to the end of the frame) differ.
  Tails are aligned at the END of the two frames (the bytes from layer i to the end are
  objs[i].pack()), so that a derived length / checksum field of an outer header that merely follows
  an inner change is not blamed."""
  try:
    tails = [len(o.pack()) for o in objs] + [len(payload or b"")]
  except Exception:
    return "unknown"
  names = list(kinds) + ["payload"]
  where, rel = names[0], first_diff(b, b2)
  for i, L in enumerate(tails):
    t1 = b[len(b) - L:] if L else b""
    t2 = b2[max(0, len(b2) - L):] if L else b""
    if t1 != t2:
      where, rel = names[i], first_diff(t1, t2)
  fixed = getattr(K.KINDS[where]["cls"](P), "MIN_LEN", 4) if where in K.KINDS else 0
  return "%s@%s" % (where, rel if rel < fixed else "var")


# ---------------------------------------------------------------------------------------------
# edit after parse:  bytes -> parse -> assign one field of one header -> pack -> parse
# ---------------------------------------------------------------------------------------------
NOT_FIELDS = frozenset(["prev", "next", "raw", "parsed"])
COMPUTED_LEN_KINDS = frozenset(["eapol", "eap"])      # their length field is supplied by the builder from the inner size


def _flatten (x, c):
  if x is None: return b""
  if isinstance(x, bytes): return x
  c.calls += 1
  return x.pack()


def check_edit (P, st, dev, plen, on="parsed"):
  """One edit case.  The base vector of the stack is assembled, packed and parsed; then the single
  deviation `dev` = (layer, field, alternative) is applied to the PARSED object chain by plain attribute
  assignment (the values come from a 'donor' object assembled from scratch with that deviation, so
  addresses / option lists have the library's own types; attributes the user maintains together with the
  field, e.g. llc.length or ipv4.hl, are assigned with it).  The edited chain is packed and parsed again
  and must read back exactly like the donor packet assembled from scratch:
     edit-lost:<kind>.<attr>       the assigned attribute does not read back with its new value
     edit-corrupts:<kind>.<attr>   another attribute (named in the key; e.g. a stale checksum or length) differs from
                                   the packet assembled from scratch; edit-corrupts:<kind>.<field> with the ASSIGNED
                                   field when a header stops parsing / the payload or uncompared bytes change
     edit-checksum:<where> / edit-length:<where>.<field>   the new bytes do not verify (rfc1071)
  on = 'built': the same assignment is made on the ASSEMBLED objects after they went through pack() once (a packet that
  is sent, modified and sent again) instead of on the parsed chain; keys get the prefix 'encoded-'.
  Returns a Case, or None when the case does not apply (the from-scratch round trip of base or donor is
  itself broken - the main phase reports that - or the deviation does not change the object)."""
  pre = "encoded-" if on == "built" else ""
  li, f, ai = dev
  kinds = [k for k, _ in st["layers"]]
  k_li = kinds[li]
  c = Case()
  for d in ((), (dev,)):
    if not sound(P, st, d, plen): return None
  try:
    top0, objs0, vs0, payload0 = W.build(P, st, (), plen); b0 = top0.pack()
    objsU = W.build(P, st, (), plen)[1]                  # never packed: attribute defaults before pack()
    topd, objsd, vsd, payloadd = W.build(P, st, (dev,), plen); bd = topd.pack()
    objsV = W.build(P, st, (dev,), plen)[1]              # never packed: donor of the new values
    p0 = P.pkt.ethernet(raw=b0)
    pd = P.pkt.ethernet(raw=bd)
    c.calls += 8
  except Exception:
    return None
  if len(bd) != len(b0) and (COMPUTED_LEN_KINDS & set(kinds[:li]) or
                             any(v.get("type") == "len" or v.get("eth_type") == "len" for v in vs0[:li])):
    return None      # an outer length field that the USER supplies would have to be edited as well
  cur = p0
  for i in range(li + 1):
    if not isinstance(cur, K.KINDS[kinds[i]]["cls"](P)) or not getattr(cur, "parsed", False): return None
    if i < li: cur = cur.next
  if on == "built":
    p0, cur = top0, objs0[li]
  du, dv = vars(objsU[li]), vars(objsV[li])
  edited = []
  for a in sorted(dv):
    if a in NOT_FIELDS: continue
    if canon(dv[a]) != canon(du.get(a, MISSING)):
      setattr(cur, a, dv[a])
      edited.append(a)
  if not edited: return None
  label = "%s.%s" % (k_li, f)
  what_on = "parsed packet" if on == "parsed" else "packet that was assembled and packed"
  bad = lambda key, text: c.bad(pre + key, text.replace("<ON>", what_on))
  try:
    c.calls += 1
    be = p0.pack()
  except Exception as e:
    _raised(c, e, "pack() after assigning %s of a %s" % (label, what_on)); return c
  c.frame = be
  try:
    c.calls += 1
    pe = P.pkt.ethernet(raw=be)
  except Exception as e:
    _raised(c, e, "parsing the bytes packed after assigning %s" % label); return c
  ce, cd = pe, pd
  names = []
  lost = corrupt = False
  diffs = []                                  # (layer, kind, attr, from-scratch value, value after the edit)
  for i, k in enumerate(kinds):
    cls = K.KINDS[k]["cls"](P)
    if not isinstance(cd, cls) or not getattr(cd, "parsed", False): break
    if not isinstance(ce, cls) or not getattr(ce, "parsed", False):
      bad("edit-corrupts:" + label, "after assigning %s on the <ON> and packing, the %s header came back as %s "
            "(assembled from scratch with the same value it parses)" % (label, k, describe(ce, P)))
      corrupt = True
      break
    names.append(type(ce).__name__)
    for a in K.KINDS[k]["cmp"]:
      x, z = canon(getattr(cd, a, MISSING)), canon(getattr(ce, a, MISSING))
      if x != z: diffs.append((i, k, a, x, z))
    ce, cd = ce.next, cd.next
  if not corrupt:
    mine = [d for d in diffs if d[0] == li and d[2] in edited]
    for i, k, a, x, z in mine:
      # the assigned attribute itself did not survive: everything else that differs follows from that
      bad("edit-lost:%s.%s" % (k, a), "<ON>: assigned %s.%s = %s, packed and parsed again: it reads back as %s"
            % (k, a, short(x, 80), short(z, 80)))
      lost = True
    if not lost and diffs:
      i, k, a, x, z = diffs[0]
      # keyed by the attribute that was damaged (e.g. a checksum / length that was not recomputed), not by the
      # one that was assigned: one stale field gives one key however many edits reveal it
      bad("edit-corrupts:%s.%s" % (k, a), "after assigning %s on the <ON>, %s.%s reads back as %s; the same packet "
            "assembled from scratch gives %s" % (label, k, a, short(z, 80), short(x, 80)))
      corrupt = True
  c.chain = "/".join(names)
  if not (lost or corrupt):
    try:
      if _flatten(ce, c) != _flatten(cd, c):
        bad("edit-corrupts:" + label, "after assigning %s on the <ON> the bytes below the headers changed" % label)
        corrupt = True
    except Exception as e:
      _raised(c, e, "packing the payload after assigning %s" % label); corrupt = True
  if not (lost or corrupt):
    r = R.verify_frame(be)
    for clause, where, field, want, got in r.issues:
      wk = where.rsplit(">", 1)[-1]
      if clause == "checksum":
        bad("edit-checksum:%s" % wk, "after assigning %s on the <ON>, %s %s in the new frame is %#06x, RFC 1071 gives %#06x"
              % (label, where, field, got, want))
      else:
        bad("edit-length:%s.%s" % (wk, field), "after assigning %s on the <ON>, %s %s in the new frame is %s, the raw bytes say %s"
              % (label, where, field, got, want))
    if not c.viols and be != bd:
      bad("edit-corrupts:" + label, "after assigning %s on the <ON> the new frame differs from the one assembled from "
            "scratch with the same values (first difference at offset %d) although every compared field agrees" % (label, first_diff(be, bd)))
  return c


# ---------------------------------------------------------------------------------------------
# edit after parse, sub-objects:  modify ONE attribute of ONE element of a list / dict held by a header
# (RIP entries, DHCP option objects, LLDP TLVs, TCP options, IGMPv3 group records, IPv6 extension headers,
#  ND options, DNS questions / records) IN PLACE on the parsed packet
# ---------------------------------------------------------------------------------------------
NOTHING = object()


def is_addr (v):
  return hasattr(v, "_value") and hasattr(v, "raw") and not hasattr(v, "pack")


def mutate (v, depth=0):
  """Another value of the same type and size (lowest bit of the last / first unit flipped), or NOTHING."""
  if isinstance(v, bool): return not v
  if isinstance(v, int): return v ^ 1
  if isinstance(v, bytes): return (v[:-1] + bytes([v[-1] ^ 1])) if v else NOTHING
  if isinstance(v, str): return (v[:-1] + ("b" if v[-1] != "b" else "a")) if v else NOTHING
  if is_addr(v):
    raw = v.raw[:-1] + bytes([v.raw[-1] ^ 1])
    return type(v)(raw, raw=True) if type(v).__name__ == "IPAddr6" else type(v)(raw)
  if isinstance(v, (list, tuple)) and v and depth < 3:
    m = mutate(v[-1], depth + 1)
    if m is NOTHING: return NOTHING
    return type(v)(list(v[:-1]) + [m])
  return NOTHING


def sub_objects (layer):
  """(attribute, key, element) for every object held in a list / tuple / dict attribute of a header."""
  for a, v in sorted(vars(layer).items()):
    if a in NOT_FIELDS: continue
    if isinstance(v, dict): items = sorted(v.items(), key=lambda kv: repr(kv[0]))
    elif isinstance(v, (list, tuple)): items = list(enumerate(v))
    else: continue
    for k, e in items:
      if hasattr(e, "__dict__") and not is_addr(e) and not isinstance(e, type):
        yield a, k, e


def _chain_layer (P, st, frame, li):
  """Parse frame and return (outermost, header number li) or (outermost, None)."""
  p = P.pkt.ethernet(raw=frame)
  cur = p
  for i, (k, _) in enumerate(st["layers"][:li + 1]):
    if not isinstance(cur, K.KINDS[k]["cls"](P)) or not getattr(cur, "parsed", False): return p, None
    if i < li: cur = cur.next
  return p, cur


def _element (layer, a, k):
  v = getattr(layer, a, None)
  try: return v[k]
  except Exception: return None


def subedit_points (P, st, devs, plen):
  """Every (layer, attribute, key, element class, element attribute) that can be modified on the parsed packet."""
  if check_case(P, st, devs, plen).viols: return []
  b0 = W.build(P, st, devs, plen)[0].pack()
  out = []
  cur = P.pkt.ethernet(raw=b0)
  for li, (k, _) in enumerate(st["layers"]):
    if not isinstance(cur, K.KINDS[k]["cls"](P)): break
    for a, key, e in sub_objects(cur):
      for sa in sorted(vars(e)):
        if sa in NOT_FIELDS: continue
        if mutate(getattr(e, sa)) is not NOTHING:
          out.append((li, a, key, type(e).__name__, sa))
    cur = cur.next
  return out


def check_subedit (P, st, devs, plen, point):
  """One in-place edit of a sub-object.  The same assignment is made (i) on the element of a packet assembled
  from scratch, which gives the expected bytes - the case only applies if those bytes parse back with the new
  value and re-encode to themselves, i.e. the new value is representable - and (ii) on the element of the PARSED
  packet; packing (ii) must give the bytes of (i).
     subedit-lost:<kind>.<attr>[<Class>].<attr>      the new value is not in the re-parsed packet
     subedit-corrupts:<kind>.<attr>[<Class>].<attr>  it is, but the bytes differ from the from-scratch packet
  Returns a Case or None (not applicable)."""
  li, a, key, cname, sa = point
  kind_li = st["layers"][li][0]
  label = "%s.%s[%s].%s" % (kind_li, a, cname, sa)
  c = Case()
  try:
    top0, objs0, _, _ = W.build(P, st, devs, plen); b0 = top0.pack()
    p0, layer0 = _chain_layer(P, st, b0, li)
    c.calls += 3
    if layer0 is None: return None
    e0 = _element(layer0, a, key)
    if e0 is None or type(e0).__name__ != cname or not hasattr(e0, sa): return None
    newv = mutate(getattr(e0, sa))
    if newv is NOTHING: return None
    # (i) from scratch
    topf, objsf, _, _ = W.build(P, st, devs, plen)
    ef = _element(objsf[li], a, key)
    if ef is None or type(ef).__name__ != cname or not hasattr(ef, sa): return None
    setattr(ef, sa, newv)
    bf = topf.pack()
    pf, layerf = _chain_layer(P, st, bf, li)
    c.calls += 4
    if layerf is None: return None
    epf = _element(layerf, a, key)
    if epf is None or canon(getattr(epf, sa, MISSING)) != canon(newv) or pf.pack() != bf or bf == b0: return None
  except Exception:
    return None
  # (ii) in place on the parsed packet
  setattr(e0, sa, newv)
  try:
    c.calls += 1
    be = p0.pack()
  except Exception as e:
    _raised(c, e, "pack() after assigning %s of a parsed packet" % label); return c
  c.frame = be
  if be == bf: return c
  try:
    c.calls += 1
    pe, layere = _chain_layer(P, st, be, li)
  except Exception as e:
    _raised(c, e, "parsing the bytes packed after assigning %s" % label); return c
  epe = _element(layere, a, key) if layere is not None else None
  got = getattr(epe, sa, MISSING) if epe is not None else MISSING
  if canon(got) != canon(newv):
    c.bad("subedit-lost:" + label, "parsed a packet, set %s.%s[%r].%s = %s in place, packed and parsed again: it reads back as %s%s"
          % (kind_li, a, key, sa, short(canon(newv), 70), short(canon(got), 70), " (the bytes did not change at all)" if be == b0 else ""))
  else:
    off = first_diff(be, bf)
    c.bad("subedit-corrupts:" + label, "after setting %s.%s[%r].%s in place on the parsed packet the new frame differs from the one "
          "assembled from scratch with the same value (%d vs %d bytes, first difference at offset %d: %s vs %s)"
          % (kind_li, a, key, sa, len(be), len(bf), off, be[max(0, off - 2):off + 6].hex(), bf[max(0, off - 2):off + 6].hex()))
  return c


def subedit_sources (st):
  """Base vector plus every single deviation of a list / dict valued field (each option-list / TLV-list shape)."""
  out = [()]
  for li, f, vals in K.domain(st):
    if isinstance(vals[0], (list, dict)):
      out.extend(((li, f, ai),) for ai in range(1, len(vals)))
  return out


def edit_plens (st, quick):
  plens = st["plens"]
  pick = [n for n in ((18,) if quick else (0, 1, 18)) if n in plens]
  return pick or list(plens[:1])


# ---------------------------------------------------------------------------------------------
# shared by the phases below: assemble the outer part of a stack around a given payload (object or bytes)
# ---------------------------------------------------------------------------------------------
ATTACH_FORMS = ("attr", "method", "ctor")


def wrap (P, st, vs, i, sub, form, nbytes):
  """Assemble layers[:i] of the stack (values vs) around `sub`, a header object or bytes, which becomes the payload of
  layer i-1.  form: how `sub` is handed to its container -
     attr    container.payload = sub            (what the builder table does)
     method  container.set_payload(sub)
     ctor    Class(payload=sub) followed by plain attribute assignments of the other fields
  (for method / ctor the container is first made around `nbytes` placeholder bytes, so that a length the USER supplies -
  802.3 length, EAPOL/EAP length - is the right one).  Returns (outermost, [objects of layers[:i]])."""
  layers = st["layers"]
  mk = K.KINDS[layers[i - 1][0]]["make"]
  if form == "attr":
    c = mk(P, vs[i - 1], sub)
  else:
    c = mk(P, vs[i - 1], b"\x00" * nbytes)
    if form == "method":
      c.set_payload(sub)
    else:
      c2 = type(c)(payload=sub)
      for a, v in vars(c).items():
        if a not in ("next", "prev"): setattr(c2, a, v)
      c = c2
  objs = [c]
  inner = c
  for j in range(i - 2, -1, -1):
    inner = K.KINDS[layers[j][0]]["make"](P, vs[j], inner)
    objs.append(inner)
  objs.reverse()
  return inner, objs


def walk_to (P, st, p, i):
  """Header number i of the parsed chain p, or None if the chain is not the stack's down to there."""
  cur = p
  for j, (k, _) in enumerate(st["layers"][:i + 1]):
    if not isinstance(cur, K.KINDS[k]["cls"](P)) or not getattr(cur, "parsed", False): return None
    if j < i: cur = cur.next
  return cur


_OK = {}
def sound (P, st, devs, plen):
  """The from-scratch round trip of this case holds (memo per process): the phases below judge histories against it."""
  key = (st["name"], devs, plen)
  if key not in _OK:
    if len(_OK) > 20000: _OK.clear()
    _OK[key] = not check_case(P, st, devs, plen).viols
  return _OK[key]


def frame_issues (c, b, prefix, label, below=None):
  """Length / checksum fields of frame b against rfc1071; keys <prefix>checksum:<where>, <prefix>length:<where>.<field>.
  below: only headers that start before this offset are judged."""
  r = R.verify_frame(b)
  starts = {}
  for n, s0, e0 in r.spans: starts.setdefault(n, s0)
  for clause, where, field, want, got in r.issues:
    if below is not None and starts.get(where, 0) >= below: continue
    wk = where.rsplit(">", 1)[-1]
    if clause == "checksum":
      c.bad("%schecksum:%s" % (prefix, wk), "%s: %s %s in the frame is %#06x, RFC 1071 over the raw bytes gives %#06x" % (label, where, field, got, want))
    else:
      c.bad("%slength:%s.%s" % (prefix, wk, field), "%s: %s %s in the frame is %s, the raw bytes say %s" % (label, where, field, got, want))
  return r


# ---------------------------------------------------------------------------------------------
# header objects that are used again:  a header (with everything below it) that already has a container is handed to
# another container
# ---------------------------------------------------------------------------------------------
REUSE_SOURCES = ("attached", "packed", "parsed")


def tail_sig (st, i):
  return repr((st["layers"][i:], st["payload"]))


def same_tails (st, i):
  """[(stack name, j)]: headers [j:] of that stack are the same kinds with the same pinned domains as headers [i:] of st."""
  sig = tail_sig(st, i)
  n = len(st["layers"]) - i
  out = []
  for name in K.ORDER:
    s2 = K.STACKS[name]
    j = len(s2["layers"]) - n
    if j >= 1 and name != st["name"] and tail_sig(s2, j) == sig: out.append((name, j))
  return out


def check_reuse (P, st, i, old, new, source, form, plen, src=None, j=None):
  """One history of a header object that is used twice.  The stack is assembled with the deviations `old` (all of them in
  layers above i); header i - with everything below it - is then taken
     attached  from that packet as assembled (it has a container, nothing was packed yet)
     packed    from that packet after it was packed once (the same datagram sent a second time, elsewhere)
     parsed    from the result of parsing that packet's bytes (forwarding / rewriting what was received)
  and handed (see wrap() for the three forms) to a freshly made container with the values `new`; the new packet is packed.
  With src / j the header is header j of ANOTHER stack whose headers [j:] are the same as [i:] of this one (an 802.1Q tag pushed
  onto a received frame, a TCP segment moved from IPv4 to IPv6, a received datagram quoted in an ICMP error, ...).
  It must be byte for byte the packet assembled from scratch with the values `new` (whose own round trip the main phase
  checks):
     reuse-checksum:<where> / reuse-length:<where>.<field>   a checksum / length field of the new frame does not verify
     reuse-differs:<kind>@<offset>                           otherwise; <kind> is the innermost header whose bytes differ
  Returns a Case or None (not applicable: a from-scratch round trip involved is itself broken)."""
  kinds = [k for k, _ in st["layers"]]
  st_o = K.STACKS[src] if src else st
  if j is None: j = i
  if not sound(P, st, new, plen) or (source == "parsed" and not sound(P, st_o, old, plen)): return None
  c = Case()
  try:
    top_o, objs_o, _, _ = W.build(P, st_o, old, plen)
    c.calls += 1
    sub = objs_o[j]
    if source != "attached":
      bo = top_o.pack(); c.calls += 1
      if source == "parsed":
        sub = walk_to(P, st_o, P.pkt.ethernet(raw=bo), j); c.calls += 1
        if sub is None: return None
    top_e, objs_e, vs_e, payload = W.build(P, st, new, plen)
    be = top_e.pack()
    nbytes = len(objs_e[i].pack())
    c.calls += 3
  except Exception:
    return None
  label = ("header %d (%s) %s%s, then handed (%s) to a new %s" % (i, kinds[i], {"attached": "taken from an assembled packet", "packed":
           "taken from a packet that was packed", "parsed": "taken from a parsed frame"}[source], " of stack %s" % src if src else "",
           form, kinds[i - 1]))
  try:
    c.calls += 2
    top, _ = wrap(P, st, vs_e, i, sub, form, nbytes)
    b = top.pack()
  except Exception as e:
    _raised(c, e, label); return c
  c.frame = b
  if b == be: return c
  frame_issues(c, b, "reuse-", label)
  if not c.viols:
    c.bad("reuse-differs:" + locate_diff(P, objs_e, kinds, payload, be, b),
          "%s: the new frame differs from the one assembled from scratch with the same values (%d vs %d bytes, first difference "
          "at offset %d)" % (label, len(b), len(be), first_diff(b, be)))
  return c


def reuse_cases (st, quick):
  """(i, src, j, old, new, source, form): every header i >= 1 of the stack x every single deviation of a header above it (quick: of
  its direct container) as the difference between the old and the new container, in both directions, plus 'no difference',
  plus every other stack that has the same headers from some j on as the place the header comes from (base vectors)
  x source x form."""
  out = []
  devs = K.deviations(st)
  for i in range(1, len(st["layers"])):
    pairs = [(None, None, (), ())]
    for d in devs:
      if d[0] >= i or (quick and d[0] != i - 1): continue
      pairs.append((None, None, (d,), ())); pairs.append((None, None, (), (d,)))
    pairs.extend((name, j, (), ()) for name, j in same_tails(st, i))
    for src, j, old, new in pairs:
      for source in REUSE_SOURCES:
        for form in ATTACH_FORMS:
          out.append((i, src, j, old, new, source, form))
  return out


# ---------------------------------------------------------------------------------------------
# bytes under a demultiplexing header:  a container whose type / protocol / port field selects a parser, carrying
# bytes which that parser cannot (completely) decode
# ---------------------------------------------------------------------------------------------
UNDER_CONTENTS = ("prefix", "pattern", "zeros", "ones", "extended")
UNDER_GARBAGE_MAX = 64
# Fixed part of every header kind in bytes, from the RFCs / IEEE standards (independent of the library): fewer bytes cannot
# hold that header, so whatever a parser makes of them must serialise back to exactly those bytes.
FIXED_LEN = dict(eth=14, vlan=4, llc=3, snap=8, arp=28, mpls=4, eapol=4, eap=4, lldp=2, ipv4=20, udp=8, tcp=20, icmp=4, echo=4,
                 unreach=4, time_exceeded=4, igmp=8, igmp3=8, gre=4, vxlan=8, dhcp=240, dns=12, rip=4, ipv6=40, icmpv6=4, echo6=4,
                 unreach6=4, toobig6=4, timex6=4, nd_rs=4, nd_ra=12, nd_ns=20, nd_na=20, ipv6nn=40)
# Headers whose payload is DEFINED as a possibly truncated datagram (RFC 792: "Internet Header + 64 bits of Original Data
# Datagram"; RFC 4443: "as much of invoking packet as possible"): a truncated inner packet is valid content there.
QUOTERS = frozenset(["unreach", "time_exceeded", "unreach6", "toobig6", "timex6"])


# Header kinds that say themselves where they end (total / body length field, End TLV, end option): bytes after that point are
# padding outside the header, which a parser may drop.  Every other kind extends to the end of what its container announces.
DELIMITED = frozenset(["ipv4", "ipv6", "ipv6nn", "udp", "eapol", "eap", "lldp", "dhcp"])
UNDER_EXTRA = (1, 2, 17)


def under_data (inner, content, t):
  if content == "prefix": return inner[:t]
  if content == "extended": return inner + K.pattern(t, 3)
  if content == "pattern": return K.pattern(t)
  return (b"\x00" if content == "zeros" else b"\xff") * t


def check_under (P, st, i, devs, content, t, plen):
  """Layers [:i] of the stack - their selector fields say 'header kind i follows' - assembled around plain bytes:
  the first t bytes of what the library itself emits for layers [i:] (content 'prefix': a truncated but otherwise valid
  inner packet, e.g. the 'IP header + 8 bytes' an ICMP error quotes, or a runt TCP segment) or t garbage bytes.
  pack, parse, pack again:
     chain:<kind> / field:<kind>.<attr>     the headers that were assembled do not read back
     length: / checksum:                    their length / checksum fields do not verify
     payload:<container>><selected>         the bytes handed in as payload do not come back
     repack:<container>><selected>          pack(parse(b)) != b
  The last two are judged (i) when there are fewer bytes than the fixed part of the announced header (FIXED_LEN: it cannot be
  there), (ii) when the selected parser did not decode the bytes (whatever it leaves must then serialise to the bytes it
  was given), (iii) when it did, the container is an ICMP error header (QUOTERS) and the bytes are the beginning of a valid
  packet - that is what such a header carries.  Otherwise the parser decoded bytes whose own length / checksum fields may be
  inconsistent with the truncation, which the library recomputes by design: the case is only counted.  If a header above the
  container is itself only reachable through a quoted, truncated datagram and does not decode, the undecoded remainder takes
  the place of the payload.  Returns (Case, judged)."""
  kinds = [k for k, _ in st["layers"]]
  c = Case()
  top_e, objs_e, vs_e, _ = W.build(P, st, devs, plen)
  be = top_e.pack()
  inner = be[len(be) - len(objs_e[i].pack()):]
  data = under_data(inner, content, t)
  c.calls += 3
  ck, ik = kinds[i - 1], kinds[i]
  label = "%s carrying %d bytes (%s) where a %s header is announced" % (ck, len(data), "the beginning of a valid %s packet of %d bytes"
                                                                       % (ik, len(inner)) if content == "prefix" else
                                                                       "a valid %s packet of %d bytes and %d more bytes" % (ik, len(inner), t) if content == "extended" else content, ik)
  try:
    c.calls += 2
    top, objs = wrap(P, st, vs_e, i, data, "attr", len(data))
    b = top.pack()
  except Exception as e:
    _raised(c, e, "assembling / packing " + label); return c, True
  c.frame = b
  try:
    c.calls += 1
    p = P.pkt.ethernet(raw=b)
  except Exception as e:
    _raised(c, e, "parsing " + label); return c, True
  cur = p
  names = []
  for j in range(i):
    k = kinds[j]
    if not isinstance(cur, K.KINDS[k]["cls"](P)) or not getattr(cur, "parsed", False):
      if QUOTERS & set(kinds[:j]):
        # below an ICMP error header the parser need not decode a quote this short: what it left stands for the bytes from here on
        ck, ik, i = kinds[j - 1], k, j
        data = b[len(b) - len(objs[j].pack()):]
        break
      c.bad("chain:%s" % k, "%s: packed a %s header but parsing gave back %s" % (label, k, describe(cur, P)))
      return c, True
    names.append(type(cur).__name__)
    for f in K.KINDS[k]["cmp"]:
      a, z = getattr(objs[j], f, MISSING), getattr(cur, f, MISSING)
      if isinstance(a, bool) and not isinstance(z, str): z = bool(z)
      if k == "gre" and f == "csum" and a is None and z == 0 and getattr(objs[j], "routing", None) is not None: z = None
      ca, cz = canon(a), canon(z)
      if ca != cz:
        c.bad("field:%s.%s%s" % (k, f, elem_label(ca, cz) if f in LABELLED else ""),
              "%s: %s.%s was %s when packed, %s after parsing" % (label, k, f, short(ca, 90), short(cz, 90)))
        return c, True
    cur = cur.next
  c.chain = "/".join(names) + ">" + describe(cur, P)
  decoded = isinstance(cur, K.KINDS[ik]["cls"](P)) and getattr(cur, "parsed", False)
  frame_issues(c, b, "", label, below=len(b) - len(data))
  judged = len(data) < FIXED_LEN[ik] or not decoded or (content == "prefix" and ck in QUOTERS)
  if c.viols: return c, judged
  if not judged:
    # (iv) the parser decoded the announced header: its re-encoding may be normalised, but if it re-encodes to a PROPER PREFIX
    # of the bytes handed in, bytes that the container's length field covers were dropped (unless the header kind marks its own end)
    if ik in DELIMITED: return c, False
    try: rest = _flatten(cur, c)
    except Exception: return c, False
    if len(rest) < len(data) and data.startswith(rest):
      # (the four ND messages share one option parser: one key)
      c.bad("trailing-lost:%s>%s" % (ck, "nd" if ik.startswith("nd_") else ik), "%s: the parser decoded the first %d bytes as %s and dropped the %d bytes that follow "
            "(the %s length field covers them): pack(parse(b)) is shorter than b" % (label, len(rest), describe(cur, P), len(data) - len(rest), ck))
      return c, True
    return c, False
  try:
    rest = _flatten(cur, c)
    c.calls += 1
    b2 = p.pack()
  except Exception as e:
    _raised(c, e, "re-serialising " + label); return c, True
  how = "decoded as %s" % describe(cur, P) if decoded else "left as %s" % describe(cur, P)
  if rest != data:
    c.bad("payload:%s>%s" % (ck, ik), "%s: the payload (%s) serialises to %d bytes that differ from the %d bytes handed in (first "
          "difference at offset %d)" % (label, how, len(rest), len(data), first_diff(rest, data)))
  elif b2 != b:
    c.bad("repack:%s>%s" % (ck, ik), "%s: pack(parse(b)) differs from b (%d vs %d bytes, first difference at offset %d of the frame; "
          "the payload starts at %d and was %s)" % (label, len(b2), len(b), first_diff(b, b2), len(b) - len(data), how))
  return c, judged


def under_sources (st, i):
  """Configurations whose layers [i:] are truncated: the base vector, every value of the fields the stack pins on the
  container (its selectors) and its options, every option / entry list shape of header i."""
  out = [()]
  pins = st["layers"][i - 1][1]
  for li, f, vals in K.domain(st):
    if (li == i - 1 and (f in pins or f in ("options", "ext"))) or (li == i and (isinstance(vals[0], (list, dict)) or f == "options")):
      out.extend(((li, f, ai),) for ai in range(1, len(vals)))
  return out


def under_cases (P, st, quick, plen):
  """(i, devs, content, t)"""
  out = []
  for i in range(1, len(st["layers"])):
    for devs in under_sources(st, i):
      if not sound(P, st, devs, plen): continue
      top, objs, _, _ = W.build(P, st, devs, plen)
      top.pack()
      T = len(objs[i].pack())
      for content in UNDER_CONTENTS:
        if content == "prefix": ts = range(0, T)
        elif content == "extended": ts = UNDER_EXTRA if i == len(st["layers"]) - 1 else ()
        else: ts = range(0, min(T, UNDER_GARBAGE_MAX if quick else 4 * UNDER_GARBAGE_MAX) + 1)
        out.extend((i, devs, content, t) for t in ts)
  return out


# ---------------------------------------------------------------------------------------------
# the payload is replaced on a packet that was already packed / that was parsed
# ---------------------------------------------------------------------------------------------
SWAP_VARIANTS = ("same", "other", "shorter", "longer")


def swap_data (variant, plen):
  if variant == "same": return K.pattern(plen)
  if variant == "other": return K.pattern(plen, 1)
  if variant == "shorter": return K.pattern(max(0, plen - 17))
  return K.pattern(plen + 1, 2)


def check_swap (P, st, devs, plen, variant, on):
  """The packet is assembled and packed; then, on the assembled objects (on = 'built': they went through pack() once) or on the
  result of parsing the bytes (on = 'parsed'), the payload of the innermost header is replaced by other bytes (same bytes again /
  same length other content / shorter / longer) and the packet is packed again.  The result must be the packet assembled from
  scratch around the new payload:
     [encoded-]payload-edit-checksum:<where> / -length:<where>.<field>   a checksum / length of the new frame does not verify
     [encoded-]payload-edit-lost:<kind>                                  the new payload is not what the new frame carries
     [encoded-]payload-edit-corrupts:<kind>.<attr>                       a header field differs from the from-scratch packet
  ('encoded-' for on = 'built').  Returns a Case or None (not applicable)."""
  kinds = [k for k, _ in st["layers"]]
  data = swap_data(variant, plen)
  if len(data) != plen and (COMPUTED_LEN_KINDS & set(kinds) or
                            any(v.get("type") == "len" or v.get("eth_type") == "len" for v in W.values(st, devs))):
    return None        # a length field that the USER supplies would have to be edited as well
  if not sound(P, st, devs, plen): return None
  c = Case()
  pre = "encoded-" if on == "built" else ""
  try:
    top0, objs0, _, _ = W.build(P, st, devs, plen); b0 = top0.pack()
    topd, objsd, _, _ = W.build(P, st, devs, plen)
    objsd[-1].payload = data                       # never packed before: this is the from-scratch packet
    if on == "parsed":
      top = P.pkt.ethernet(raw=b0); c.calls += 1
      holder = walk_to(P, st, top, len(kinds) - 1)
      if holder is None: return None
      # gre.csum is documented as: True = compute when packing, a number = emit that number.  A parsed header holds the
      # number, so the from-scratch packet with the parsed object's values is the one that is given that number.
      cur = top
      for j, k in enumerate(kinds):
        if k == "gre":
          if isinstance(cur.csum, int) and not isinstance(cur.csum, bool): objsd[j].csum = cur.csum
          objsd[j].compute_csum = objsd[j].skip_csum = False      # packing switches are not on the wire: a parsed header has none
        cur = cur.next
    else:
      top, holder = top0, objs0[-1]
    bd = topd.pack()
    pd = P.pkt.ethernet(raw=bd)
    c.calls += 5
    if pd.pack() != bd or walk_to(P, st, pd, len(kinds) - 1) is None: return None
  except Exception:
    return None
  label = "payload of the %s %s packet replaced by %d bytes (%s)" % ("packed" if on == "built" else "parsed", kinds[-1], len(data), variant)
  try:
    c.calls += 1
    holder.payload = data
    be = top.pack()
  except Exception as e:
    _raised(c, e, label); return c
  c.frame = be
  if be == bd: return c
  frame_issues(c, be, pre + "payload-edit-", label)
  if c.viols: return c
  try:
    c.calls += 1
    pe = P.pkt.ethernet(raw=be)
  except Exception as e:
    _raised(c, e, "parsing after: " + label); return c
  ce, cd = pe, pd
  for i, k in enumerate(kinds):
    if not isinstance(ce, K.KINDS[k]["cls"](P)) or not getattr(ce, "parsed", False):
      c.bad("%spayload-edit-corrupts:%s" % (pre, k), "%s: the %s header came back as %s" % (label, k, describe(ce, P))); return c
    for a in K.KINDS[k]["cmp"]:
      x, z = canon(getattr(cd, a, MISSING)), canon(getattr(ce, a, MISSING))
      if x != z:
        c.bad("%spayload-edit-corrupts:%s.%s" % (pre, k, a), "%s: %s.%s reads back as %s; the packet assembled from scratch gives %s"
              % (label, k, a, short(z, 80), short(x, 80)))
        return c
    ce, cd = ce.next, cd.next
  try:
    if _flatten(ce, c) != data:
      c.bad("%spayload-edit-lost:%s" % (pre, kinds[-1]), "%s: the new frame carries %d payload bytes that are not the new payload"
            % (label, len(_flatten(ce, c))))
      return c
  except Exception as e:
    _raised(c, e, "packing the payload after: " + label); return c
  c.bad("%spayload-edit-corrupts:%s@bytes" % (pre, locate_diff(P, objsd, kinds, data, bd, be).split("@")[0]),
        "%s: the new frame differs from the one assembled from scratch (first difference at offset %d) although every compared field agrees"
        % (label, first_diff(be, bd)))
  return c


# ---------------------------------------------------------------------------------------------
# corpus frames (assembled WITHOUT the library):  parse -> pack gives the frame back
# ---------------------------------------------------------------------------------------------

def check_corpus_frame (P, name, frame):
  """pack(parse(frame)) == frame for every corpus frame (frames of a family listed in
  pktcorpus.CORPUS_NOT_CANONICAL only have to re-encode to a fixpoint: parsing and packing the re-encoded
  bytes once more changes nothing).  Returns (Case, text)."""
  c = Case()
  try:
    c.calls += 2
    p = P.pkt.ethernet(raw=frame)
    b = p.pack()
  except Exception as e:
    _raised(c, e, "parse + pack of corpus frame %s" % name); return c
  c.frame = b
  loose = K.CORPUS_NOT_CANONICAL.get(name)
  ref = frame
  if loose:
    try:
      c.calls += 2
      ref = b
      b = P.pkt.ethernet(raw=ref).pack()
    except Exception as e:
      _raised(c, e, "parse + pack of the re-encoded corpus frame %s" % name); return c
  if b != ref:
    off = first_diff(b, ref)
    loc = R.verify_frame(ref).locate(min(off, len(ref) - 1))
    where = loc[0].rsplit(">", 1)[-1] if loc else "payload"
    c.bad("corpus-repack:%s" % where,
          "corpus frame %s (%s): %s differs from it (%d vs %d bytes, first difference at offset %d, inside the %s header): %s -> %s"
          % (name, K.CORPUS_PATHS[name], "a second parse+pack of the re-encoding" if loose else "pack(parse(frame))",
             len(b), len(ref), off, where, ref[max(0, off - 4):off + 8].hex(), b[max(0, off - 4):off + 8].hex()))
  return c


def run_corpus (rep, P):
  for name, frame in K.corpus().items():
    try:
      c = check_corpus_frame(P, name, frame)
    except Exception:
      rep.error("corpus frame %s: %s" % (name, traceback.format_exc(limit=4))); continue
    rep.evaluations += 1
    rep.transitions += c.calls
    rep.outcome(("corpus", name, [k for k, _ in c.viols], digest(c.frame) if c.frame is not None else None))
    for k, what in c.viols:
      rep.violation("%s:%s" % (PID, k), what, dict(kind="corpus", frame=name))


def _corpus_worker (_):
  rep = Report(PID, "exploration")
  run_corpus(rep, K.pox_namespace())
  return rep


# ---------------------------------------------------------------------------------------------
# history independence of the parser:  parse A, then parse B  ==  parse B in a fresh process
# ---------------------------------------------------------------------------------------------
_ISO = {}      # corpus frame name -> summary of parsing it first thing in a fresh process (set before the fork)


def parse_summary (P, frame):
  """Everything observable about parsing one frame: per header of the chain its class, parsed flag and
  every instance attribute (canonical form), the unparsed remainder, and the re-encoded bytes."""
  out = []
  try:
    p = P.pkt.ethernet(raw=frame)
  except Exception as e:
    return [("parse-raises", exc_site(e) or type(e).__name__)]
  cur, depth = p, 0
  while cur is not None and depth < 24:
    if isinstance(cur, bytes):
      out.append(("bytes", cur)); break
    if not isinstance(cur, P.packet_base):
      out.append(("object", type(cur).__name__)); break
    attrs = tuple((k, canon(v)) for k, v in sorted(vars(cur).items()) if k not in NOT_FIELDS)
    out.append((type(cur).__name__, bool(getattr(cur, "parsed", False)), attrs))
    cur = cur.next; depth += 1
  try:
    out.append(("repack", p.pack()))
  except Exception as e:
    out.append(("repack-raises", exc_site(e) or type(e).__name__))
  return out


def drill (x, z, depth=0):
  """Narrow two differing canonical values down to the first differing nested element (for the message)."""
  if isinstance(x, tuple) and isinstance(z, tuple) and depth < 8:
    for i in range(min(len(x), len(z))):
      if x[i] != z[i]: return drill(x[i], z[i], depth + 1)
  return x, z


def summary_diff (iso, got):
  """(key suffix, text) naming the first observable difference between two parse summaries."""
  for i in range(max(len(iso), len(got))):
    x = iso[i] if i < len(iso) else None
    z = got[i] if i < len(got) else None
    if x == z: continue
    if x is None or z is None or x[0] != z[0]:
      return "chain", "element %d of the parsed chain is %s instead of %s" % (i, z and z[0], x and x[0])
    if x[0] in ("repack", "bytes", "parse-raises", "repack-raises", "object"):
      return x[0], "%s: %s instead of %s" % (x[0], short(z[1], 70), short(x[1], 70))
    if x[1] != z[1]:
      return "%s.parsed" % x[0], "%s.parsed is %s instead of %s" % (x[0], z[1], x[1])
    dx, dz = dict(x[2]), dict(z[2])
    for a in sorted(set(dx) | set(dz)):
      if dx.get(a, MISSING) != dz.get(a, MISSING):
        vx, vz = drill(dx.get(a, MISSING), dz.get(a, MISSING))
        return "%s.%s" % (x[0], a), "%s.%s has %s where the isolated parse has %s" % (x[0], a, short(vz, 110), short(vx, 110))
  return "other", "summaries differ"


def _iso_task (name):
  """Runs first thing in a fresh process."""
  P = K.pox_namespace()
  return name, parse_summary(P, K.corpus()[name])


def history_sequence (a):
  """The parse history explored for predecessor A: A, B1, A, B2, ... so that every frame B of the corpus is
  parsed directly after A (all ordered pairs, A == B included)."""
  return [(a, b) for b in K.corpus()]


def _after_task (arg):
  """In a fresh process: for every corpus frame B parse A then B; B must look exactly as in isolation.
  arg = (A, stop) - stop (a frame name) ends the sequence after that B (replay)."""
  a, stop = arg
  P = K.pox_namespace()
  C = K.corpus()
  rep = Report(PID, "exploration")
  text = []
  for _, b in history_sequence(a):
    parse_summary(P, C[a])
    got = parse_summary(P, C[b])
    rep.evaluations += 1
    rep.transitions += 4
    bad = got != _ISO[b]
    rep.outcome(("history", b, digest(repr(got)), bad))
    if bad:
      where, what = summary_diff(_ISO[b], got)
      rep.violation("%s:history:%s" % (PID, where),
                    "parsing corpus frame %s after %s (and the frames before it in the sequence) differs from parsing it in a "
                    "fresh process: %s" % (b, a, what), dict(kind="history", a=a, b=b))
      text.append("after %s, %s: %s" % (a, b, what))
    if b == stop: break
  return rep, text


def fresh_pool (workers):
  """Every task runs in its own process forked from this (pristine: it never parses) process."""
  import multiprocessing
  return multiprocessing.get_context("fork").Pool(max(1, workers), maxtasksperchild=1)


def run_history (rep, cfg):
  import random
  names = list(K.corpus())
  order = list(names)
  if cfg.seed: random.Random(cfg.seed).shuffle(order)
  pool = fresh_pool(cfg.workers)
  try:
    for name, summ in pool.imap_unordered(_iso_task, order, 1):
      _ISO[name] = summ
    pool.close(); pool.join()
  finally:
    pool.terminate()
  pool = fresh_pool(cfg.workers)       # forked after _ISO is filled
  try:
    for r, _ in pool.imap_unordered(_after_task, [(a, None) for a in order], 1):
      rep.merge(r)
    pool.close(); pool.join()
  finally:
    pool.terminate()
  rep.extra["history_pairs"] = len(names) * len(names)


# ---------------------------------------------------------------------------------------------
# enumeration
# ---------------------------------------------------------------------------------------------

def plan (st, quick):
  """Payload-length sets of a stack for the tier: (base, 1 deviation, 2 deviations, 3 deviations)."""
  plens = st["plens"]
  full = len(plens) >= 1501
  if not quick and plens and plens[-1] == 1500:
    plens = K.FULL
  dp = [n for n in (0, 1, 18) if n in plens] or list(plens[:2])
  if quick:
    dp1 = dp + ([1499, 1500] if full else [])
  else:
    dp1 = list(plens) if full else sorted(set(dp) | set(st["plens"]))
  dp2 = dp[:2] if quick else dp[:3]
  dp3 = [] if quick else dp[:2]
  if st.get("zero_csum"):
    # payload -1: two bytes chosen by the reference so that the UDP checksum computes to 0x0000
    plens = list(plens) + [-1]; dp1 = list(dp1) + [-1]
  return plens, dp1, dp2, dp3


def cases_for (st, quick, part):
  """Deterministic list of (devs, plen) of one stack.  part -1: the base vector x the stack's payload
  range; part i >= 0: every case whose FIRST deviation is deviation number i of the stack -
     quick:    1 deviation x {0,1,18}(+1499,1500 on full-range stacks); 2 deviations x {0,1}
     thorough: base x 0..1500 wherever the stack range reaches 1500; 1 deviation x the whole stack range;
               2 deviations x {0,1,18}; 3 deviations x {0,1} on stacks with <= 100 single deviations"""
  plens, dp1, dp2, dp3 = plan(st, quick)
  if part < 0:
    return [((), n) for n in plens]
  devs = K.deviations(st)
  nd = len(devs)
  i = part
  out = [((devs[i],), n) for n in dp1]
  for j in range(i + 1, nd):
    if devs[i][:2] == devs[j][:2]: continue
    for n in dp2:
      out.append(((devs[i], devs[j]), n))
    if dp3 and nd <= 100:
      for k in range(j + 1, nd):
        if devs[k][:2] == devs[j][:2] or devs[k][:2] == devs[i][:2]: continue
        for n in dp3:
          out.append(((devs[i], devs[j], devs[k]), n))
  return out


def estimate (st, quick, part):
  plens, dp1, dp2, dp3 = plan(st, quick)
  if part < 0: return len(plens)
  nd = len(K.deviations(st))
  m = nd - part - 1
  n = len(dp1) + m * len(dp2)
  if dp3 and nd <= 100: n += (m * (m - 1) // 2) * len(dp3)
  return n


def _worker (batch):
  rep = Report(PID, "exploration")
  for name, part in batch:
    _run_part(rep, name, part)
  return rep


def _run_edits (rep, name):
  P = K.pox_namespace()
  st = K.STACKS[name]
  for plen in edit_plens(st, _worker.quick):
   for on in ("parsed", "built"):
    for dev in K.deviations(st):
      try:
        c = check_edit(P, st, dev, plen, on)
      except Exception:
        rep.error("edit case %s %r plen=%d on=%s: %s" % (name, dev, plen, on, traceback.format_exc(limit=4)))
        continue
      if c is None:
        rep.extra["edit_cases_not_applicable"] = rep.extra.get("edit_cases_not_applicable", 0) + 1
        continue
      rep.evaluations += 1
      rep.transitions += c.calls
      rep.extra["edit_cases"] = rep.extra.get("edit_cases", 0) + 1
      keys = sorted(set(k for k, _ in c.viols))
      rep.outcome(("edit", on, keys, digest(c.frame) if c.frame is not None else None, c.chain))
      seen = set()
      for k, what in c.viols:
        if k in seen: continue
        seen.add(k)
        rep.violation("%s:%s" % (PID, k), "[%s] %s" % (name, what),
                      dict(kind="edit", stack=name, dev=list(dev), plen=plen, on=on))


def _tally (rep, name, phase, c, replay_data, extra_outcome=()):
  rep.evaluations += 1
  rep.transitions += c.calls
  rep.extra[phase + "_cases"] = rep.extra.get(phase + "_cases", 0) + 1
  keys = sorted(set(k for k, _ in c.viols))
  rep.outcome((phase, keys, digest(c.frame) if c.frame is not None else None, c.chain) + tuple(extra_outcome))
  seen = set()
  for k, what in c.viols:
    if k in seen: continue
    seen.add(k)
    rep.violation("%s:%s" % (PID, k), "[%s] %s" % (name, what), dict(replay_data, stack=name))


def _na (rep, phase):
  rep.extra[phase + "_cases_not_applicable"] = rep.extra.get(phase + "_cases_not_applicable", 0) + 1


def _run_reuse (rep, name):
  P = K.pox_namespace()
  st = K.STACKS[name]
  for plen in edit_plens(st, _worker.quick):
   for i, src, j, old, new, source, form in reuse_cases(st, _worker.quick):
    try:
      c = check_reuse(P, st, i, old, new, source, form, plen, src, j)
    except Exception:
      rep.error("re-use case %s %r: %s" % (name, (i, src, j, old, new, source, form), traceback.format_exc(limit=4))); continue
    if c is None: _na(rep, "reuse"); continue
    _tally(rep, name, "reuse", c, dict(kind="reuse", i=i, src=src, j=j, old=[list(d) for d in old], new=[list(d) for d in new],
                                       source=source, form=form, plen=plen), (source, form, src))


def _run_under (rep, name):
  P = K.pox_namespace()
  st = K.STACKS[name]
  for plen in edit_plens(st, _worker.quick):
   try:
     cases = under_cases(P, st, _worker.quick, plen)
   except Exception:
     rep.error("undecodable-payload cases of %s: %s" % (name, traceback.format_exc(limit=4))); return
   for i, devs, content, t in cases:
    try:
      c, judged = check_under(P, st, i, devs, content, t, plen)
    except Exception:
      rep.error("undecodable-payload case %s %r: %s" % (name, (i, devs, content, t), traceback.format_exc(limit=4))); continue
    if not judged: rep.extra["under_cases_normalised_by_design"] = rep.extra.get("under_cases_normalised_by_design", 0) + 1
    _tally(rep, name, "under", c, dict(kind="under", i=i, devs=[list(d) for d in devs], content=content, t=t, plen=plen), (judged,))


def _run_swap (rep, name):
  P = K.pox_namespace()
  st = K.STACKS[name]
  if not st["payload"]: return
  for plen in edit_plens(st, _worker.quick):
   for devs in [()] + [(d,) for d in K.deviations(st)]:
    for variant in SWAP_VARIANTS:
      for on in ("built", "parsed"):
        try:
          c = check_swap(P, st, devs, plen, variant, on)
        except Exception:
          rep.error("payload replacement %s %r: %s" % (name, (devs, variant, on), traceback.format_exc(limit=4))); continue
        if c is None: _na(rep, "swap"); continue
        _tally(rep, name, "swap", c, dict(kind="swap", devs=[list(d) for d in devs], variant=variant, on=on, plen=plen), (variant, on))


def wide_layers (st, quick):
  """Layers whose fields get the wide lattice: thorough - all; quick - the two innermost headers of the stacks without an
  802.1Q tag (every header kind is innermost or next to innermost in some stack; the outer ones repeat)."""
  n = len(st["layers"])
  if not quick: return set(range(n))
  if st["name"].startswith("vlan:"): return set()
  return set(range(max(0, n - 2), n))


def _run_wide (rep, name):
  """Wire-range lattice phase: every field of every header x the whole boundary lattice of its wire range (pktwide.py), every
  address / number inside list elements likewise, as single deviations of the base vector; main-phase oracle.  Thorough: also
  assigned to the parsed packet (edit phase oracle)."""
  P = K.pox_namespace()
  st = K.STACKS[name]
  quick = _worker.quick
  devs = W.wide_deviations(st, wide_layers(st, quick))
  for plen in edit_plens(st, quick):
    for dev in devs:
      try:
        c = check_case(P, st, (dev,), plen)
      except Exception:
        rep.error("wide case %s %r plen=%d: %s" % (name, dev, plen, traceback.format_exc(limit=4))); continue
      _tally(rep, name, "wide", c, dict(kind="packet", devs=[list(dev)], plen=plen))
      if quick or c.viols or dev[1] in LABELLED or dev[1] in ("records",): continue
      if plen != edit_plens(st, True)[0] or name.startswith("vlan:"): continue
      try:
        c = check_edit(P, st, dev, plen, "parsed")
      except Exception:
        rep.error("wide edit case %s %r plen=%d: %s" % (name, dev, plen, traceback.format_exc(limit=4))); continue
      if c is None: _na(rep, "wide_edit"); continue
      _tally(rep, name, "wide_edit", c, dict(kind="edit", dev=list(dev), plen=plen, on="parsed"))


def _run_subedits (rep, name):
  P = K.pox_namespace()
  st = K.STACKS[name]
  plen = edit_plens(st, True)[0]
  for devs in subedit_sources(st):
    try:
      points = subedit_points(P, st, devs, plen)
    except Exception:
      rep.error("sub-object edit points %s %r: %s" % (name, devs, traceback.format_exc(limit=4))); continue
    for point in points:
      try:
        c = check_subedit(P, st, devs, plen, point)
      except Exception:
        rep.error("sub-object edit %s %r %r: %s" % (name, devs, point, traceback.format_exc(limit=4))); continue
      if c is None:
        rep.extra["subedit_cases_not_applicable"] = rep.extra.get("subedit_cases_not_applicable", 0) + 1
        continue
      rep.evaluations += 1
      rep.transitions += c.calls
      rep.extra["subedit_cases"] = rep.extra.get("subedit_cases", 0) + 1
      rep.outcome(("subedit", [k for k, _ in c.viols], digest(c.frame) if c.frame is not None else None))
      for k, what in c.viols:
        rep.violation("%s:%s" % (PID, k), "[%s] %s" % (name, what),
                      dict(kind="subedit", stack=name, devs=[list(d) for d in devs], plen=plen, point=list(point)))


def _run_part (rep, name, part):
  if part == "edit":
    return _run_edits(rep, name)
  if part == "subedit":
    return _run_subedits(rep, name)
  if part == "reuse":
    return _run_reuse(rep, name)
  if part == "under":
    return _run_under(rep, name)
  if part == "swap":
    return _run_swap(rep, name)
  if part == "wide":
    return _run_wide(rep, name)
  P = K.pox_namespace()
  st = K.STACKS[name]
  cases = cases_for(st, _worker.quick, part)
  for devs, plen in cases:
    try:
      c = check_case(P, st, devs, plen)
    except Exception:
      rep.error("case %s %r plen=%d: %s" % (name, devs, plen, traceback.format_exc(limit=4)))
      continue
    rep.evaluations += 1
    rep.transitions += c.calls
    keys = sorted(set(k for k, _ in c.viols))
    rep.outcome((keys, digest(c.frame) if c.frame is not None else None, c.chain))
    seen = set()
    for k, what in c.viols:
      if k in seen: continue
      seen.add(k)
      rep.violation("%s:%s" % (PID, k), "[%s] %s" % (name, what),
                    dict(kind="packet", stack=name, devs=[list(d) for d in devs], plen=plen))
    if not c.viols and not devs and plen == 18:
      rep.sample(dict(stack=name, plen=plen, chain=c.chain, frame=c.frame[:96]))
_worker.quick = True


CSUM_PATTERNS = ["zeros", "ones", "ramp", "carry", "fold-twice", "fold-twice-le", "high-last"]

def csum_buffer (n, pat):
  if pat == "zeros": return b"\x00" * n
  if pat == "ones": return b"\xff" * n
  if pat == "ramp": return K.pattern(n)
  if pat == "carry": return (b"\xff\xfe\x00\x02" * (n // 4 + 1))[:n]
  if pat == "fold-twice-le": return (b"\xff\xff\xff\xff\x01\x00" + b"\x00" * n)[:n]   # same, for little-endian word loads
  if pat == "fold-twice": return (b"\xff\xff\xff\xff\x00\x01" + b"\x00" * n)[:n]      # 0x1ffff: the folded sum carries again
  return b"\x00" * (n - 1) + b"\x80" if n else b""


def check_csum_fn (P, n, pat, skip):
  """packet_utils.checksum on a bare buffer vs RFC 1071.  Returns [(key, what)]."""
  data = csum_buffer(n, pat)
  want = R.csum(data) if skip is None else R.csum_skipping(data, skip)
  try:
    got = P.utils.checksum(data, 0, skip)
  except Exception as e:
    site = exc_site(e)
    if site is None: raise
    return [("raises:" + site, "checksum(<%d bytes %s>, 0, %r) raised %s: %s" % (n, pat, skip, type(e).__name__, e))]
  if got != want:
    cls = ("odd" if n & 1 else "even") + ("-skip_word" if skip is not None else "")
    return [("checksum-fn:" + cls, "checksum(<%d bytes %s>, 0, %r) = %#06x, RFC 1071 gives %#06x" % (n, pat, skip, got, want))]
  return []


def _csum_worker (item):
  lo, hi = item
  P = K.pox_namespace()
  rep = Report(PID, "exploration")
  for n in range(lo, hi):
    for pat in CSUM_PATTERNS:
      skips = [None] + sorted(set(s for s in (0, 1, n // 2 - 1) if 0 <= s < n // 2))
      for skip in skips:
        v = check_csum_fn(P, n, pat, skip)
        rep.evaluations += 1; rep.transitions += 1
        rep.outcome(("csum", n & 1, pat, skip is not None, [k for k, _ in v], R.csum(csum_buffer(n, pat))))
        for k, what in v:
          rep.violation("%s:%s" % (PID, k), what, dict(kind="csum", n=n, pat=pat, skip=skip))
  return rep


def self_check (rep):
  """The reference must reproduce published vectors, and every corpus frame must verify."""
  if R.ones_sum(bytes.fromhex("0001f203f4f5f6f7")) != 0xddf2 or R.csum(bytes.fromhex("0001f203f4f5f6f7")) != 0x220d:
    rep.error("rfc1071 reference does not reproduce the RFC 1071 section 3 example")
  hdr = bytes.fromhex("450000730000400040110000c0a80001c0a800c7")
  if R.csum(hdr) != 0xb861:
    rep.error("rfc1071 reference does not reproduce the textbook IPv4 header checksum b861")
  if R.csum(b"\x01") != 0xfeff or R.csum(b"") != 0xffff:
    rep.error("rfc1071 reference: odd-length padding is wrong")
  n = 0
  for name, frame in K.corpus().items():
    r = R.verify_frame(frame)
    if r.issues or r.extra or r.malformed:
      rep.error("corpus frame %s does not verify: %r %r %r" % (name, r.issues, r.extra, r.malformed))
    n += 1
  rep.extra["corpus_frames_verified"] = n


def run (cfg):
  rep = Report(PID, "exploration")
  quick = cfg.quick
  _worker.quick = quick
  K.pox_namespace()
  self_check(rep)
  if not cfg.only or cfg.only == "history":
    run_history(rep, cfg)              # first: this process must not have parsed anything yet
  if not cfg.only or cfg.only == "corpus":
    pool = fresh_pool(1)               # in a child: this process itself must stay pristine for nothing, but cheap and uniform
    try:
      for r in pool.map(_corpus_worker, [0], 1): rep.merge(r)
    finally:
      pool.terminate()
  names = list(K.ORDER)
  if cfg.only in ("history", "corpus"): names = []
  if cfg.only:
    names = [n for n in names if cfg.only in n]
  items = []
  total = 0
  parts = []
  for name in names:
    nd1 = len(K.deviations(K.STACKS[name]))
    parts.extend(((name, i), estimate(K.STACKS[name], quick, i)) for i in range(-1, nd1))
    parts.append(((name, "edit"), 6 * nd1 * len(edit_plens(K.STACKS[name], quick))))
    parts.append(((name, "subedit"), 400 * (len(subedit_sources(K.STACKS[name])) - 1)))
    nl = len(K.STACKS[name]["layers"])
    npl = len(edit_plens(K.STACKS[name], quick))
    parts.append(((name, "reuse"), 5 * npl * len(reuse_cases(K.STACKS[name], quick))))
    parts.append(((name, "under"), 1500 * npl * nl))
    if K.STACKS[name]["payload"]: parts.append(((name, "swap"), 30 * npl * (nd1 + 1)))
    nw = len(W.wide_deviations(K.STACKS[name], wide_layers(K.STACKS[name], quick)))
    if nw: parts.append(((name, "wide"), (1 if quick or name.startswith("vlan:") else 4) * npl * nw))
  total = sum(n for _, n in parts)
  target = max(1500, total // (max(1, cfg.workers) * 12))
  cur, size = [], 0
  for it, n in parts:                      # deterministic greedy batching of the (stack, first deviation) parts
    cur.append(it); size += n
    if size >= target:
      items.append(cur); cur, size = [], 0
  if cur: items.append(cur)
  for r in pmap(_worker, items, cfg.workers, seed=cfg.seed):
    rep.merge(r)
  if not cfg.only or cfg.only == "csum":
    top = 130 if quick else 1502
    step = 10 if quick else 50
    for r in pmap(_csum_worker, [(lo, min(top, lo + step)) for lo in range(0, top, step)], cfg.workers, seed=cfg.seed):
      rep.merge(r)
  rep.state_count = rep.evaluations
  nd = sum(len(K.deviations(K.STACKS[n])) for n in names)
  rep.rule = ("E-enum over mc/refs/pktcorpus.STACKS: %d header stacks (each L3 stack also behind an 802.1Q tag); per stack the "
              "fingerprint base vector x every payload length of the stack's range (0..1500 for udp, tcp, icmp-echo over IPv4; "
              "{0,1,2,3,17,18,1499,1500} otherwise%s; on .../ip/udp stacks also a 2-byte payload that makes the UDP checksum compute to 0), "
              "every single deviation of a field to one of its boundary values / option-list "
              "shapes (%d deviations) x payload %s, every pair of deviations in different fields x payload %s%s; plus "
              "packet_utils.checksum on bare buffers of every length 0..%d x 7 byte patterns x skip_word {None,0,1,last}. "
              "Each case: assemble with the POX classes, pack, parse, compare chain/fields/payload, re-pack, verify length and "
              "checksum fields with refs/rfc1071 over raw offsets.  Edit-after-parse phase: per stack, the base vector x payload %s is "
              "packed and parsed, then every single deviation is applied to the PARSED chain by attribute assignment (one field of one "
              "header, every header in turn), packed, parsed again and compared field by field with the same packet assembled from "
              "scratch, and its lengths/checksums verified.  Sub-object edits: per stack, base vector and every option/TLV/entry-list shape: on the parsed packet ONE attribute of ONE "
              "element of every list/dict held by a header (RIP entries, DHCP options, LLDP TLVs, TCP options, IGMPv3 records, ND options, "
              "IPv6 extension headers) is changed in place (lowest bit flipped), packed, and compared with the same assignment made on a "
              "packet assembled from scratch (cases whose from-scratch packet does not carry the new value are not applicable).  "
              "Encoded-edit phase: the same single-field assignments on the ASSEMBLED objects after a first pack().  Payload-replacement "
              "phase: per stack with a raw payload, base vector and every single deviation x payload %s: packed; then on the assembled "
              "objects and on the parsed chain the innermost payload is replaced by {the same bytes, other bytes of the same length, "
              "17 bytes less, 1 byte more}, packed again and compared with the packet assembled from scratch around the new payload "
              "(a parsed GRE header's numeric checksum counts as a given value, as documented).  Re-use phase: per stack, every header "
              "i >= 1 with everything below it is taken from (a) the assembled packet, (b) the packet after a pack(), (c) the parsed frame, "
              "where the old packet differs from the new one by every single deviation of %s (both directions, and no difference), or is the "
              "base vector of every OTHER stack with the same headers from some j on (802.1Q push/pop, IPv4<->IPv6, tunnel and ICMP-quote "
              "stacks); it is handed to a newly made container by .payload = x / set_payload(x) / Class(payload=x); the packed result must "
              "equal the from-scratch packet and verify.  Undecodable-payload phase: per stack and header boundary i, headers [:i] "
              "(selector fields announcing header i; every pinned selector value and option shape of the container, every option / entry "
              "list shape of header i) are assembled around plain bytes: every proper prefix (length 0..T-1) of the library's own bytes "
              "for headers [i:], and pattern / all-zero / all-one bytes of every length 0..min(T,%d); pack, parse, pack: container fields, "
              "lengths and checksums as in the main phase; the bytes must come back and re-encode identically whenever they are shorter than "
              "the fixed part of the announced header (table FIXED_LEN from the RFCs), or the parser did not decode them, or the container "
              "is an ICMP/ICMPv6 error header quoting a truncated valid datagram (RFC 792 'header + 64 bits' is t = 28 here).  "
              "A complete packet of the innermost header followed by {1,2,17} more bytes is handed in the same way, and whenever the "
              "announced header is decoded from a proper prefix of the bytes handed in and re-encodes to exactly that prefix, the rest "
              "must not be dropped (header kinds with their own end marker / length field excepted).  "
              "Wire-range lattice phase (refs/pktwide.py): per stack%s, every unpinned non-selector field of %s x every value of the boundary "
              "lattice of its wire range {0,1,2,msb-1,msb,msb+1,max-1,max, each single bit, each single bit cleared} (IPv4 / MAC / IPv6 "
              "address fields: the 32/48/128 bit lattice; ports minus the application ports), and for list valued fields (RIP entries, "
              "IGMPv3 records, DHCP options - every option class alone -, LLDP TLVs, ND options, TCP options) one attribute of one element "
              "over its lattice plus list lengths at the count-field boundaries: single deviation of the base vector x payload %s, main-phase "
              "oracle%s; emitted EAPOL / EAP lengths and IGMPv3 record / source / aux counts are verified by an independent walk of the bytes.  "
              "Corpus phase: pack(parse(f)) == f for every corpus frame f (families in pktcorpus.CORPUS_NOT_CANONICAL: the "
              "re-encoding is a fixpoint).  History phase: for every ordered pair (A, B) of the %d corpus frames (A == B included), "
              "in a fresh process per A: parse A, parse B; every attribute of B's parsed chain and its re-encoding must equal B parsed "
              "first thing in a fresh process. distinct = distinct (violated clauses, emitted frame, parsed chain)"
              % (len(names), "" if quick else "; thorough: 0..1500 on every stack whose range reaches 1500", nd,
                 "{0,1,18} (+1499,1500 on the 0..1500 stacks)" if quick else "the stack's whole range",
                 "{0,1}" if quick else "{0,1,18}",
                 "" if quick else ", every triple of deviations in different fields x payload {0,1} on stacks with <= 100 deviations",
                 129 if quick else 1501, "{18}" if quick else "{0,1,18}", "{18}" if quick else "{0,1,18}",
                 "its direct container" if quick else "any header above it", UNDER_GARBAGE_MAX if quick else 4 * UNDER_GARBAGE_MAX,
                 " without 802.1Q tag" if quick else "", "its two innermost headers" if quick else "every header",
                 "{18}" if quick else "{0,1,18}", "" if quick else "; on the untagged stacks (payload 18) scalar values are also assigned to the PARSED packet (edit-phase oracle)",
                 len(K.corpus())))
  rep.bound = dict(stacks=len(names), deviations=2 if quick else 3, payload_max=1500, work_items=len(items),
                   reuse=dict(sources=list(REUSE_SOURCES), forms=list(ATTACH_FORMS), old_new_difference="1 deviation of %s, or another stack "
                              "with the same tail" % ("the direct container" if quick else "any outer header")),
                   undecodable_payload=dict(prefix_lengths="0..T-1", garbage_lengths="0..min(T,%d)" % (UNDER_GARBAGE_MAX if quick else 4 * UNDER_GARBAGE_MAX),
                                            contents=list(UNDER_CONTENTS)),
                   wire_lattice=dict(values_per_field="8 boundaries + 2 per bit of the field width", layers="two innermost, untagged stacks" if quick else "all",
                                     wide_deviations=sum(len(W.wide_deviations(K.STACKS[n], wide_layers(K.STACKS[n], quick))) for n in names)),
                   trailing_bytes=list(UNDER_EXTRA),
                   payload_replacement=list(SWAP_VARIANTS), history_payload_lengths=[18] if quick else [0, 1, 18])
  rep.assumptions = ["frames carry no trailer padding (a total-length field accounts for every remaining byte)",
                     "field values are taken from the boundary sets in pktcorpus.KINDS, not from the whole wire range",
                     "ICMPv6, IGMP and GRE checksums are not named by the property: checked by round trip only",
                     "fields the library does not compute (802.3 length, EAPOL body length, EAP length, IPv4 IHL) are supplied "
                     "correctly by the builder",
                     "a header object belongs to the container it was handed to LAST: a container that still references an object which "
                     "was meanwhile handed to another container is not packed again",
                     "bytes that a parser accepts as the announced header although their own length / checksum fields do not fit the "
                     "truncation (e.g. 30 bytes of a 38 byte TCP segment under IPv4) are recomputed by the library by design: counted, "
                     "not judged - except under ICMP/ICMPv6 error headers, whose payload is by definition a truncated datagram",
                     "gre.csum: True = compute, number = emit as given (class docstring); a parsed header holds a number",
                     "selector fields (ethertype, IP protocol / next header, ICMP / IGMP / EAPOL type, EAP code, application ports) keep the "
                     "table's values in the wire-range lattice phase: their value decides which header follows",
                     "bytes after a header that marks its own end (IPv4 / IPv6 / UDP / EAPOL / EAP length field, LLDP End TLV, DHCP end "
                     "option) are padding and may be dropped; after every other decoded header they belong to the container's payload"]
  return rep


def explains (known_key, key):
  """A listed key explains a violation when equal, or - if it contains '*' - when it matches with
  '*' standing for any run of characters (every other character is literal)."""
  if known_key == key: return True
  if "*" not in known_key: return False
  import re
  return re.fullmatch(".*".join(re.escape(x) for x in known_key.split("*")), key) is not None


def replay (cfg, data):
  P = K.pox_namespace()
  if data.get("kind") == "csum":
    v = check_csum_fn(P, data["n"], data["pat"], data["skip"])
    return bool(v), "\n".join("%s: %s" % kv for kv in v) or "checksum agrees with RFC 1071"
  if data.get("kind") == "corpus":
    c = check_corpus_frame(P, data["frame"], K.corpus()[data["frame"]])
    return bool(c.viols), "\n".join("VIOLATED %s:%s: %s" % (PID, k, w) for k, w in c.viols) or "corpus frame re-encodes to itself"
  if data.get("kind") == "history":
    pool = fresh_pool(1)
    try:
      _ISO.update(dict(pool.map(_iso_task, list(K.corpus()), 1)))
    finally:
      pool.terminate()
    pool = fresh_pool(1)
    try:
      r, text = pool.map(_after_task, [(data["a"], data["b"])], 1)[0]
    finally:
      pool.terminate()
    head = "fresh process; for every corpus frame B up to %s: parse %s, parse B, compare B with B parsed first thing in a fresh process" % (data["b"], data["a"])
    return bool(r.violations), head + "\n" + ("\n".join(text) or "every B parsed exactly as in isolation")
  st = K.STACKS[data["stack"]]
  tup = lambda ds: tuple(tuple(d) for d in ds)
  fmt = lambda c, ok: "\n".join("VIOLATED %s:%s: %s" % (PID, k, w) for k, w in c.viols) or ok
  if data.get("kind") == "reuse":
    c = check_reuse(P, st, data["i"], tup(data["old"]), tup(data["new"]), data["source"], data["form"], data["plen"],
                    data.get("src"), data.get("j"))
    head = ("stack %s, payload %d bytes: assembled with deviations %r; header %d (%s) with everything below it taken from it (%s) and "
            "handed (%s) to a newly made container of stack %s, the other headers made with deviations %r; packed and compared with "
            "the packet assembled from scratch" % (data.get("src") or st["name"], data["plen"], data["old"], data.get("j") or data["i"],
                                                   st["layers"][data["i"]][0], data["source"], data["form"], st["name"], data["new"]))
    if c is None: return False, head + "\nnot applicable"
    return bool(c.viols), head + "\nframe: %s\n" % (c.frame.hex() if c.frame is not None else "<not produced>")[:400] + fmt(c, "identical to the from-scratch packet")
  if data.get("kind") == "under":
    c, judged = check_under(P, st, data["i"], tup(data["devs"]), data["content"], data["t"], data["plen"])
    head = ("stack %s with deviations %r: headers [0..%d] assembled around %d bytes (%s of the library's own bytes for headers [%d..]); "
            "pack, parse, pack" % (st["name"], data["devs"], data["i"] - 1, data["t"], data["content"], data["i"]))
    return bool(c.viols), head + "\nframe: %s\nparsed: %s\n" % ((c.frame.hex() if c.frame is not None else "<not produced>")[:400], c.chain) + fmt(
      c, "round trip holds" if judged else "payload decoded, its own fields do not verify: the library normalises them (not judged)")
  if data.get("kind") == "swap":
    c = check_swap(P, st, tup(data["devs"]), data["plen"], data["variant"], data["on"])
    head = ("stack %s with deviations %r, payload %d bytes: packed; then on the %s objects the innermost payload is replaced (%s) and "
            "the packet packed again" % (st["name"], data["devs"], data["plen"], data["on"], data["variant"]))
    if c is None: return False, head + "\nnot applicable"
    return bool(c.viols), head + "\nframe: %s\n" % (c.frame.hex() if c.frame is not None else "<not produced>")[:400] + fmt(c, "identical to the from-scratch packet")
  if data.get("kind") == "subedit":
    devs = tuple(tuple(d) for d in data["devs"])
    c = check_subedit(P, st, devs, data["plen"], tuple(data["point"]))
    li, a, key, cname, sa = data["point"]
    head = ("stack %s, deviations %r, payload %d: packed and parsed; on the parsed packet layer %d (%s) .%s[%r] (%s) .%s modified in place; "
            "packed and compared with the same packet assembled from scratch" % (st["name"], list(devs), data["plen"], li, st["layers"][li][0], a, key, cname, sa))
    if c is None: return False, head + "\nnot applicable"
    return bool(c.viols), head + "\n" + "\n".join("VIOLATED %s:%s: %s" % (PID, k, w) for k, w in c.viols)
  if data.get("kind") == "edit":
    dev = tuple(data["dev"])
    c = check_edit(P, st, dev, data["plen"], data.get("on", "parsed"))
    val = W.values(st, (dev,))[dev[0]][dev[1]]
    lines = ["stack %s, payload %d bytes: base vector packed%s; then on the %s layer %d (%s) %s := %s; "
             "packed and parsed again" % (st["name"], data["plen"], " and parsed" if data.get("on", "parsed") == "parsed" else "",
                                          "parsed chain" if data.get("on", "parsed") == "parsed" else "assembled objects",
                                          dev[0], st["layers"][dev[0]][0], dev[1], short(val, 80))]
    if c is None:
      return False, lines[0] + "\nnot applicable (the from-scratch round trip of base or donor already fails, or nothing to assign)"
    lines.append("frame after the edit: %s" % (c.frame.hex() if c.frame is not None else "<not produced>")[:400])
    for k, what in c.viols:
      lines.append("VIOLATED %s:%s: %s" % (PID, k, what))
    return bool(c.viols), "\n".join(lines)
  devs = tuple(tuple(d) for d in data["devs"])
  c = check_case(P, st, devs, data["plen"])
  lines = ["stack %s, payload %s, deviations from the base vector:"
           % (st["name"], "%d bytes" % data["plen"] if data["plen"] >= 0 else "2 bytes making the UDP checksum compute to 0")]
  vs = W.values(st, devs)
  for li, f, ai in devs:
    lines.append("  layer %d (%s) %s = %s" % (li, st["layers"][li][0], f, short(vs[li][f], 80)))
  if not devs: lines.append("  (none)")
  lines.append("frame: %s" % (c.frame.hex() if c.frame is not None else "<not produced>")[:400])
  lines.append("parsed chain: %s" % c.chain)
  for k, what in c.viols:
    lines.append("VIOLATED %s:%s: %s" % (PID, k, what))
  return bool(c.viols), "\n".join(lines)
