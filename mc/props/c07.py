"""C07 - hand-off between threads and the scheduler; cooperative locks.

E-thr (mc/thr.py): the real recoco Scheduler / SelectHub / CallLaterTask / ScheduleTask / Synchronizer
run on controlled threads; every schedule within a deviation bound from the default schedule is
executed (a deviation = a preemption, or a non-default successor at a forced switch).  Scenarios S1-S4
(both select-hub modes) plus S5, the cooperative Lock, explored sequentially with E-seq.
"""
import gc, itertools, sys
from mc.engine import explore, pmap, Ctx
from mc.report import Report

PID = "C07"

NARROW = {
  "calllater": ("Scheduler.callLater", "CallLaterTask.callLater", "CallLaterTask.run", "Scheduler.fast_schedule",
                "SelectHub.break_idle", "SelectHub.idle", "Scheduler.run", "SelectHub._cycle", "BaseTask.start"),
  "wake": ("Scheduler.schedule", "ScheduleTask.run", "Scheduler.fast_schedule", "SelectHub.break_idle", "SelectHub.idle",
           "Scheduler.run", "BaseTask.start", "SelectHub._cycle"),
  "sync": ("Synchronizer.__enter__", "Synchronizer.__exit__", "SyncTask.run", "Scheduler.synchronized", "Scheduler.schedule",
           "ScheduleTask.run", "Scheduler.fast_schedule", "SelectHub.break_idle", "SelectHub.idle", "Scheduler.run"),
  "idle": ("Scheduler.fast_schedule", "SelectHub.break_idle", "SelectHub.idle", "Scheduler.run", "SelectHub._cycle",
           "BaseTask.start", "Scheduler.schedule", "ScheduleTask.run"),
}


class FakeOS (object):
  """Stands in for the `os` module inside pox.lib.util so that the REAL pinger code (PipePinger over os.pipe /
  os.write / os.read) runs on modelled pipes: write makes the read end readable, read blocks on an empty pipe."""
  name = "posix"
  def __init__ (self, S):
    self.S = S; self.pipes = {}; self.next = 1000
  def pipe (self):
    r, w = self.next, self.next + 1; self.next += 2
    buf = [0]
    self.pipes[r] = buf; self.pipes[w] = buf
    return (r, w)
  def write (self, fd, data):
    self.S.point("os.write"); self.pipes[fd][0] += len(data); return len(data)
  def read (self, fd, n):
    S = self.S
    S.point("os.read")
    buf = self.pipes[fd]
    if buf[0] == 0:
      S.block(lambda: buf[0] > 0, what="read of an empty pipe")
    k = min(n, buf[0]); buf[0] -= k
    return b" " * k
  def close (self, fd): pass
  def readable (self, fd):
    b = self.pipes.get(fd); return bool(b and b[0] > 0)
  def __getattr__ (self, n):
    import os as _os
    return getattr(_os, n)


def setup (ctx, threaded, funcs, pending, opcode=False, rotate=False, max_points=6000, real_pinger=False, via_core=False):
  from mc.env import boot
  boot()
  from mc import thr
  import pox.lib.recoco.recoco as R, pox.lib.util as U
  S = thr.Sched(ctx, trace_files=("recoco/recoco.py",), trace_funcs=funcs,
                opcode_funcs=(funcs or ()) if opcode else (), pending=pending, max_points=max_points)
  S.rotate = rotate
  T = thr.CThreadingModule(S)
  R.threading = T; R.Thread = T.Thread; R.Queue = lambda: thr.CQueue(S)
  R.time = thr.CTime(S); R.CYCLE_MAXIMUM = 1e9
  import os as _realos
  if real_pinger:
    # the library's own pinger (pox.lib.util.make_pinger -> PipePinger) on modelled pipes
    fos = FakeOS(S)
    U.os = fos
    U.makePinger = U.make_pinger
    class PipeSelect (thr.CSelect):
      def _ready (self_, r, w, x):
        ro = [o for o in r if (getattr(o, "readable", None) or (lambda: fos.readable(o.fileno() if hasattr(o, "fileno") else o)))()]
        return ro, [], []
    R.select = PipeSelect(S)
  else:
    U.os = _realos
    R.select = thr.CSelect(S)
    U.makePinger = lambda: thr.CPinger(S)
  R.Scheduler.runThreaded = R.Scheduler._orig_runThreaded
  if via_core:
    # the scheduler made the way a running POX makes it: by POXCore's constructor (whose `import threading` is
    # answered with the controlled module, so whatever thread it starts is under the explorer's control)
    import sys, io, contextlib, pox.core as PC
    real = sys.modules["threading"]
    sys.modules["threading"] = T
    try:
      with contextlib.redirect_stdout(io.StringIO()):
        c = PC.POXCore(threaded_selecthub=threaded, handle_signals=False)
    finally:
      sys.modules["threading"] = real
    sch = c.scheduler
  else:
    sch = R.Scheduler(isDefaultScheduler=True, startInThread=True, threaded_selecthub=threaded)
  R.defaultScheduler = sch
  return S, R, sch


def finish (S, first=0):
  leaked = S.run(first=first)
  v = S.verdict
  if leaked and v is None: v = ("leaked-threads", ",".join(leaked))
  return v


# ---- S1: callLater ---------------------------------------------------------------
def s_calllater (ctx, p):
  ran = []
  nthreads, ncalls = p.get("threads", 2), p.get("calls", 2)
  total = nthreads * ncalls
  S, R, sch = setup(ctx, p["threaded"], p["funcs"], lambda: len(set(ran_tags(ran))) < total, p.get("opcode"), p.get("rotate"), real_pinger=p.get("real_pinger", False),
                    max_points=p.get("max_points", 6000))
  raiser = p.get("raiser")
  if raiser:
    import logging
    logging.getLogger("recoco").disabled = True      # the library logs the traceback of a failing function
  def f (tag):
    ran.append((tag, S.cur.obj is sch._thread))
    # a handed-over function that fails (ordinary exception, or a BaseException such as SystemExit) must not
    # strand the functions queued behind it
    if raiser and tag == (0, 0): raise (SystemExit(3) if raiser == "sysexit" else ValueError("boom"))
  def foreign (i):
    def body ():
      for j in range(ncalls): sch.callLater(f, (i, j))
    return body
  for i in range(nthreads): S.spawn(foreign(i), name="F%d" % i)
  v = finish(S)
  if v: return ("calllater:" + v[0], v[1]), ran
  tags = ran_tags(ran)
  if len(tags) != len(set(tags)): return ("calllater:ran-twice", "a function handed over with callLater ran twice: %r" % (tags,)), ran
  if len(tags) != total: return ("calllater:not-run", "%d of %d functions ran" % (len(tags), total)), ran
  if not all(ok for _, ok in ran): return ("calllater:wrong-thread", "a callLater function ran outside the scheduler thread"), ran
  for i in range(nthreads):
    mine = [t[1] for t in tags if t[0] == i]
    if mine != sorted(mine): return ("calllater:order", "thread %d's functions ran in order %r" % (i, mine)), ran
  return None, tuple(tags)

def ran_tags (ran): return [t for t, _ in ran]


# ---- S2: a task woken from several threads at once ---------------------------------------------
def s_wake (ctx, p):
  st = dict(last_wake=-1, last_step=-2, steps=0, maxq=0, clock=0)
  def tick (): st["clock"] += 1; return st["clock"]
  S, R, sch = setup(ctx, p["threaded"], p["funcs"], lambda: st["last_wake"] > st["last_step"], p.get("opcode"), p.get("rotate"), real_pinger=p.get("real_pinger", False))
  class T (R.BaseTask):
    def run (self):
      for _ in range(p.get("reyield", 0)):
        # re-queue itself with `yield 0`: the task then sits in the ready list without having gone through
        # fast_schedule()
        st["last_step"] = tick(); st["steps"] += 1
        yield 0
      while True:
        st["last_step"] = tick(); st["steps"] += 1
        yield False
  class Sib (R.BaseTask):
    def run (self):
      st["last_wake"] = tick()
      sch.schedule(t)
      yield False
  t = T(); sib = Sib()
  t.start(sch, fast=True); sib.start(sch, fast=True)
  def mon (S_, label):
    c = list(sch._ready).count(t)
    if c > st["maxq"]: st["maxq"] = c
  S.monitor = mon
  def foreign ():
    st["last_wake"] = tick()
    sch.schedule(t)
  for i in range(p.get("threads", 2)): S.spawn(foreign, name="F%d" % i)
  v = finish(S)
  if st["maxq"] > 1: return ("wake:queued-twice", "the woken task was in the ready queue %d times at once" % st["maxq"]), st["steps"]
  if v: return ("wake:" + v[0], v[1]), st["steps"]
  return None, st["steps"]


# ---- S3: synchronized() ----------------------------------------------------------------
def s_sync (ctx, p):
  st = dict(inside=0, bad=None, fdone=False, steps=0, fleft=p.get("threads", 1))
  S, R, sch = setup(ctx, p["threaded"], p["funcs"], lambda: not st["fdone"], p.get("opcode"), p.get("rotate"), real_pinger=p.get("real_pinger", False),
                    via_core=p.get("via_core", False))
  class Worker (R.BaseTask):
    def run (self):
      for i in range(3):
        st["steps"] += 1
        if st["inside"]: st["bad"] = "a cooperative task step ran while a foreign thread was inside synchronized()"
        yield 0
        if st["inside"]: st["bad"] = "a cooperative task resumed while a foreign thread was inside synchronized()"
  Worker().start(sch, fast=True); Worker().start(sch, fast=True)
  def foreign ():
    for rnd in range(p.get("rounds", 2)):
      with sch.synchronized():
        st["inside"] += 1
        S.point("in-section")
        with sch.synchronized():        # nested
          S.point("in-nested")
        S.point("in-section-2")
        st["inside"] -= 1
    st["fdone"] = True
  for i in range(p.get("threads", 1)): S.spawn(foreign, name="F%d" % i)
  v = finish(S)
  if st["bad"]: return ("sync:task-ran-in-section", st["bad"]), st["steps"]
  if v: return ("sync:" + v[0], v[1]), st["steps"]
  if st["steps"] != 6: return ("sync:tasks-not-run", "cooperative tasks made %d of 6 steps" % st["steps"]), st["steps"]
  return None, st["steps"]


# ---- S4: idle / wake-up handshake ----------------------------------------------------
def s_idle (ctx, p):
  st = dict(ran=0, want=0)
  S, R, sch = setup(ctx, p["threaded"], p["funcs"], lambda: st["ran"] < st["want"], p.get("opcode"), p.get("rotate"), real_pinger=p.get("real_pinger", False))
  class One (R.BaseTask):
    def run (self):
      st["ran"] += 1
      yield False
  class Bad (R.BaseTask):
    # a task that dies with an exception on its first step; the tasks queued behind it must still run
    def run (self):
      raise ValueError("task fails")
      yield False
  if p.get("bad"):
    # the scheduler prints a traceback for every task that dies; keep the check's output readable
    import types
    R.print = lambda *a, **k: None
    R.traceback = types.SimpleNamespace(print_exc=lambda *a, **k: None, format_exc=lambda *a, **k: "")
  def foreign ():
    for i in range(p.get("bad", 0)):
      b = Bad()
      if p.get("via") == "schedule": sch.schedule(b)
      else: b.start(sch, fast=True)
    for i in range(p.get("tasks", 2)):
      t = One()
      st["want"] += 1
      if p.get("via") == "schedule": sch.schedule(t)
      else: t.start(sch, fast=True)
      S.point("between-tasks")
  S.spawn(foreign, name="F0")
  # let the scheduler and hub go idle first in the default schedule (they have the lower thread ids)
  v = finish(S)
  if v: return ("idle:" + v[0], v[1]), st["ran"]
  if st["ran"] != st["want"]: return ("idle:count", "%d of %d new tasks ran" % (st["ran"], st["want"])), st["ran"]
  return None, st["ran"]


SCEN = dict(calllater=s_calllater, wake=s_wake, sync=s_sync, idle=s_idle)


def configs (quick):
  cs = []
  for threaded in (True, False):
    for name in ("calllater", "wake", "sync", "idle"):
      base = dict(scen=name, threaded=threaded, funcs=NARROW[name])
      cs.append(dict(base, bound=2))
      if name in ("idle", "sync") or not quick:
        cs.append(dict(base, bound=2, rotate=True))
      if name == "idle":
        cs.append(dict(base, bound=2, via="schedule"))
        cs.append(dict(base, bound=2, bad=2, tasks=1))
      if name == "wake":
        cs.append(dict(base, bound=2, reyield=3))
      if name == "sync":
        cs.append(dict(base, bound=2, via_core=True))
        # two foreign threads competing for the section
        cs.append(dict(base, bound=2, threads=2, rounds=1))
      if name == "calllater":
        cs.append(dict(base, bound=2, raiser="sysexit"))
        if not quick: cs.append(dict(base, bound=2, raiser="exc", calls=3))
        # the library's real pipe pinger instead of the counting model; 3 calls per thread
        cs.append(dict(base, bound=2 if threaded else 1, real_pinger=True, calls=3))
        # a pile of hand-overs around the pinger's read size (pong_all reads 1024 bytes at a time): default schedule
        # only (the foreign thread hands everything over while the scheduler sleeps)
        for n in ((1024,) if quick else (1023, 1024, 1025, 2048)):
          cs.append(dict(base, bound=0, real_pinger=True, threads=1, calls=n, max_points=400000))
      # every line of recoco.py as a scheduling point, one deviation
      cs.append(dict(base, funcs=None, bound=1))
      if not quick:
        # three deviations; not for the call-later scenario, whose bound-3 space (two foreign threads x two hand-overs
        # each, plus the scheduler and hub threads) does not complete within an hour - it gets more calls / threads
        # at bound 2 instead (below and above)
        if name != "calllater": cs.append(dict(base, bound=3))
        # (bytecode-granularity tracing is not used: CPython 3.12.1 is not deterministic - and can crash - under
        #  per-instruction tracing across threads; see DESIGN.md 9.2)
        cs.append(dict(base, funcs=None, bound=2))
  if not quick:
    cs.append(dict(scen="calllater", threaded=True, funcs=NARROW["calllater"], bound=2, threads=3, calls=1))
    cs.append(dict(scen="wake", threaded=True, funcs=NARROW["wake"], bound=2, threads=3))
  return cs


def run_one (cfgd, prefix):
  ctx = Ctx(prefix)
  res = SCEN[cfgd["scen"]](ctx, cfgd)
  return ctx, res


def cfg_name (c):
  return "%s/%s/%s%s%s%s" % (c["scen"], "threaded-hub" if c["threaded"] else "inline-hub",
                             "all-lines" if c["funcs"] is None else "handoff-funcs",
                             "/opcode" if c.get("opcode") else "", "/rotate" if c.get("rotate") else "",
                             ("/via-schedule" if c.get("via") else "") + ("/reyield" if c.get("reyield") else "")
                             + ("/real-pinger" if c.get("real_pinger") else "") + ("/raiser-" + c["raiser"] if c.get("raiser") else "")
                             + ("/via-core" if c.get("via_core") else "") + ("/calls%d" % c["calls"] if c.get("calls", 0) > 3 else "")
                             + ("/failing-tasks" if c.get("bad") else "") + ("/2-foreign-threads" if c.get("scen") == "sync" and c.get("threads", 1) > 1 else ""))


def _worker (item):
  ci, cfgd, prefixes = item
  gc.disable()
  rep = Report(PID, "model_checking")
  hub = "threaded-hub" if cfgd["threaded"] else "inline-hub"
  def on_exec (ctx, res):
    bad, out = res
    rep.evaluations += 1
    rep.transitions += len(ctx.trace)
    kk = "execs:" + cfg_name(cfgd) + "/bound%d" % max(1, cfgd["bound"])
    rep.extra[kk] = rep.extra.get(kk, 0) + 1
    rep.outcome((cfgd["scen"], hub, bad and bad[0], out))
    if bad:
      rep.violation("%s:%s:%s" % (PID, bad[0], hub), "%s [%s]" % (bad[1], cfg_name(cfgd)),
                    dict(config=dict(cfgd, funcs=None if cfgd["funcs"] is None else list(cfgd["funcs"])), choices=ctx.choices()))
    if rep.evaluations == 1 and prefixes and (prefixes[0] or cfgd.get("calls", 0) > 3):
      rep.sample(dict(scenario=cfg_name(cfgd), deviations=[(i, t[2], t[0]) for i, t in enumerate(ctx.trace) if t[0]],
                      scheduling_points=len(ctx.trace), verdict=bad and bad[0], observation=out))
    if rep.evaluations % 200 == 0: gc.collect()
  for pfx in prefixes:
    explore(lambda ctx: SCEN[cfgd["scen"]](ctx, cfgd), dev_bound=cfgd["bound"], prefix0=pfx, on_exec=on_exec)
  gc.collect(); gc.enable()
  rep.state_count = rep.evaluations
  return rep


def first_level (cfgd):
  """Run the default schedule, check it is deterministic, return the prefixes of its one-deviation children."""
  ctx1, r1 = run_one(cfgd, [])
  ctx2, r2 = run_one(cfgd, [])
  if [(t[1], t[2]) for t in ctx1.trace] != [(t[1], t[2]) for t in ctx2.trace]:
    raise RuntimeError("nondeterministic default schedule for %s" % cfg_name(cfgd))
  kids = [[]]
  if cfgd["bound"] >= 1:
    for i, (c, n, label, costly) in enumerate(ctx1.trace):
      for alt in range(1, n):
        kids.append([0] * i + [alt])
  return kids, len(ctx1.trace)


def _first_worker (item):
  ci, cfgd = item
  gc.disable()
  try:
    kids, npts = first_level(cfgd)
  finally:
    gc.enable()
  return ci, kids, npts


def run (cfg):
  rep = Report(PID, "model_checking")
  cs = configs(cfg.quick)
  if cfg.only: cs = [c for c in cs if cfg.only in cfg_name(c) + "/bound%d" % c["bound"]]
  items = []
  pts = {}
  for ci, kids, npts in pmap(_first_worker, list(enumerate(cs)), cfg.workers):
    pts[cfg_name(cs[ci]) + "/bound%d" % cs[ci]["bound"]] = npts
    # [] is the root: explore() on the root would enumerate everything serially, so the root execution is
    # taken as a bound-0 item and each one-deviation child as its own subtree
    root = dict(cs[ci], bound=0)
    items.append((ci, root, [[]]))
    kids = kids[1:]
    n = max(1, len(kids) // (cfg.workers * 2) + 1)
    for i in range(0, len(kids), n):
      items.append((ci, cs[ci], kids[i:i+n]))
  for r in pmap(_worker, items, cfg.workers, seed=cfg.seed):
    rep.merge(r)
  # S5: cooperative locks (sequential)
  from mc.props import c07_locks
  rep.merge(c07_locks.run_locks(cfg))
  rep.rule = ("controlled-thread exploration of the real recoco scheduler: scenarios callLater (2 foreign threads x 2 calls), "
              "wake (task woken by 2 foreign threads + a sibling task), synchronized (foreign thread, nested, 2 rounds, 2 worker tasks), "
              "idle/wake-up handshake (new tasks via fast start and via schedule), each with threaded and inline select hub; "
              "scheduling points = line events in the hand-off functions (deviation bound 2; thorough 3) or in all "
              "of recoco.py (bound 1; thorough 2) plus every Lock/Event/Queue/select/pinger operation; every schedule within the bound "
              "is executed; cooperative Lock: every program of 2-3 tasks x acquire/release scripts on 1-2 locks with every waiter-pop choice. "
              "distinct = (scenario, hub, verdict, observation)")
  rep.bound = dict(configs=len(cs), scheduling_points_default_schedule=pts)
  rep.assumptions = ["C-level atomicity of deque/dict/list operations (CPython GIL)",
                     "modelled Lock/Event/Queue/select/pinger semantics (mc/thr.py); polling timeouts are never fired while work is pending",
                     "no partial-order reduction: counts are schedules, not equivalence classes"]
  return rep


def replay (cfg, data):
  if "locks" in data:
    from mc.props import c07_locks
    return c07_locks.replay_locks(data)
  c = dict(data["config"])
  if c.get("funcs") is not None: c["funcs"] = tuple(c["funcs"])
  gc.disable()
  try:
    ctx, (bad, out) = run_one(c, list(data["choices"]))
  finally:
    gc.enable()
  return bool(bad), "%s\nschedule deviations at: %r\n=> %r" % (cfg_name(c), [(i, t[2], t[0]) for i, t in enumerate(ctx.trace) if t[0]], bad)
